"""Run the rules of one property against a tree; decide exit status; write evidence."""
import importlib
import os
import sys
import traceback

from .core.ctx import Ctx
from .core.loader import AnalysisError
from .core.report import RuleOut, load_known, write_json, Timer, VERIF

PROPS_ALL = ["C01", "C02", "C03", "C04", "C05", "C06", "C08", "C09", "C10", "C11", "C12", "C13", "C14",
             "C15", "C16", "C17", "C18"]
import os as _os
PROPS = [p for p in PROPS_ALL if _os.path.exists(_os.path.join(_os.path.dirname(__file__), "rules", p + ".py"))]


class RunResult:
    def __init__(self, prop):
        self.prop = prop
        self.outs = []
        self.error = None       # analysis error text
        self.violations = []    # Finding not known
        self.known = []         # (Finding, text)
        self.lines = []
        self.ctx = None
        self.rule_errors = []   # (rule id, text): rules that could not be applied


def analyse(prop, root, tier="quick", overlay=None, only_rule=None, ctx=None):
    """Run all rules of `prop`; never raises."""
    res = RunResult(prop)
    try:
        mod = importlib.import_module(f"sa.rules.{prop}")
        if ctx is None:
            ctx = Ctx(root, tier=tier, overlay=overlay)
        res.ctx = ctx
        for rule_id, title, floor, fn in mod.RULES:
            if only_rule and rule_id != only_rule:
                continue
            out = RuleOut(rule_id, title)
            try:
                fn(ctx, out)
                if out.instances < floor and not out.findings:
                    raise AnalysisError(f"rule {rule_id}: analysed {out.instances} instances, floor is {floor} "
                                        f"(a rule that matches nothing passes vacuously)")
            except AnalysisError as e:
                # one rule that cannot be applied must not hide what the other rules found: remembered, decided in finish()
                res.rule_errors.append((rule_id, f"{e}"))
                if out.findings:
                    res.outs.append(out)
                continue
            res.outs.append(out)
    except AnalysisError as e:
        res.error = f"{e}"
    except Exception:
        res.error = "checker crashed: " + traceback.format_exc(limit=8)
    return res


def decide(res, known_path=None):
    known, _fixed = load_known(known_path) if known_path else load_known()
    for out in res.outs:
        for f in out.findings:
            k = (res.prop, f.key)
            if k in known:
                res.known.append((f, known[k]))
            else:
                res.violations.append(f)
    # a rule that could not be applied makes the run analysis-broken — unless another rule reports a violation, which is the
    # more specific answer (the broken rule is then listed with it)
    if res.rule_errors and not res.violations:
        res.error = "; ".join(f"{m}" for _, m in res.rule_errors)
    return res


def main(argv=None):
    import argparse
    ap = argparse.ArgumentParser()
    ap.add_argument("prop")
    ap.add_argument("--tier", default=os.environ.get("VERIF_TIER", "quick"), choices=["quick", "thorough"])
    ap.add_argument("--root", default="/repo")
    ap.add_argument("--rule", default=None)
    ap.add_argument("--evidence", default=None, help="evidence path (default evidence/<prop>.json when root is /repo)")
    ap.add_argument("--no-selftest", action="store_true")
    ap.add_argument("--replay", default=None, help="print a stored violation file and re-run its rule")
    args = ap.parse_args(argv)
    prop = args.prop
    timer = Timer()
    seed = int(os.environ.get("VERIF_SEED", "0") or 0)

    if args.replay:
        import json
        with open(args.replay) as f:
            data = json.load(f)
        print(json.dumps(data, indent=1))

    if prop not in PROPS:
        print(f"ANALYSIS-ERROR property={prop} unknown or not claimed (see MANIFEST.json not_applicable)")
        return 2

    res = analyse(prop, args.root, tier=args.tier, only_rule=args.rule)
    ev_path = args.evidence or (os.path.join(VERIF, "evidence", f"{prop}.json")
                                if os.path.abspath(args.root) == "/repo" and not args.rule else None)
    if res.error:
        print(f"ANALYSIS-ERROR property={prop} {res.error}")
        return 2
    decide(res)
    if res.error:
        print(f"ANALYSIS-ERROR property={prop} {res.error}")
        return 2
    for rid, msg in res.rule_errors:
        print(f"  (rule {rid} could not be applied: {msg})")

    selftest = None
    if args.tier == "thorough" and not args.no_selftest:
        from .selftest.run import run_selftest
        selftest = run_selftest(prop, args.root)

    # ---- report -----------------------------------------------------------
    for out in res.outs:
        print(f"[{out.rule_id}] {out.title}: {out.satisfied}/{out.instances} instances hold"
              + (f", {len(out.unproven)} triaged-unproven" if out.unproven else ""))
    for f, text in res.known:
        print(f"KNOWN-FINDING: property={prop} {f.key} {f.message} [{text}]")
    status = 0
    viol_path = os.path.join(VERIF, "evidence", f"{prop}.viol.json")
    if res.violations:
        status = 1
        if args.evidence:
            viol_path = args.evidence + ".viol.json"
        write_json(viol_path, {"property": prop, "root": args.root,
                               "recheck": f"./check {prop} --root {args.root} --rule <rule id before '/'>",
                               "violations": [f.to_json() for f in res.violations]})
        for f in res.violations:
            print(f"  finding {f.key}: {f.message}  @ {f.where}")
        print(f"VIOLATION property={prop} replay={viol_path}")
    elif os.path.exists(viol_path):
        os.remove(viol_path)        # a replay file of an earlier run on another tree says nothing about this one
    if selftest is not None:
        print(f"[selftest] {selftest['detected']}/{selftest['applied']} mutants detected, "
              f"{selftest['silent_twins']}/{selftest['twins']} twins silent, {selftest['stale']} stale")
        if selftest["failures"]:
            for x in selftest["failures"]:
                print(f"  selftest failure: {x}")
            print(f"ANALYSIS-ERROR property={prop} checker self-test failed")
            if status == 0:
                status = 2

    if ev_path:
        write_json(ev_path, build_evidence(res, args.tier, seed, timer.s(), selftest))
    return status


def build_evidence(res, tier, seed, wall, selftest):
    prop = res.prop
    mod = importlib.import_module(f"sa.rules.{prop}")
    instances = sum(o.instances for o in res.outs)
    satisfied = sum(o.satisfied for o in res.outs)
    samples = []
    for o in res.outs:
        for s in o.samples[:4]:
            samples.append({"rule": o.rule_id, "instance": s})
    rules = []
    for o in res.outs:
        rules.append({"rule": o.rule_id, "title": o.title, "instances": o.instances, "satisfied": o.satisfied,
                      "findings": [f.to_json() for f in o.findings], "triaged_unproven": o.unproven, "info": o.info})
    cov = {
        "explanation": getattr(mod, "EXPLANATION", ""),
        "evaluations": instances,
        "distinct_nontrivial": instances,
        "rule": "one evaluation = one rule instance (obligation) extracted from the current source: a call site, "
                "table row, abstract region, global, or path; instances are distinct constructs by definition "
                "(keyed by rule + construct) and non-trivial because each is an obligation that a finding can attach to",
        "obligations": instances,
        "discharged": satisfied,
        "samples": samples or [{"note": "no instance sampled"}],
        "exhaustive": bool(getattr(mod, "EXHAUSTIVE", False)),
        "rules": rules,
        "consulted_files": res.ctx.p.consulted_files() if res.ctx else {},
        "known_findings_matched": [f.key for f, _ in res.known],
        "not_decided": getattr(mod, "NOT_DECIDED", ""),
    }
    if selftest is not None:
        cov["selftest"] = selftest
    return {
        "property_id": prop,
        "tier": tier,
        "seed": seed,
        "level": "other",
        "coverage": cov,
        "assumptions": list(getattr(mod, "ASSUMPTIONS", [])) + [
            f"decides the structural clauses named in DESIGN.md §4/{prop}; the behavioural remainder of {prop} "
            f"is not decided by this technique",
            "frozen reference tables in sa/specs/evm.py are trusted (hand-derived from the EVM specification)",
            "the analysed Python subset: no eval/exec/getattr-by-variable/globals() in anchored functions (checked)"],
        "wall_s": wall,
        "violations": len(res.violations),
    }


if __name__ == "__main__":
    sys.exit(main())
