"""Frozen reference tables (trusted base). Hand-derived from the EVM specification (Yellow Paper app. H, EIPs
145/1052/1344/1884/3198/3855/5656) and the SMT-LIB 2.6 Core / Ints theories. One reason per entry where not obvious."""

M = 2 ** 256 - 1

# name -> (items removed, items added)
STACK_ARITY = {
    "STOP": (0, 0), "ADD": (2, 1), "MUL": (2, 1), "SUB": (2, 1), "DIV": (2, 1), "SDIV": (2, 1), "MOD": (2, 1), "SMOD": (2, 1),
    "ADDMOD": (3, 1), "MULMOD": (3, 1), "EXP": (2, 1), "SIGNEXTEND": (2, 1),
    "LT": (2, 1), "GT": (2, 1), "SLT": (2, 1), "SGT": (2, 1), "EQ": (2, 1), "ISZERO": (1, 1), "AND": (2, 1), "OR": (2, 1),
    "XOR": (2, 1), "NOT": (1, 1), "BYTE": (2, 1), "SHL": (2, 1), "SHR": (2, 1), "SAR": (2, 1),
    "SHA3": (2, 1), "KECCAK256": (2, 1),
    "ADDRESS": (0, 1), "BALANCE": (1, 1), "ORIGIN": (0, 1), "CALLER": (0, 1), "CALLVALUE": (0, 1), "CALLDATALOAD": (1, 1),
    "CALLDATASIZE": (0, 1), "CALLDATACOPY": (3, 0), "CODESIZE": (0, 1), "CODECOPY": (3, 0), "GASPRICE": (0, 1),
    "EXTCODESIZE": (1, 1), "EXTCODECOPY": (4, 0), "RETURNDATASIZE": (0, 1), "RETURNDATACOPY": (3, 0), "EXTCODEHASH": (1, 1),
    "BLOCKHASH": (1, 1), "COINBASE": (0, 1), "TIMESTAMP": (0, 1), "NUMBER": (0, 1), "DIFFICULTY": (0, 1), "PREVRANDAO": (0, 1),
    "GASLIMIT": (0, 1), "CHAINID": (0, 1), "SELFBALANCE": (0, 1), "BASEFEE": (0, 1),
    "POP": (1, 0), "MLOAD": (1, 1), "MSTORE": (2, 0), "MSTORE8": (2, 0), "SLOAD": (1, 1), "SSTORE": (2, 0),
    "JUMP": (1, 0), "JUMPI": (2, 0), "PC": (0, 1), "MSIZE": (0, 1), "GAS": (0, 1), "JUMPDEST": (0, 0),
    "MCOPY": (3, 0),     # EIP-5656
    "PUSH0": (0, 1),     # EIP-3855
    "LOG0": (2, 0), "LOG1": (3, 0), "LOG2": (4, 0), "LOG3": (5, 0), "LOG4": (6, 0),
    "CREATE": (3, 1), "CALL": (7, 1), "CALLCODE": (7, 1), "RETURN": (2, 0), "DELEGATECALL": (6, 1), "CREATE2": (4, 1),
    "STATICCALL": (6, 1), "REVERT": (2, 0), "INVALID": (0, 0), "SELFDESTRUCT": (1, 0),
    # solc assembly pseudo items (libevmasm/AssemblyItem.cpp): each pushes one word; ASSIGNIMMUTABLE pops 2
    "PUSH [tag]": (0, 1), "PUSHLIB": (0, 1), "PUSH #[$]": (0, 1), "PUSH [$]": (0, 1), "PUSHDEPLOYADDRESS": (0, 1),
    "PUSH data": (0, 1), "PUSHSIZE": (0, 1), "PUSHIMMUTABLE": (0, 1), "ASSIGNIMMUTABLE": (2, 0),
}

# result does not depend on operand order
COMMUTATIVE = {"ADD", "MUL", "EQ", "AND", "OR", "XOR"}

# access width in bytes of memory operations (KECCAK256: the length operand)
ACCESS_WIDTH = {"mstore": 32, "mload": 32, "mstore8": 1}

# SMT-LIB symbols used by the encoder: name -> (min arity, max arity or None for n-ary, argument-order independent?)
SMTLIB = {
    "=>": (2, None, False),        # right associative implication
    "and": (1, None, True),        # Core: left-assoc, n-ary; most solvers accept unary
    "or": (1, None, True),
    "not": (1, 1, True),           # unary: trivially order independent
    "=": (2, None, True),          # chainable; pairwise equality of all arguments
    "distinct": (2, None, True),   # pairwise
    "<": (2, None, False),         # chainable
    "<=": (2, None, False),
    ">": (2, None, False),
    ">=": (2, None, False),
    "+": (2, None, True),
    "*": (2, None, True),
    "-": (1, None, False),
    "ite": (3, 3, False),
    "xor": (2, None, True),
}
# neutral element of the n-ary connectives (value of the empty application)
NEUTRAL = {"and": True, "or": False}
# absorbing element
ABSORBING = {"and": False, "or": True}
