"""Frozen reference tables (trusted base). Hand-derived from the EVM specification (Yellow Paper app. H, EIPs
145/1052/1344/1884/3198/3855/5656) and the SMT-LIB 2.6 Core / Ints theories. One reason per entry where not obvious."""

M = 2 ** 256 - 1

# name -> (items removed, items added)
STACK_ARITY = {
    "STOP": (0, 0), "ADD": (2, 1), "MUL": (2, 1), "SUB": (2, 1), "DIV": (2, 1), "SDIV": (2, 1), "MOD": (2, 1), "SMOD": (2, 1),
    "ADDMOD": (3, 1), "MULMOD": (3, 1), "EXP": (2, 1), "SIGNEXTEND": (2, 1),
    "LT": (2, 1), "GT": (2, 1), "SLT": (2, 1), "SGT": (2, 1), "EQ": (2, 1), "ISZERO": (1, 1), "AND": (2, 1), "OR": (2, 1),
    "XOR": (2, 1), "NOT": (1, 1), "BYTE": (2, 1), "SHL": (2, 1), "SHR": (2, 1), "SAR": (2, 1),
    "SHA3": (2, 1), "KECCAK256": (2, 1),
    "ADDRESS": (0, 1), "BALANCE": (1, 1), "ORIGIN": (0, 1), "CALLER": (0, 1), "CALLVALUE": (0, 1), "CALLDATALOAD": (1, 1),
    "CALLDATASIZE": (0, 1), "CALLDATACOPY": (3, 0), "CODESIZE": (0, 1), "CODECOPY": (3, 0), "GASPRICE": (0, 1),
    "EXTCODESIZE": (1, 1), "EXTCODECOPY": (4, 0), "RETURNDATASIZE": (0, 1), "RETURNDATACOPY": (3, 0), "EXTCODEHASH": (1, 1),
    "BLOCKHASH": (1, 1), "COINBASE": (0, 1), "TIMESTAMP": (0, 1), "NUMBER": (0, 1), "DIFFICULTY": (0, 1), "PREVRANDAO": (0, 1),
    "GASLIMIT": (0, 1), "CHAINID": (0, 1), "SELFBALANCE": (0, 1), "BASEFEE": (0, 1),
    "POP": (1, 0), "MLOAD": (1, 1), "MSTORE": (2, 0), "MSTORE8": (2, 0), "SLOAD": (1, 1), "SSTORE": (2, 0),
    "JUMP": (1, 0), "JUMPI": (2, 0), "PC": (0, 1), "MSIZE": (0, 1), "GAS": (0, 1), "JUMPDEST": (0, 0),
    "MCOPY": (3, 0),     # EIP-5656
    "PUSH0": (0, 1),     # EIP-3855
    "LOG0": (2, 0), "LOG1": (3, 0), "LOG2": (4, 0), "LOG3": (5, 0), "LOG4": (6, 0),
    "CREATE": (3, 1), "CALL": (7, 1), "CALLCODE": (7, 1), "RETURN": (2, 0), "DELEGATECALL": (6, 1), "CREATE2": (4, 1),
    "STATICCALL": (6, 1), "REVERT": (2, 0), "INVALID": (0, 0), "SELFDESTRUCT": (1, 0),
    # solc assembly pseudo items (libevmasm/AssemblyItem.cpp): each pushes one word; ASSIGNIMMUTABLE pops 2
    "PUSH [tag]": (0, 1), "PUSHLIB": (0, 1), "PUSH #[$]": (0, 1), "PUSH [$]": (0, 1), "PUSHDEPLOYADDRESS": (0, 1),
    "PUSH data": (0, 1), "PUSHSIZE": (0, 1), "PUSHIMMUTABLE": (0, 1), "ASSIGNIMMUTABLE": (2, 0),
}

# result does not depend on operand order
COMMUTATIVE = {"ADD", "MUL", "EQ", "AND", "OR", "XOR"}

# access width in bytes of memory operations (KECCAK256: the length operand)
ACCESS_WIDTH = {"mstore": 32, "mload": 32, "mstore8": 1}

# SMT-LIB symbols used by the encoder: name -> (min arity, max arity or None for n-ary, argument-order independent?)
SMTLIB = {
    "=>": (2, None, False),        # right associative implication
    "and": (1, None, True),        # Core: left-assoc, n-ary; most solvers accept unary
    "or": (1, None, True),
    "not": (1, 1, True),           # unary: trivially order independent
    "=": (2, None, True),          # chainable; pairwise equality of all arguments
    "distinct": (2, None, True),   # pairwise
    "<": (2, None, False),         # chainable
    "<=": (2, None, False),
    ">": (2, None, False),
    ">=": (2, None, False),
    "+": (2, None, True),
    "*": (2, None, True),
    "-": (1, None, False),
    "ite": (3, 3, False),
    "xor": (2, None, True),
}
# neutral element of the n-ary connectives (value of the empty application)
NEUTRAL = {"and": True, "or": False}
# absorbing element
ABSORBING = {"and": False, "or": True}


# ---------------------------------------------------------------------------------------------------------------
# Reference semantics on 256-bit words (Yellow Paper appendix H): a = top of stack, b = second item.
W = 2 ** 256


def _s(x):
    return x - W if x >= W // 2 else x


def evm_op(name, a, b=None, c=None):
    if name == "ADD":
        return (a + b) % W
    if name == "SUB":
        return (a - b) % W
    if name == "MUL":
        return (a * b) % W
    if name == "DIV":
        return a // b if b else 0
    if name == "SDIV":
        if b == 0:
            return 0
        sa_, sb = _s(a), _s(b)
        q = abs(sa_) // abs(sb)
        return (q if (sa_ < 0) == (sb < 0) else -q) % W
    if name == "MOD":
        return a % b if b else 0
    if name == "SMOD":
        if b == 0:
            return 0
        sa_, sb = _s(a), _s(b)
        r = abs(sa_) % abs(sb)
        return (r if sa_ >= 0 else -r) % W
    if name == "EXP":
        return pow(a, b, W)
    if name == "AND":
        return a & b
    if name == "OR":
        return a | b
    if name == "XOR":
        return a ^ b
    if name == "NOT":
        return a ^ M
    if name == "ISZERO":
        return 1 if a == 0 else 0
    if name == "EQ":
        return 1 if a == b else 0
    if name == "LT":
        return 1 if a < b else 0
    if name == "GT":
        return 1 if a > b else 0
    if name == "SLT":
        return 1 if _s(a) < _s(b) else 0
    if name == "SGT":
        return 1 if _s(a) > _s(b) else 0
    if name == "SHL":      # a = shift, b = value
        return (b << a) % W if a < 256 else 0
    if name == "SHR":
        return b >> a if a < 256 else 0
    if name == "SAR":
        return (_s(b) >> min(a, 255)) % W
    if name == "BYTE":     # a = index, b = word
        return (b >> (8 * (31 - a))) & 0xFF if a < 32 else 0
    if name == "SIGNEXTEND":   # a = byte index, b = value
        if a >= 31:
            return b
        bit = 8 * a + 7
        mask = (1 << (bit + 1)) - 1
        return (b | (W - 1 - mask)) if (b >> bit) & 1 else (b & mask)
    if name == "ADDMOD":
        return (a + b) % c if c else 0
    if name == "MULMOD":
        return (a * b) % c if c else 0
    raise KeyError(name)


# internal operator text of the constant folder -> opcode
FOLD_OPERATOR = {"+": "ADD", "-": "SUB", "*": "MUL", "/": "DIV", "^": "EXP", "and": "AND", "or": "OR", "xor": "XOR", "%": "MOD",
                 "eq": "EQ", "gt": "GT", "lt": "LT", "shr": "SHR", "shl": "SHL", "sar": "SAR"}

# Witness values used to *refute* candidate identities (a counterexample is definitive) and to cross-check the hand table.
WITNESS = [0, 1, 2, 3, 5, 31, 32, 255, 256, 257, 2 ** 255 - 1, 2 ** 255, 2 ** 255 + 1, M - 1, M, 0x1234567890ABCDEF, 2 ** 128, 2 ** 200 + 12345]

# The complete set of valid rows of the rule pattern language (DESIGN.md appendix A):
#   operands: 0, 1, M, X (a symbol), Y (another symbol); result: a constant in {0,1,M} or the name of an operand symbol.
# key (opcode, a, b) -> result, a/b/result in {0,1,"M","X","Y"}; only rows with at least one symbolic operand are listed.
IDENTITIES = {}


def _row(op, a, b, r):
    IDENTITIES[(op, a, b)] = r


for _op in ("ADD", "OR", "XOR"):
    _row(_op, 0, "X", "X"); _row(_op, "X", 0, "X")
_row("SUB", "X", 0, "X"); _row("SUB", "X", "X", 0)
for _c in (0,):
    _row("MUL", _c, "X", 0); _row("MUL", "X", _c, 0)
_row("MUL", 1, "X", "X"); _row("MUL", "X", 1, "X")
for _op in ("DIV", "SDIV"):
    _row(_op, "X", 1, "X"); _row(_op, "X", 0, 0); _row(_op, 0, "X", 0)
for _op in ("MOD", "SMOD"):
    _row(_op, "X", 1, 0); _row(_op, "X", 0, 0); _row(_op, 0, "X", 0); _row(_op, "X", "X", 0)
_row("SMOD", "X", "M", 0)
_row("SDIV", "X", "M", None)   # x / -1 = -x : not expressible, placeholder removed below
del IDENTITIES[("SDIV", "X", "M")]
_row("EXP", "X", 0, 1); _row("EXP", "X", 1, "X"); _row("EXP", 1, "X", 1)
_row("AND", 0, "X", 0); _row("AND", "X", 0, 0); _row("AND", "M", "X", "X"); _row("AND", "X", "M", "X"); _row("AND", "X", "X", "X")
_row("OR", "M", "X", "M"); _row("OR", "X", "M", "M"); _row("OR", "X", "X", "X")
_row("XOR", "X", "X", 0)
_row("EQ", "X", "X", 1)
_row("LT", "X", 0, 0); _row("LT", "M", "X", 0); _row("LT", "X", "X", 0)
_row("GT", 0, "X", 0); _row("GT", "X", "M", 0); _row("GT", "X", "X", 0)
_row("SLT", "X", "X", 0); _row("SGT", "X", "X", 0)
for _op in ("SHL", "SHR", "SAR"):
    _row(_op, 0, "X", "X"); _row(_op, "X", 0, 0)
_row("SAR", "X", "M", "M")
_row("BYTE", "X", 0, 0)
_row("SIGNEXTEND", "X", 0, 0)
# rows found by the witness cross-check and then proved by hand:
_row("SHL", "M", "X", 0); _row("SHR", "M", "X", 0)      # shift amount >= 256
_row("SHR", "X", "X", 0)                                  # x < 2**x for x < 256, and shifts >= 256 give 0
_row("BYTE", "M", "X", 0)                                 # index >= 32
_row("SIGNEXTEND", "M", "X", "X")                         # byte index >= 31: unchanged
_row("SIGNEXTEND", "X", 1, 1)                             # bit 8a+7 of 1 is 0 for every a
_row("SIGNEXTEND", "X", "M", "M")                         # all ones stays all ones
_row("SIGNEXTEND", "X", "X", "X")                         # x < 31 has no bit at position 8x+7 >= 7... (x < 128)


def operand_value(t, x, y):
    return {"X": x, "Y": y, "M": M}.get(t, t)


def refute(op, a, b, r):
    """A witness (x, y) with op(a,b) != r, or None if the candidate identity holds on every witness."""
    for x in WITNESS:
        for y in WITNESS:
            if evm_op(op, operand_value(a, x, y), operand_value(b, x, y)) != operand_value(r, x, y):
                return (x, y)
    return None


def identity_valid(op, a, b, r):
    """Valid iff listed in the complete table; the witness set must agree (cross-check of the trusted base)."""
    if not any(isinstance(t, str) and t in ("X", "Y") for t in (a, b)):
        # ground instance: just compute
        return evm_op(op, operand_value(a, 0, 0), operand_value(b, 0, 0)) == operand_value(r, 0, 0), None
    listed = IDENTITIES.get((op, a, b)) == r and (op, a, b) in IDENTITIES
    cex = refute(op, a, b, r)
    if listed and cex is not None:
        raise AssertionError(f"reference table lists an identity refuted by witness {cex}: {op}({a},{b}) = {r}")
    return listed, cex


# ---------------------------------------------------------------------------------------------------------------
# Static gas classes of the Yellow Paper (appendix G/H, Berlin/London/Shanghai values) for the opcodes whose price does not
# depend on run-time state.  Only used as "must be priced > 0 and in this class"; dynamic parts (memory expansion, cold/warm,
# SSTORE refunds, LOG data, EXP exponent bytes, copy lengths) are outside this table.
GAS_CLASS = {
    "zero": ("STOP", "RETURN", "REVERT"),
    "base": ("ADDRESS", "ORIGIN", "CALLER", "CALLVALUE", "CALLDATASIZE", "CODESIZE", "GASPRICE", "COINBASE", "TIMESTAMP", "NUMBER",
             "DIFFICULTY", "PREVRANDAO", "GASLIMIT", "CHAINID", "RETURNDATASIZE", "POP", "PC", "MSIZE", "GAS", "BASEFEE", "PUSH0"),
    "verylow": ("ADD", "SUB", "NOT", "LT", "GT", "SLT", "SGT", "EQ", "ISZERO", "AND", "OR", "XOR", "BYTE", "SHL", "SHR", "SAR",
                "CALLDATALOAD", "MLOAD", "MSTORE", "MSTORE8", "PUSH", "DUP3", "SWAP2"),
    "low": ("MUL", "DIV", "SDIV", "MOD", "SMOD", "SIGNEXTEND", "SELFBALANCE"),
    "mid": ("ADDMOD", "MULMOD", "JUMP"),
    "high": ("JUMPI",),
}
GAS_VALUE = {"zero": 0, "base": 2, "verylow": 3, "low": 5, "mid": 8, "high": 10}


# Byte size of the solc assembly items that are not plain opcodes (libevmasm AssemblyItem::bytesRequired with 2-byte addresses):
# PushTag / PushSub / PushData = 1 + address length; PushSubSize / PushProgramSize = 1 + 4; PushLibraryAddress /
# PushDeployTimeAddress = 1 + 20; PushImmutable = 1 + 32; a tag itself emits the JUMPDEST that is listed separately.
ASM_ITEM_SIZE = {"PUSH [tag]": 3, "PUSH data": 3, "PUSH [$]": 3, "PUSH #[$]": 5, "PUSHSIZE": 5, "PUSHLIB": 21, "PUSHDEPLOYADDRESS": 21, "PUSHIMMUTABLE": 33,
                 "PUSH0": 1, "tag": 0}


# ---- effects (for C01.e) ---------------------------------------------------------------------------------------------------
# Opcodes whose execution is externally visible or changes state other than stack / the memory-storage model of the specification:
# they can neither be dropped when their result is unused nor be moved.  (Yellow paper, appendix H; EIP-1153, EIP-5656, EIP-6780.)
EXTERNALLY_VISIBLE = {
    "CALL", "CALLCODE", "DELEGATECALL", "STATICCALL", "CREATE", "CREATE2", "LOG0", "LOG1", "LOG2", "LOG3", "LOG4",
    "CALLDATACOPY", "CODECOPY", "EXTCODECOPY", "RETURNDATACOPY", "MCOPY", "TSTORE", "SELFDESTRUCT", "SUICIDE",
    "RETURN", "REVERT", "STOP", "INVALID", "ASSERTFAIL", "JUMP", "JUMPI",
}
# Opcodes whose *result* depends on where in the block they execute (not on stack, memory bytes or storage): gas left, program counter,
# number of memory words touched so far.
POSITION_DEPENDENT = {"GAS", "PC", "MSIZE"}
