"""Mutant / twin catalogue.  Each entry: prop, name, file, old, new, and either expect (substring of the finding
key that must be reported) or twin=True (must stay silent).  `edits` may list several {file, old, new}."""

G = "gasol_asm.py"

MUTANTS = [
    # ---------------- C01 ----------------
    dict(prop="C01", name="drop-fallback-run", file=G, nth=1,
         old="            optimized_block = old_block\n", new="            pass\n", expect="C01.a/optimize_asm_contract"),
    dict(prop="C01", name="drop-fallback-init", file=G, nth=0,
         old="            optimized_block = old_block\n", new="            pass\n", expect="C01.a/optimize_asm_contract"),
    dict(prop="C01", name="append-before-compare", file=G,
         old="            eq, reason = compare_asm_block_asm_format(old_block, optimized_block, params)\n",
         new="            run_code_blocks.append(optimized_block)\n            eq, reason = compare_asm_block_asm_format(old_block, optimized_block, params)\n",
         expect="C01.a/optimize_asm_contract"),
    dict(prop="C01", name="return-only-final-comparison", file=G,
         old="    return final_comparison and (initial_instructions_new == initial_instructions_old) and \\\n           final_instructions_new == final_instructions_old, reason",
         new="    return final_comparison, reason", expect="C01.a/compare_asm_block_asm_format:return-missing"),
    dict(prop="C01", name="isolated-drop-fallback", file=G,
         old="            asm_block = old_block\n", new="            pass\n", expect="C01.a/optimize_isolated_asm_block"),
    dict(prop="C01", name="verify-skip-keyset", file="verification/sfs_verify.py",
         old="    if set(old_block_ids) != set(new_block_ids):\n        return False, \"Different number of subblocks\"",
         new="    if False:\n        return False, \"Different number of subblocks\"", expect="keyset-not-compared"),
    dict(prop="C01", name="verify-ignore-are-equals", file="verification/sfs_verify.py",
         old="        if not eq:\n            return False, reason\n    return True, \"\"",
         new="        if not eq:\n            pass\n    return True, \"\"", expect="unequal-subblock-accepted"),
    dict(prop="C01", name="compare-old-with-old", file=G,
         old="    new_sfs_information, _ = compute_original_sfs_with_simplifications(new_block, params)",
         new="    new_sfs_information, _ = compute_original_sfs_with_simplifications(old_block, params)",
         expect="return-missing:sfs-verification"),
    dict(prop="C01", name="twin-rename-eq", twin=True, edits=[
        dict(file=G, old="            eq, reason = compare_asm_block_asm_format(old_block, optimized_block, params)\n            print(\"EQ\", eq, reason)\n\n            if not eq:",
             new="            same, reason = compare_asm_block_asm_format(old_block, optimized_block, params)\n            print(\"EQ\", same, reason)\n\n            if not same:")]),
    dict(prop="C01", name="twin-if-eq-else", twin=True, file=G,
         old="        if not eq:\n            print(\"Comparison failed, so initial block is kept\")\n            print(\"\\t[REASON]: \" + reason)\n            print(old_block.to_plain())\n            print(asm_block.to_plain())\n            print(\"\")\n            asm_block = old_block\n",
         new="        if eq:\n            pass\n        else:\n            asm_block = old_block\n"),
]
