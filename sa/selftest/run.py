"""Self-test of the checker: mutants (one instance broken) must be reported with the mutated construct named;
refactor twins (behaviour-preserving edits) must stay silent.  Mutants are applied as in-memory overlays of the
current source under `root` (nothing is written anywhere); each variant must still byte-compile."""
import os
from concurrent.futures import ProcessPoolExecutor


def _apply(src, m):
    old, new = m["old"], m["new"]
    cnt = src.count(old)
    if cnt == 0:
        return None
    if cnt > 1 and m.get("near_line"):
        # a diff hunk whose text occurs more than once: take the occurrence nearest to the hunk's line number
        best, idx = None, -1
        while True:
            idx = src.find(old, idx + 1)
            if idx < 0:
                break
            ln = src.count("\n", 0, idx) + 1
            if best is None or abs(ln - m["near_line"]) < abs(best[0] - m["near_line"]):
                best = (ln, idx)
        return src[:best[1]] + new + src[best[1] + len(old):]
    nth = m.get("nth")
    if nth is None:
        if cnt != 1 and not m.get("all"):
            return None
        return src.replace(old, new)
    if nth >= cnt:
        return None
    idx = -1
    for _ in range(nth + 1):
        idx = src.find(old, idx + 1)
    return src[:idx] + new + src[idx + len(old):]


def _patch_edits(patch_path):
    """A unified diff as a list of {file, old, new} edits (one per hunk; located by text, not by line number)."""
    edits, cur_file, old, new = [], None, None, None
    line_no = 0
    last_kind = " "
    import re

    def flush():
        if cur_file and old is not None and (old or new):
            edits.append({"file": cur_file, "old": "".join(old), "new": "".join(new), "near_line": line_no})
    with open(patch_path, encoding="utf-8") as f:
        for line in f:
            if line.startswith("+++ "):
                flush()
                old = new = None
                cur_file = line[4:].strip()
                cur_file = cur_file[2:] if cur_file.startswith("b/") else cur_file
            elif line.startswith(("--- ", "diff ", "index ")):
                continue
            elif line.startswith("@@"):
                flush()
                old, new = [], []
                mm = re.match(r"@@ -(\d+)", line)
                line_no = int(mm.group(1)) if mm else 0
            elif old is not None:
                if line.startswith("\\ No newline"):
                    # the previous line is the file's last line and has no newline
                    if last_kind in ("-", " ") and old:
                        old[-1] = old[-1].rstrip("\n")
                    if last_kind in ("+", " ") and new:
                        new[-1] = new[-1].rstrip("\n")
                    continue
                last_kind = line[:1]
                if line.startswith("-"):
                    old.append(line[1:])
                elif line.startswith("+"):
                    new.append(line[1:])
                elif line.startswith(" ") or line == "\n":
                    old.append(line[1:] if line.startswith(" ") else line)
                    new.append(line[1:] if line.startswith(" ") else line)
    flush()
    return edits


def _reformat_overlay(root):
    """Every analysed source file re-rendered by ast.unparse: comments dropped, layout and quoting normalised.
    A check that keys anything on text position or formatting raises a false alarm on this twin."""
    import ast
    from ..core.loader import EXCLUDED_TOP
    overlay = {}
    for dirpath, dirnames, filenames in os.walk(root):
        rel_dir = os.path.relpath(dirpath, root)
        parts = [] if rel_dir == "." else rel_dir.split(os.sep)
        if parts and parts[0] in EXCLUDED_TOP:
            dirnames[:] = []
            continue
        for fn in filenames:
            if fn.endswith(".py"):
                path = os.path.join(dirpath, fn)
                try:
                    with open(path, encoding="utf-8") as f:
                        src = f.read()
                    import warnings
                    with warnings.catch_warnings():
                        warnings.simplefilter("ignore")
                        overlay[os.path.relpath(path, root)] = ast.unparse(ast.parse(src)) + "\n"
                except Exception:
                    pass
    return overlay


def _one(args):
    prop, root, m = args
    from ..runner import analyse, decide
    overlay = {}
    if m.get("reformat_all"):
        import warnings
        warnings.simplefilter("ignore")
        res = analyse(prop, root, tier="quick", overlay=_reformat_overlay(root))
        if res.error:
            return (m["name"], "twin-noisy", "ANALYSIS-ERROR " + res.error[:300])
        decide(res)
        if res.error or res.rule_errors:
            return (m["name"], "twin-noisy", "ANALYSIS-ERROR " + (res.error or str(res.rule_errors))[:300])
        keys = [f.key for f in res.violations]
        return (m["name"], "twin-silent", "") if not keys else (m["name"], "twin-noisy", "; ".join(keys[:4]))
    if m.get("patch"):
        ppath = os.path.join(os.path.dirname(os.path.dirname(os.path.dirname(os.path.abspath(__file__)))), m["patch"])
        try:
            edits = _patch_edits(ppath)
        except OSError:
            return (m["name"], "stale", "patch file missing")
    else:
        edits = m.get("edits") or [m]
    edits = list(edits) + list(m.get("also") or [])      # `also`: further {file, old, new} edits applied on top of a patch
    for e in edits:
        path = os.path.join(root, e["file"])
        try:
            src = overlay.get(e["file"])
            if src is None:
                with open(path, encoding="utf-8") as f:
                    src = f.read()
        except OSError:
            if e.get("old") == "" and e.get("new"):
                overlay[e["file"]] = e["new"]       # a file the patch creates
                continue
            return (m["name"], "stale", "file missing")
        new_src = _apply(src, e)
        if new_src is None:
            return (m["name"], "stale", "anchor text not found exactly once")
        overlay[e["file"]] = new_src
    for rel, new_src in overlay.items():
        try:
            compile(new_src, os.path.join(root, rel), "exec", dont_inherit=True)
        except SyntaxError as ex:
            return (m["name"], "broken", f"variant does not compile: {ex}")
    import warnings
    warnings.simplefilter("ignore")
    res = analyse(prop, root, tier="quick", overlay=overlay)
    if res.error:
        if m.get("twin"):
            return (m["name"], "twin-noisy", "ANALYSIS-ERROR " + res.error[:300])
        if m.get("expect_error") and m["expect_error"] in res.error:
            return (m["name"], "detected", "as analysis error: " + res.error[:160])
        return (m["name"], "missed", "ANALYSIS-ERROR instead of a finding: " + res.error[:300])
    decide(res)
    if res.error:
        if m.get("twin"):
            return (m["name"], "twin-noisy", "ANALYSIS-ERROR " + res.error[:300])
        if m.get("expect_error") and m["expect_error"] in res.error:
            return (m["name"], "detected", "as analysis error: " + res.error[:160])
        return (m["name"], "missed", "ANALYSIS-ERROR instead of a finding: " + res.error[:300])
    keys = [f.key for f in res.violations]
    if m.get("twin"):
        if res.rule_errors:
            return (m["name"], "twin-noisy", "ANALYSIS-ERROR " + str(res.rule_errors)[:300])
        return (m["name"], "twin-silent", "") if not keys else (m["name"], "twin-noisy", "; ".join(keys[:4]))
    hit = [k for k in keys if m["expect"] in k]
    if hit:
        return (m["name"], "detected", hit[0])
    return (m["name"], "missed", "violations reported: " + ("; ".join(keys[:4]) or "none"))


def run_selftest(prop, root, jobs=16):
    from .catalog import MUTANTS
    ms = [m for m in MUTANTS if m["prop"] == prop] + [dict(prop=prop, name="twin-whole-tree-reformatted", twin=True, reformat_all=True)]
    out = {"applied": 0, "detected": 0, "twins": 0, "silent_twins": 0, "stale": 0, "failures": [], "mutants": []}
    if not ms:
        return out
    with ProcessPoolExecutor(max_workers=min(jobs, len(ms))) as ex:
        results = list(ex.map(_one, [(prop, root, m) for m in ms]))
    for name, status, text in results:
        out["mutants"].append({"name": name, "status": status, "text": text})
        if status == "stale":
            out["stale"] += 1
        elif status == "detected":
            out["applied"] += 1
            out["detected"] += 1
        elif status in ("missed", "broken"):
            out["applied"] += 1
            out["failures"].append(f"{name}: {status}: {text}")
        elif status == "twin-silent":
            out["twins"] += 1
            out["silent_twins"] += 1
        elif status == "twin-noisy":
            out["twins"] += 1
            out["failures"].append(f"{name}: twin raised an alarm: {text}")
    return out
