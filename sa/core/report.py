"""Findings, rule outputs, known-findings file, evidence writer."""
import json
import os
import re
import time

VERIF = os.path.dirname(os.path.dirname(os.path.dirname(os.path.abspath(__file__))))
KNOWN_FILE = os.path.join(VERIF, "KNOWN_FINDINGS.txt")


class Finding:
    def __init__(self, key, message, where="", detail=None):
        self.key = key            # rule/construct — never a line number
        self.message = message
        self.where = where        # file:line function (diagnostic only)
        self.detail = detail or {}

    def to_json(self):
        return {"key": self.key, "message": self.message, "where": self.where, "detail": self.detail}


class RuleOut:
    """What one rule analysed and concluded."""

    def __init__(self, rule_id, title):
        self.rule_id = rule_id
        self.title = title
        self.findings = []
        self.instances = 0        # rule instances (obligations) analysed
        self.satisfied = 0
        self.samples = []
        self.info = {}            # informational / triaged entries, never alarms
        self.unproven = []        # triaged UNPROVEN constructs (reported, guarded against growth)
        self._seen = set()

    def ok(self, sample=None, n=1):
        self.instances += n
        self.satisfied += n
        if sample is not None and len(self.samples) < 6:
            self.samples.append(sample)

    def bad(self, key, message, where="", detail=None, n=1):
        self.instances += n
        full = re.sub(r"\s+", "", f"{self.rule_id}/{key}")
        if full in self._seen:
            for f in self.findings:
                if f.key == full:
                    f.detail.setdefault("also", []).append(where or message)
            return
        self._seen.add(full)
        self.findings.append(Finding(full, message, where, detail))


def where(finfo_or_mod, node=None):
    mod = getattr(finfo_or_mod, "module", finfo_or_mod)
    fn = getattr(finfo_or_mod, "qual", "")
    line = getattr(node, "lineno", None) if node is not None else getattr(getattr(finfo_or_mod, "node", None), "lineno", 1)
    return f"{mod.rel}:{line} {fn}".strip()


def load_known(path=KNOWN_FILE):
    """Returns (findings {(prop,key): text}, fixed [(prop, text)])."""
    known, fixed = {}, []
    if not os.path.exists(path):
        return known, fixed
    with open(path, encoding="utf-8") as f:
        for line in f:
            line = line.strip()
            if not line or line.startswith("#"):
                continue
            m = re.match(r"finding:\s+property=(C\d+)\s+key=(\S+)\s+::\s+(.*)$", line)
            if m:
                known[(m.group(1), m.group(2))] = m.group(3)
                continue
            m = re.match(r"fixed:\s+property=(C\d+)\s+(.*)$", line)
            if m:
                fixed.append((m.group(1), m.group(2)))
    return known, fixed


def write_json(path, obj):
    os.makedirs(os.path.dirname(path), exist_ok=True)
    tmp = path + ".tmp"
    with open(tmp, "w", encoding="utf-8") as f:
        json.dump(obj, f, indent=1, sort_keys=False, default=str)
        f.write("\n")
    os.replace(tmp, path)


class Timer:
    def __init__(self):
        self.t0 = time.time()

    def s(self):
        return round(time.time() - self.t0, 3)
