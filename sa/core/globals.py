"""E4 — stale-global analysis: which module globals can be read (or mutated in place) by an entry point
before that entry point (or a callee) has assigned them on every path.

Per function f, to a fixpoint over the precisely resolved call graph:
    MustAssign(f)  globals (module, name) re-bound on every path from entry to a normal return
    UpExposed(f)   globals that may be read / mutated in place before being re-bound in f or a callee
Intra-procedurally this is a forward must-dataflow (definitely-assigned set) over the statement CFG.
"""
import ast

from .flow import node_exprs
from .absint import MUTATORS
from .loader import own_nodes


class GlobalFacts:
    def __init__(self, ctx, modules):
        self.ctx = ctx
        self.modules = list(modules)
        self.mod_globals = {m: self._module_globals(m) for m in self.modules}
        self._events = {}
        self._locals = {}
        self.must = {}
        self.exposed = {}
        self.exposed_at = {}     # (fqual, global) -> ast node of a witness read
        self.writers = {}        # global -> set of function quals that re-bind it
        self.mutators = {}       # global -> set of function quals that mutate it in place
        self.readers = {}        # global -> list of (finfo, Name node)

    # ---------------------------------------------------------------- module globals
    def _module_globals(self, modname):
        mod = self.ctx.p.module(modname)
        names = set()
        for st in mod.tree.body:
            if isinstance(st, (ast.Assign, ast.AnnAssign, ast.AugAssign)):
                tgts = st.targets if isinstance(st, ast.Assign) else [st.target]
                for t in tgts:
                    for n in ast.walk(t):
                        if isinstance(n, ast.Name):
                            names.add(n.id)
        for n in ast.walk(mod.tree):
            if isinstance(n, ast.Global):
                names |= set(n.names)
        # functions / classes / imports are bindings too, but never "state"
        return names

    def func_locals(self, f):
        if f.qual in self._locals:
            return self._locals[f.qual]
        declared = set()
        stored = set(f.params)
        for n in own_nodes(f.node):
            if isinstance(n, ast.Global):
                declared |= set(n.names)
            elif isinstance(n, ast.Name) and isinstance(n.ctx, (ast.Store, ast.Del)):
                stored.add(n.id)
            elif isinstance(n, (ast.FunctionDef, ast.AsyncFunctionDef, ast.ClassDef)):
                stored.add(n.name)
            elif isinstance(n, ast.ExceptHandler) and n.name:
                stored.add(n.name)
            elif isinstance(n, (ast.Import, ast.ImportFrom)):
                for a in n.names:
                    stored.add((a.asname or a.name).split(".")[0])
        # comprehension / lambda variables are handled by the scoped walker
        res = (stored - declared, declared)
        self._locals[f.qual] = res
        return res

    # ---------------------------------------------------------------- events per CFG node
    def node_events(self, f, cfg_node, evkey=None):
        key = (evkey or f.qual, cfg_node.id)
        if key in self._events:
            return self._events[key]
        locs, declared = self.func_locals(f)
        mg = self.mod_globals.get(f.module.name, set())
        modname = f.module.name
        events = []

        def is_global(name, shadow):
            return name not in shadow and name not in locs and name in mg

        def visit(n, shadow):
            if isinstance(n, ast.Lambda):
                sh = shadow | {a.arg for a in n.args.args + n.args.kwonlyargs + n.args.posonlyargs} | \
                    ({n.args.vararg.arg} if n.args.vararg else set()) | ({n.args.kwarg.arg} if n.args.kwarg else set())
                visit(n.body, sh)
                return
            if isinstance(n, (ast.ListComp, ast.SetComp, ast.GeneratorExp, ast.DictComp)):
                sh = set(shadow)
                for g in n.generators:
                    visit(g.iter, sh)
                    sh |= {x.id for x in ast.walk(g.target) if isinstance(x, ast.Name)}
                    for c in g.ifs:
                        visit(c, sh)
                if isinstance(n, ast.DictComp):
                    visit(n.key, sh)
                    visit(n.value, sh)
                else:
                    visit(n.elt, sh)
                return
            if isinstance(n, (ast.FunctionDef, ast.AsyncFunctionDef, ast.ClassDef)):
                return
            if isinstance(n, ast.Assign):
                visit(n.value, shadow)
                for t in n.targets:
                    visit_target(t, shadow)
                return
            if isinstance(n, ast.AugAssign):
                visit(n.value, shadow)
                if isinstance(n.target, ast.Name):
                    if is_global(n.target.id, shadow) or n.target.id in declared:
                        events.append(("read", (modname, n.target.id), n.target))
                        events.append(("write", (modname, n.target.id), n.target))
                else:
                    visit_target(n.target, shadow, aug=True)
                return
            if isinstance(n, ast.AnnAssign):
                if n.value is not None:
                    visit(n.value, shadow)
                    visit_target(n.target, shadow)
                return
            if isinstance(n, ast.Delete):
                for t in n.targets:
                    visit_target(t, shadow)
                return
            if isinstance(n, ast.Call):
                visit(n.func, shadow)
                for a in n.args:
                    visit(a, shadow)
                for k in n.keywords:
                    visit(k.value, shadow)
                if isinstance(n.func, ast.Attribute) and n.func.attr in MUTATORS:
                    base = n.func.value
                    while isinstance(base, (ast.Subscript, ast.Attribute)):
                        base = base.value
                    if isinstance(base, ast.Name) and (is_global(base.id, shadow) or base.id in declared):
                        events.append(("mut", (modname, base.id), n))
                events.append(("call", n, n))
                return
            if isinstance(n, ast.Name):
                if isinstance(n.ctx, ast.Load) and (is_global(n.id, shadow) or (n.id in declared and n.id not in shadow)):
                    events.append(("read", (modname, n.id), n))
                return
            if isinstance(n, ast.Attribute):
                # module attribute of another analysed module: alias.NAME
                kind, q = self.ctx.r.resolve_attr_chain(modname, n.value) if isinstance(n.value, ast.Attribute) else \
                    (self.ctx.r.resolve_name(modname, n.value.id) if isinstance(n.value, ast.Name) and n.value.id not in shadow
                     and n.value.id not in locs else (None, None))
                if kind == "module" and q in self.mod_globals and n.attr in self.mod_globals[q]:
                    if isinstance(n.ctx, ast.Load):
                        events.append(("read", (q, n.attr), n))
                    return
                visit(n.value, shadow)
                return
            for c in ast.iter_child_nodes(n):
                visit(c, shadow)

        def visit_target(t, shadow, aug=False):
            if isinstance(t, ast.Name):
                if t.id in declared and t.id not in shadow:
                    events.append(("write", (modname, t.id), t))
                return
            if isinstance(t, (ast.Tuple, ast.List)):
                for e in t.elts:
                    visit_target(e, shadow)
                return
            if isinstance(t, ast.Starred):
                visit_target(t.value, shadow)
                return
            if isinstance(t, (ast.Subscript, ast.Attribute)):
                # evaluate the container expression (reads), then it is mutated
                visit(t.value, shadow)
                if isinstance(t, ast.Subscript):
                    visit(t.slice, shadow)
                base = t.value
                while isinstance(base, (ast.Subscript, ast.Attribute)):
                    base = base.value
                if isinstance(base, ast.Name) and (is_global(base.id, shadow) or base.id in declared):
                    events.append(("mut", (modname, base.id), t))
                # module attribute store: alias.NAME = ...
                if isinstance(t, ast.Attribute) and isinstance(t.value, ast.Name):
                    kind, q = self.ctx.r.resolve_name(modname, t.value.id)
                    if kind == "module" and q in self.mod_globals:
                        events.append(("write", (q, t.attr), t))

        if cfg_node.kind == "iter":
            visit(cfg_node.ast.iter, set())
            visit_target(cfg_node.ast.target, set())
        elif cfg_node.kind == "handler":
            if cfg_node.ast.type is not None:
                visit(cfg_node.ast.type, set())
        elif cfg_node.ast is not None:
            for e in node_exprs(cfg_node):
                visit(e, set())
        self._events[key] = events
        return events

    # ---------------------------------------------------------------- interprocedural fixpoint
    def collect(self, funcs):
        """Only gather writers / mutators / readers of every tracked global (no fixpoint)."""
        for q, f in funcs.items():
            if f.module.name not in self.mod_globals:
                continue
            cfg = self.ctx.cfg(f)
            for n in cfg.nodes:
                for kind, what, node in self.node_events(f, n):
                    if kind == "write":
                        self.writers.setdefault(what, set()).add(q)
                    elif kind == "mut":
                        self.mutators.setdefault(what, set()).add(q)
                    elif kind == "read":
                        self.readers.setdefault(what, []).append((f, node))

    def solve(self, funcs):
        """funcs: dict qual -> FuncInfo (the reachable set)."""
        universe = {(m, g) for m in self.modules for g in self.mod_globals[m]}
        self.must = {q: set(universe) for q in funcs}
        self.exposed = {q: set() for q in funcs}
        for q, f in funcs.items():
            cfg = self.ctx.cfg(f)
            for n in cfg.nodes:
                for kind, what, node in self.node_events(f, n):
                    if kind == "write":
                        self.writers.setdefault(what, set()).add(q)
                    elif kind == "mut":
                        self.mutators.setdefault(what, set()).add(q)
                    elif kind == "read":
                        self.readers.setdefault(what, []).append((f, node))
        changed = True
        rounds = 0
        while changed:
            rounds += 1
            if rounds > 60:
                break
            changed = False
            for q, f in funcs.items():
                must, exp = self._intra(f, funcs, universe)
                if must != self.must[q]:
                    self.must[q] = must
                    changed = True
                if exp != self.exposed[q]:
                    self.exposed[q] = exp
                    changed = True
        self.rounds = rounds

    def _callee_summaries(self, f, call, funcs):
        tg = self.ctx.r.resolve_call(f, call)
        tg = [t for t in tg if t.qual in funcs]
        return tg

    def body_exposure(self, f, stmts, funcs):
        """UpExposed / MustAssign of a statement list of `f` taken as a unit that starts with nothing assigned
        (used for loop bodies: what one iteration may read from the previous one)."""
        from .cfg import CFG
        fake = ast.FunctionDef(name=f.node.name, args=f.node.args, body=list(stmts), decorator_list=[], returns=None,
                               type_comment=None)
        cfg = CFG(fake)
        universe = {(m, g) for m in self.modules for g in self.mod_globals[m]}
        key = ("\0body", f.qual, id(stmts[0]) if stmts else 0)
        return self._intra(f, funcs, universe, cfg=cfg, evkey=key)

    def _intra(self, f, funcs, universe, cfg=None, evkey=None):
        if cfg is None:
            cfg = self.ctx.cfg(f)
        reach = cfg.reachable_nodes()
        order = [n for n in cfg.nodes if n.id in reach]
        IN = {n.id: None for n in order}     # None = top (universe)
        IN[cfg.entry.id] = set()
        exposed = set()
        work = [cfg.entry]
        OUT = {}
        iters = 0
        while work:
            iters += 1
            n = work.pop()
            d = set(IN[n.id]) if IN[n.id] is not None else set(universe)
            for kind, what, node in self.node_events(f, n, evkey):
                if kind in ("read", "mut"):
                    if what not in d:
                        if what not in exposed:
                            self.exposed_at.setdefault((f.qual, what), node)
                        exposed.add(what)
                elif kind == "write":
                    d.add(what)
                elif kind == "call":
                    for t in self._callee_summaries(f, what, funcs):
                        for g in self.exposed[t.qual]:
                            if g not in d:
                                if g not in exposed:
                                    self.exposed_at.setdefault((f.qual, g), node)
                                exposed.add(g)
                    tgs = self._callee_summaries(f, what, funcs)
                    if tgs:
                        add = set(universe)
                        for t in tgs:
                            add &= self.must[t.qual]
                        d |= add
            OUT[n.id] = d
            for s, lab in n.succ:
                if s.id not in reach:
                    continue
                # on an exceptional edge the statement may not have completed: propagate the IN set
                val = (set(IN[n.id]) if IN[n.id] is not None else set(universe)) if lab == "exc" else d
                cur = IN[s.id]
                new = set(val) if cur is None else (cur & val)
                if cur is None or new != cur:
                    IN[s.id] = new
                    work.append(s)
        ex = IN.get(cfg.exit.id)
        must = set(ex) if ex is not None else set(universe)   # never returns normally: vacuous
        return must, exposed
