"""Integer interval analysis of one expression at one CFG node, refined by dominating guards.

interval(expr, node) is computed from
  * constants, +/- arithmetic, len()/.index()/.count() (>= 0), range() loop variables,
  * reaching definitions of names (join), `v += c` handled monotonically,
  * guard edges (branch tests / asserts) that every path from the last definition of the
    expression's variables to `node` must traverse.
Everything else is top.  Sound for the fragment it models; anything unmodelled gives (-inf, +inf).
"""
import ast
import math

from .flow import node_binds, node_exprs

INF = math.inf
MUTATORS = {"pop", "append", "remove", "insert", "extend", "clear", "sort", "reverse", "update", "add",
            "discard", "popitem", "setdefault", "__setitem__", "__delitem__"}


def _const_int(e):
    if isinstance(e, ast.Constant) and isinstance(e.value, int) and not isinstance(e.value, bool):
        return e.value
    if isinstance(e, ast.UnaryOp) and isinstance(e.op, ast.USub):
        v = _const_int(e.operand)
        return -v if v is not None else None
    return None


class Intervals:
    def __init__(self, cfg, const_env=None):
        self.cfg = cfg
        self.const_env = const_env or {}     # dotted text -> int (resolved module constants)
        self._mods = None
        self._guards = None

    # -- which nodes (re)define or mutate a name --------------------------------
    def modifiers(self):
        if self._mods is None:
            mods = {}
            for n in self.cfg.nodes:
                for v in node_binds(n):
                    mods.setdefault(v, set()).add(n)
                for e in node_exprs(n):
                    for c in ast.walk(e):
                        if isinstance(c, ast.Call) and isinstance(c.func, ast.Attribute) and c.func.attr in MUTATORS:
                            base = c.func.value
                            txt = ast.unparse(base)
                            mods.setdefault(txt, set()).add(n)
                            if isinstance(base, ast.Name):
                                mods.setdefault(base.id, set()).add(n)
                        if isinstance(c, (ast.Assign, ast.AugAssign)):
                            tgts = c.targets if isinstance(c, ast.Assign) else [c.target]
                            for t in tgts:
                                for s in ast.walk(t):
                                    if isinstance(s, (ast.Subscript, ast.Attribute)) and isinstance(s.ctx, ast.Store):
                                        mods.setdefault(ast.unparse(s.value), set()).add(n)
                                        mods.setdefault(ast.unparse(s), set()).add(n)
            self._mods = mods
        return self._mods

    def _deps(self, expr):
        """Texts whose modification invalidates knowledge about expr."""
        out = set()
        for s in ast.walk(expr):
            if isinstance(s, ast.Name):
                out.add(s.id)
            elif isinstance(s, ast.Attribute):
                out.add(ast.unparse(s))
        return out

    def _sources(self, expr):
        src = {self.cfg.entry}
        mods = self.modifiers()
        for d in self._deps(expr):
            src |= mods.get(d, set())
        return src

    # -- guards -----------------------------------------------------------------
    def guards(self):
        """List of (test node, label, expr_text, op, const) atoms: on edge (node,label) `expr op const` holds."""
        if self._guards is not None:
            return self._guards
        res = []

        def atoms(test, want, acc):
            if isinstance(test, ast.UnaryOp) and isinstance(test.op, ast.Not):
                atoms(test.operand, not want, acc)
            elif isinstance(test, ast.BoolOp):
                if isinstance(test.op, ast.And) and want:
                    for v in test.values:
                        atoms(v, True, acc)
                elif isinstance(test.op, ast.Or) and not want:
                    for v in test.values:
                        atoms(v, False, acc)
            elif isinstance(test, (ast.Name, ast.Attribute)):
                # truthiness of a sequence: `if xs` <=> len(xs) >= 1, `if not xs` <=> len(xs) == 0 (only ever matched against `len(xs)` queries)
                e = ast.parse(f"len({ast.unparse(test)})", mode="eval").body
                acc.append((ast.unparse(e), ast.GtE if want else ast.Eq, 1 if want else 0, e))
            elif isinstance(test, ast.Compare) and len(test.ops) == 1 and isinstance(test.ops[0], (ast.Eq, ast.NotEq)) and isinstance(test.comparators[0], ast.List) \
                    and not test.comparators[0].elts:
                # xs == [] / xs != []
                e = ast.parse(f"len({ast.unparse(test.left)})", mode="eval").body
                empty = isinstance(test.ops[0], ast.Eq) == want
                acc.append((ast.unparse(e), ast.Eq if empty else ast.GtE, 0 if empty else 1, e))
            elif isinstance(test, ast.Compare):
                left = test.left
                ok = True
                chain = []
                for op, right in zip(test.ops, test.comparators):
                    chain.append((left, op, right))
                    left = right
                if not want and len(chain) > 1:
                    return
                for l, op, r in chain:
                    self._atom(l, op, r, want, acc)

        for n in self.cfg.nodes:
            if n.kind == "test":
                for lab, want in (("T", True), ("F", False)):
                    acc = []
                    atoms(n.ast, want, acc)
                    for (txt, op, c, expr) in acc:
                        res.append((n, lab, txt, op, c, expr))
        self._guards = res
        return res

    def _value(self, e):
        c = _const_int(e)
        if c is not None:
            return c
        try:
            return self.const_env.get(ast.unparse(e))
        except Exception:
            return None

    def _atom(self, l, op, r, want, acc):
        neg = {ast.Lt: ast.GtE, ast.LtE: ast.Gt, ast.Gt: ast.LtE, ast.GtE: ast.Lt, ast.Eq: ast.NotEq, ast.NotEq: ast.Eq}
        flip = {ast.Lt: ast.Gt, ast.LtE: ast.GtE, ast.Gt: ast.Lt, ast.GtE: ast.LtE, ast.Eq: ast.Eq, ast.NotEq: ast.NotEq}
        t = type(op)
        if t not in neg:
            return
        if not want:
            t = neg[t]
        cl, cr = self._value(l), self._value(r)
        if cr is not None and cl is None:
            acc.append((ast.unparse(l), t, cr, l))
        elif cl is not None and cr is None:
            acc.append((ast.unparse(r), flip[t], cl, r))

    def _edge_holds(self, gnode, label, expr, at):
        """Every path from the last modification of expr's variables (or entry) to `at` crosses edge (gnode,label)."""
        sources = self._sources(expr)
        seen = set()
        work = list(sources)
        while work:
            n = work.pop()
            for s, lab in n.succ:
                if n is gnode and lab == label:
                    continue
                if s is at:
                    return False
                if s.id not in seen:
                    seen.add(s.id)
                    work.append(s)
        return True

    # -- evaluation -------------------------------------------------------------
    def interval(self, expr, at, depth=0, visiting=None):
        lo, hi = self._structural(expr, at, depth, visiting or set())
        txt = ast.unparse(expr)
        excl = set()
        for (gn, lab, gtxt, op, c, gexpr) in self.guards():
            if gtxt != txt:
                continue
            if gn is at:
                continue
            if not self._edge_holds(gn, lab, expr, at):
                continue
            if op is ast.Lt:
                hi = min(hi, c - 1)
            elif op is ast.LtE:
                hi = min(hi, c)
            elif op is ast.Gt:
                lo = max(lo, c + 1)
            elif op is ast.GtE:
                lo = max(lo, c)
            elif op is ast.Eq:
                lo, hi = max(lo, c), min(hi, c)
            elif op is ast.NotEq:
                excl.add(c)
        changed = True
        while changed:
            changed = False
            if lo in excl:
                lo += 1
                changed = True
            if hi in excl:
                hi -= 1
                changed = True
        return lo, hi

    def _structural(self, e, at, depth, visiting):
        c = self._value(e)
        if c is not None:
            return c, c
        if depth > 6:
            return -INF, INF
        if isinstance(e, ast.BinOp) and isinstance(e.op, (ast.Add, ast.Sub)):
            a = self.interval(e.left, at, depth + 1, visiting)
            b = self.interval(e.right, at, depth + 1, visiting)
            if isinstance(e.op, ast.Add):
                return a[0] + b[0], a[1] + b[1]
            return a[0] - b[1], a[1] - b[0]
        if isinstance(e, ast.Call):
            f = e.func
            if isinstance(f, ast.Name) and f.id == "len":
                return 0, INF
            if isinstance(f, ast.Attribute) and f.attr in ("index", "count"):
                return 0, INF
            if isinstance(f, ast.Name) and f.id in ("min", "max") and e.args and not e.keywords:
                ivs = [self.interval(a, at, depth + 1, visiting) for a in e.args]
                if f.id == "min":
                    return min(i[0] for i in ivs), min(i[1] for i in ivs)
                return max(i[0] for i in ivs), max(i[1] for i in ivs)
        if isinstance(e, ast.Name):
            return self._name(e.id, at, depth, visiting)
        return -INF, INF

    def _reaching_defs(self, name, at):
        """CFG nodes binding `name` from which `at` is reachable without another binding of it; plus entry."""
        mods = self.modifiers().get(name, set())
        binders = {n for n in mods if name in node_binds(n)}
        out = []
        for src in list(binders) + [self.cfg.entry]:
            seen = set()
            work = [s for s, _ in src.succ]
            found = False
            while work and not found:
                n = work.pop()
                if n is at:
                    found = True
                    break
                if n.id in seen:
                    continue
                seen.add(n.id)
                if n in binders:
                    continue
                work.extend(s for s, _ in n.succ)
            if found:
                out.append(src)
        return out

    def _name(self, name, at, depth, visiting):
        key = (name, at.id)
        if key in visiting:
            return INF, -INF   # neutral element of join (cycle)
        visiting = visiting | {key}
        lo, hi = INF, -INF
        for d in self._reaching_defs(name, at):
            dl, dh = self._def_interval(name, d, depth, visiting)
            lo, hi = min(lo, dl), max(hi, dh)
        if lo == INF and hi == -INF:
            return -INF, INF
        return lo, hi

    def _def_interval(self, name, d, depth, visiting):
        a = d.ast
        if d.kind == "entry":
            return -INF, INF
        if d.kind == "iter":
            # for name in range(...)
            if isinstance(a.target, ast.Name) and a.target.id == name and isinstance(a.iter, ast.Call) \
                    and isinstance(a.iter.func, ast.Name) and a.iter.func.id == "range" and not a.iter.keywords:
                args = a.iter.args
                if len(args) == 1:
                    b = self.interval(args[0], d, depth + 1, visiting)
                    return 0, b[1] - 1
                if len(args) == 2:
                    s = self.interval(args[0], d, depth + 1, visiting)
                    b = self.interval(args[1], d, depth + 1, visiting)
                    return s[0], b[1] - 1
            return -INF, INF
        if isinstance(a, ast.Assign) and len(a.targets) == 1 and isinstance(a.targets[0], ast.Name) \
                and a.targets[0].id == name:
            return self.interval(a.value, d, depth + 1, visiting)
        if isinstance(a, ast.AugAssign) and isinstance(a.target, ast.Name) and a.target.id == name:
            prev = self._name(name, d, depth + 1, visiting)
            inc = self.interval(a.value, d, depth + 1, visiting)
            if isinstance(a.op, ast.Add):
                if prev == (INF, -INF):
                    return prev
                lo = prev[0] + inc[0] if inc[0] >= 0 else -INF
                hi = prev[1] + inc[1] if inc[1] <= 0 else INF
                # monotone loops: a non-negative increment can only raise the value
                return (prev[0] if inc[0] >= 0 else -INF), (prev[1] if inc[1] <= 0 else INF)
            if isinstance(a.op, ast.Sub):
                if prev == (INF, -INF):
                    return prev
                return (prev[0] if inc[1] <= 0 else -INF), (prev[1] if inc[0] >= 0 else INF)
        return -INF, INF
