"""Parse every analysed module of the repository once; index functions/classes.

Nothing from the repository is imported or executed: only ``ast`` and ``symtable``
over the source text found under ``root`` at the time of the run.
"""
import ast
import warnings
warnings.filterwarnings("ignore", category=SyntaxWarning)
import hashlib
import os
import symtable

EXCLUDED_TOP = {"examples", "tests", "scripts", "gasol_ml", "interesting_examples", "properties",
                "reports", "bin", ".git", "__pycache__"}


class AnalysisError(Exception):
    """The checker cannot be believed (anchor vanished, premise failed, floor missed)."""


class Module:
    def __init__(self, name, path, rel, src):
        self.name = name
        self.path = path
        self.rel = rel
        self.src = src
        self.digest = hashlib.sha256(src.encode()).hexdigest()[:16]
        self.tree = ast.parse(src, filename=path)
        for parent in ast.walk(self.tree):
            for child in ast.iter_child_nodes(parent):
                child._parent = parent
        self._symtable = None

    @property
    def symtable(self):
        if self._symtable is None:
            self._symtable = symtable.symtable(self.src, self.path, "exec")
        return self._symtable

    def segment(self, node):
        try:
            return ast.get_source_segment(self.src, node) or ""
        except Exception:
            return ""


class FuncInfo:
    def __init__(self, module, node, cls=None, parent=None):
        self.module = module
        self.node = node
        self.cls = cls            # ClassInfo or None
        self.parent = parent      # enclosing FuncInfo for nested defs
        self.name = node.name
        if cls is not None:
            self.qual = f"{module.name}.{cls.name}.{node.name}"
        elif parent is not None:
            self.qual = f"{parent.qual}.<locals>.{node.name}"
        else:
            self.qual = f"{module.name}.{node.name}"

    @property
    def params(self):
        a = self.node.args
        return [x.arg for x in a.posonlyargs + a.args] + ([a.vararg.arg] if a.vararg else []) + \
               [x.arg for x in a.kwonlyargs] + ([a.kwarg.arg] if a.kwarg else [])

    def __repr__(self):
        return f"<Func {self.qual}>"


class ClassInfo:
    def __init__(self, module, node):
        self.module = module
        self.node = node
        self.name = node.name
        self.qual = f"{module.name}.{node.name}"
        self.methods = {}
        self.setters = {}      # property name -> FuncInfo of its @<name>.setter
        self.base_exprs = node.bases


class Project:
    def __init__(self, root):
        self.root = os.path.abspath(root)
        self.modules = {}
        self.functions = {}   # qualname -> FuncInfo
        self.classes = {}     # qualname -> ClassInfo
        self.consulted = set()
        self._load()

    def _load(self):
        if not os.path.isdir(self.root):
            raise AnalysisError(f"root {self.root} is not a directory")
        for dirpath, dirnames, filenames in os.walk(self.root):
            rel_dir = os.path.relpath(dirpath, self.root)
            parts = [] if rel_dir == "." else rel_dir.split(os.sep)
            if parts and parts[0] in EXCLUDED_TOP:
                dirnames[:] = []
                continue
            dirnames[:] = sorted(d for d in dirnames if d not in EXCLUDED_TOP and not d.startswith("."))
            for fn in sorted(filenames):
                if not fn.endswith(".py"):
                    continue
                path = os.path.join(dirpath, fn)
                rel = os.path.relpath(path, self.root)
                modname = rel[:-3].replace(os.sep, ".")
                if modname.endswith(".__init__"):
                    modname = modname[:-9]
                try:
                    with open(path, encoding="utf-8") as f:
                        src = f.read()
                    mod = Module(modname, path, rel, src)
                except SyntaxError as e:
                    raise AnalysisError(f"cannot parse {rel}: {e}")
                self.modules[modname] = mod
                self._index(mod)

    def _index(self, mod):
        def visit(body, cls=None, parent=None):
            for st in body:
                if isinstance(st, (ast.FunctionDef, ast.AsyncFunctionDef)):
                    fi = FuncInfo(mod, st, cls=cls, parent=parent)
                    is_setter = any(isinstance(d, ast.Attribute) and d.attr in ("setter", "deleter") for d in st.decorator_list)
                    if is_setter and cls is not None:
                        # @x.setter shares the getter's name: keep both (the getter stays `methods[x]`, under the plain qualified name)
                        fi.qual = fi.qual + ".<setter>"
                        cls.setters[st.name] = fi
                        self.functions[fi.qual] = fi
                    else:
                        self.functions[fi.qual] = fi
                        if cls is not None:
                            cls.methods[st.name] = fi
                    visit(st.body, cls=None, parent=fi)
                elif isinstance(st, ast.ClassDef) and parent is None and cls is None:
                    ci = ClassInfo(mod, st)
                    self.classes[ci.qual] = ci
                    visit(st.body, cls=ci, parent=None)
                elif isinstance(st, (ast.If, ast.Try, ast.With, ast.For, ast.While)):
                    # defs nested in module-level compound statements
                    for field in ("body", "orelse", "finalbody"):
                        visit(getattr(st, field, []) or [], cls=cls, parent=parent)
                    for h in getattr(st, "handlers", []) or []:
                        visit(h.body, cls=cls, parent=parent)
        visit(mod.tree.body)

    # -- access helpers -------------------------------------------------
    def module(self, name):
        m = self.modules.get(name)
        if m is None:
            raise AnalysisError(f"anchor module {name} not found under {self.root}")
        self.consulted.add(name)
        return m

    def func(self, qual):
        f = self.functions.get(qual)
        if f is None:
            raise AnalysisError(f"anchor function {qual} not found")
        self.consulted.add(f.module.name)
        return f

    def func_opt(self, qual):
        f = self.functions.get(qual)
        if f is not None:
            self.consulted.add(f.module.name)
        return f

    def cls(self, qual):
        c = self.classes.get(qual)
        if c is None:
            raise AnalysisError(f"anchor class {qual} not found")
        self.consulted.add(c.module.name)
        return c

    def funcs_in(self, modname):
        self.module(modname)
        return [f for f in self.functions.values() if f.module.name == modname]

    def consulted_files(self):
        return {self.modules[m].rel: self.modules[m].digest for m in sorted(self.consulted) if m in self.modules}


def norm(node):
    """Normalised statement/expression text: stable under reformatting, used in finding keys."""
    try:
        return ast.unparse(node)
    except Exception:
        return ast.dump(node)


def function_locals(fnode):
    """Names bound inside the function (assignment, for/with/except targets, comprehension variables) that are neither parameters
    nor declared global/nonlocal."""
    a = fnode.args
    params = {x.arg for x in a.posonlyargs + a.args + a.kwonlyargs} | ({a.vararg.arg} if a.vararg else set()) | ({a.kwarg.arg} if a.kwarg else set())
    glob, bound = set(), set()
    for n in ast.walk(fnode):
        if isinstance(n, (ast.Global, ast.Nonlocal)):
            glob |= set(n.names)
        elif isinstance(n, ast.Name) and isinstance(n.ctx, (ast.Store, ast.Del)):
            bound.add(n.id)
        elif isinstance(n, ast.ExceptHandler) and n.name:
            bound.add(n.name)
        elif isinstance(n, ast.arg) and n is not None:
            pass
    lam = {x.arg for n in ast.walk(fnode) if isinstance(n, ast.Lambda) for x in n.args.args}
    return (bound | lam) - params - glob


def canon(text, local_names):
    """`text` with the function's local names replaced by L1, L2, ... in order of first appearance: the same for every consistent
    renaming of locals.  Used for keys of frozen tables (triage entries), never for messages."""
    import re
    if not local_names:
        return text
    pat = re.compile(r"(?<![\w.])(" + "|".join(sorted((re.escape(n) for n in local_names), key=len, reverse=True)) + r")(?!\w)")
    order = {}

    def sub(m):
        return order.setdefault(m.group(1), f"L{len(order) + 1}")
    return pat.sub(sub, text)


def short(node, n=90):
    s = norm(node).replace("\n", " ")
    return s if len(s) <= n else s[:n - 3] + "..."


def own_nodes(func_node):
    """Walk nodes of a function body without descending into nested defs/classes/lambdas."""
    stack = list(reversed(func_node.body))
    while stack:
        n = stack.pop()
        yield n
        if isinstance(n, (ast.FunctionDef, ast.AsyncFunctionDef, ast.ClassDef)):
            continue
        stack.extend(reversed(list(ast.iter_child_nodes(n))))


def all_nodes(func_node):
    for st in func_node.body:
        yield from ast.walk(st)
