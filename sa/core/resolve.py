"""Import/alias resolution and call graph with resolved callees."""
import ast
from collections import defaultdict

from .loader import own_nodes, AnalysisError


class Resolver:
    def __init__(self, project):
        self.p = project
        self.imports = {}          # modname -> {local name -> ("module", modname) | ("symbol", modname, name)}
        self.module_defs = {}      # modname -> {name -> "func"|"class"|"var"}
        for m in project.modules.values():
            self._scan_module(m)
        self._callees = {}
        self._unresolved = {}
        self._methods_by_name = defaultdict(list)
        for f in project.functions.values():
            if f.cls is not None:
                self._methods_by_name[f.name].append(f)

    def _scan_module(self, m):
        imp = {}
        defs = {}
        for st in ast.walk(m.tree):
            if isinstance(st, ast.Import):
                for a in st.names:
                    if a.asname:
                        imp[a.asname] = ("module", a.name)
                    else:
                        imp[a.name.split(".")[0]] = ("module", a.name.split(".")[0])
                        imp[a.name] = ("module", a.name)
            elif isinstance(st, ast.ImportFrom):
                base = st.module or ""
                if st.level:
                    pkg = m.name.split(".")
                    pkg = pkg[:len(pkg) - st.level] if m.rel.endswith("__init__.py") is False else pkg[:len(pkg) - st.level + 1]
                    base = ".".join(pkg + ([st.module] if st.module else []))
                for a in st.names:
                    local = a.asname or a.name
                    full = f"{base}.{a.name}"
                    if full in self.p.modules:
                        imp[local] = ("module", full)
                    else:
                        imp[local] = ("symbol", base, a.name)
        for st in m.tree.body:
            if isinstance(st, (ast.FunctionDef, ast.AsyncFunctionDef)):
                defs[st.name] = "func"
            elif isinstance(st, ast.ClassDef):
                defs[st.name] = "class"
            elif isinstance(st, (ast.Assign, ast.AnnAssign, ast.AugAssign)):
                tgts = st.targets if isinstance(st, ast.Assign) else [st.target]
                for t in tgts:
                    for n in ast.walk(t):
                        if isinstance(n, ast.Name):
                            defs.setdefault(n.id, "var")
        self.imports[m.name] = imp
        self.module_defs[m.name] = defs

    # ------------------------------------------------------------------
    def resolve_name(self, modname, name):
        """Resolve a bare name used in module `modname` to ('func'|'class'|'module'|'var'|None, qual)."""
        defs = self.module_defs.get(modname, {})
        if name in defs:
            kind = defs[name]
            return kind, f"{modname}.{name}"
        imp = self.imports.get(modname, {}).get(name)
        if imp is None:
            return None, None
        if imp[0] == "module":
            return "module", imp[1]
        _, base, sym = imp
        if base in self.p.modules:
            return self.resolve_name(base, sym)
        return "external", f"{base}.{sym}"

    def resolve_attr_chain(self, modname, node):
        """Resolve dotted expressions like a.b.c where a is an imported module. Returns (kind, qual)."""
        parts = []
        cur = node
        while isinstance(cur, ast.Attribute):
            parts.append(cur.attr)
            cur = cur.value
        if not isinstance(cur, ast.Name):
            return None, None
        parts.append(cur.id)
        parts.reverse()
        # longest module prefix
        imp = self.imports.get(modname, {})
        for k in range(len(parts), 0, -1):
            key = ".".join(parts[:k])
            if key in imp and imp[key][0] == "module":
                target_mod = imp[key][1]
                rest = parts[k:]
                while rest and f"{target_mod}.{rest[0]}" in self.p.modules:
                    target_mod = f"{target_mod}.{rest[0]}"
                    rest = rest[1:]
                if not rest:
                    return "module", target_mod
                if target_mod in self.p.modules:
                    kind, qual = self.resolve_name(target_mod, rest[0])
                    if len(rest) == 1:
                        return kind, qual
                    if kind == "class" and len(rest) == 2:
                        ci = self.p.classes.get(qual)
                        if ci and rest[1] in ci.methods:
                            return "func", ci.methods[rest[1]].qual
                    return None, None
                return "external", f"{target_mod}." + ".".join(rest)
        if len(parts) == 2:
            kind, qual = self.resolve_name(modname, parts[0])
            if kind == "class":
                m = self.find_method(qual, parts[1])
                if m:
                    return "func", m.qual
        return None, None

    def class_mro(self, cqual, seen=None):
        seen = seen or set()
        if cqual in seen or cqual not in self.p.classes:
            return []
        seen.add(cqual)
        ci = self.p.classes[cqual]
        out = [ci]
        for b in ci.base_exprs:
            kind, q = (self.resolve_name(ci.module.name, b.id) if isinstance(b, ast.Name)
                       else self.resolve_attr_chain(ci.module.name, b))
            if kind == "class":
                out.extend(self.class_mro(q, seen))
        return out

    def find_method(self, cqual, name):
        for ci in self.class_mro(cqual):
            if name in ci.methods:
                return ci.methods[name]
        return None

    def subclasses(self, cqual):
        return [c.qual for c in self.p.classes.values() if c.qual != cqual and
                any(x.qual == cqual for x in self.class_mro(c.qual))]

    def resolve_call(self, finfo, call):
        """Return list of FuncInfo a call may target (empty if external/unknown)."""
        fn = call.func
        mod = finfo.module.name
        out = []
        if isinstance(fn, ast.Name):
            # nested function of an enclosing scope?
            cur = finfo
            while cur is not None:
                q = f"{cur.qual}.<locals>.{fn.id}"
                if q in self.p.functions:
                    return [self.p.functions[q]]
                cur = cur.parent
            kind, qual = self.resolve_name(mod, fn.id)
            if kind == "func" and qual in self.p.functions:
                out.append(self.p.functions[qual])
            elif kind == "class":
                init = self.find_method(qual, "__init__")
                if init:
                    out.append(init)
        elif isinstance(fn, ast.Attribute):
            if isinstance(fn.value, ast.Name) and fn.value.id in ("self", "cls") and finfo_class(finfo) is not None:
                ci = finfo_class(finfo)
                m = self.find_method(ci.qual, fn.attr)
                if m:
                    out.append(m)
                for sub in self.subclasses(ci.qual):
                    sm = self.p.classes[sub].methods.get(fn.attr)
                    if sm and sm not in out:
                        out.append(sm)
                if out:
                    return out
            if isinstance(fn.value, ast.Call) and isinstance(fn.value.func, ast.Name) and fn.value.func.id == "super":
                ci = finfo_class(finfo)
                if ci:
                    for c in self.class_mro(ci.qual)[1:]:
                        if fn.attr in c.methods:
                            return [c.methods[fn.attr]]
            kind, qual = self.resolve_attr_chain(mod, fn)
            if kind == "func" and qual in self.p.functions:
                out.append(self.p.functions[qual])
            elif kind == "class":
                init = self.find_method(qual, "__init__")
                if init:
                    out.append(init)
        return out

    def by_name_methods(self, call):
        fn = call.func
        if isinstance(fn, ast.Attribute):
            return list(self._methods_by_name.get(fn.attr, []))
        return []

    def callees(self, finfo, by_name=True):
        key = (finfo.qual, by_name)
        if key in self._callees:
            return self._callees[key]
        res = []
        for n in own_nodes(finfo.node):
            if isinstance(n, ast.Call):
                tg = self.resolve_call(finfo, n)
                if not tg and by_name:
                    kind = None
                    if isinstance(n.func, ast.Attribute):
                        kind, _ = self.resolve_attr_chain(finfo.module.name, n.func)
                    if kind not in ("external", "module"):
                        tg = self.by_name_methods(n)
                for t in tg:
                    res.append((n, t))
            elif isinstance(n, (ast.FunctionDef, ast.AsyncFunctionDef)):
                q = f"{finfo.qual}.<locals>.{n.name}"
                if q in self.p.functions:
                    res.append((n, self.p.functions[q]))
            elif isinstance(n, ast.Attribute) and not isinstance(getattr(n, "_parent", None), ast.Call):
                # property access on self
                if isinstance(n.value, ast.Name) and n.value.id == "self" and finfo_class(finfo) is not None:
                    m = self.find_method(finfo_class(finfo).qual, n.attr)
                    if m is not None:
                        res.append((n, m))
        self._callees[key] = res
        return res

    def reachable(self, roots, by_name=True, stop=()):
        """Transitive closure of callees from FuncInfo roots. Returns dict qual -> FuncInfo."""
        seen = {}
        work = list(roots)
        while work:
            f = work.pop()
            if f.qual in seen or f.qual in stop:
                continue
            seen[f.qual] = f
            for _, t in self.callees(f, by_name=by_name):
                if t.qual not in seen:
                    work.append(t)
        return seen


def finfo_class(finfo):
    cur = finfo
    while cur is not None:
        if cur.cls is not None:
            return cur.cls
        cur = cur.parent
    return None
