"""E6 — writer/reader key agreement helpers: literal string keys read / written inside one function."""
import ast

from .loader import own_nodes
from .flow import call_name


def keys_read(func_node, receivers=None):
    """Literal keys read via x["k"], x.get("k"...), "k" in x.  receivers: restrict to these base names (None = any).
    Returns dict key -> list of (node, how) with how in {'index','get','in'}."""
    out = {}
    for n in own_nodes(func_node):
        if isinstance(n, ast.Subscript) and isinstance(n.ctx, ast.Load) and isinstance(n.slice, ast.Constant) and isinstance(n.slice.value, str):
            if receivers is None or _base(n.value) in receivers:
                out.setdefault(n.slice.value, []).append((n, "index"))
        elif isinstance(n, ast.Call) and isinstance(n.func, ast.Attribute) and n.func.attr == "get" and n.args \
                and isinstance(n.args[0], ast.Constant) and isinstance(n.args[0].value, str):
            if receivers is None or _base(n.func.value) in receivers:
                out.setdefault(n.args[0].value, []).append((n, "get"))
        elif isinstance(n, ast.Compare) and len(n.ops) == 1 and isinstance(n.ops[0], (ast.In, ast.NotIn)) \
                and isinstance(n.left, ast.Constant) and isinstance(n.left.value, str):
            if receivers is None or _base(n.comparators[0]) in receivers:
                out.setdefault(n.left.value, []).append((n, "in"))
    return out


def keys_written(func_node, receivers=None):
    """Literal keys written via x["k"] = v and dict displays.  Returns dict key -> list of (value expr, stmt, conditional?)."""
    out = {}
    for n in own_nodes(func_node):
        if isinstance(n, ast.Assign):
            for t in n.targets:
                if isinstance(t, ast.Subscript) and isinstance(t.slice, ast.Constant) and isinstance(t.slice.value, str):
                    if receivers is None or _base(t.value) in receivers:
                        out.setdefault(t.slice.value, []).append((n.value, n, _guard(n, func_node)))
        if isinstance(n, ast.Dict):
            for k, v in zip(n.keys, n.values):
                if isinstance(k, ast.Constant) and isinstance(k.value, str):
                    out.setdefault(k.value, []).append((v, n, _guard(n, func_node)))
    return out


def _base(e):
    while isinstance(e, (ast.Subscript, ast.Attribute, ast.Call)):
        e = e.func if isinstance(e, ast.Call) else e.value
    return e.id if isinstance(e, ast.Name) else None


def _guard(n, func_node):
    """The innermost enclosing `if` test (None when unconditional)."""
    cur = n
    while cur is not None and cur is not func_node:
        p = getattr(cur, "_parent", None)
        if isinstance(p, ast.If) and cur in p.body:
            return p.test
        if isinstance(p, ast.If) and cur in p.orelse:
            return ast.UnaryOp(op=ast.Not(), operand=p.test)
        cur = p
    return None
