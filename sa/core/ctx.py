"""Per-run analysis context shared by all rules."""
from .loader import Project, AnalysisError
from .resolve import Resolver
from .cfg import CFG


class Ctx:
    def __init__(self, root, tier="quick", overlay=None):
        self.root = root
        self.tier = tier
        self.p = Project(root) if overlay is None else OverlayProject(root, overlay)
        self.r = Resolver(self.p)
        self._cfg = {}
        self.cache = {}

    def cfg(self, finfo):
        c = self._cfg.get(finfo.qual)
        if c is None:
            c = CFG(finfo.node)
            self._cfg[finfo.qual] = c
        return c

    def global_initialiser(self, modname, least=5):
        """The parameterless module-level function of `modname` that declares (and so re-binds) the most module globals: the
        module's reset routine, whatever it is called."""
        import ast as _ast
        best, nbest = None, 0
        for f in self.p.funcs_in(modname):
            if f.cls is not None or f.parent is not None or f.params:
                continue
            k = len({x for n in _ast.walk(f.node) if isinstance(n, _ast.Global) for x in n.names})
            if k > nbest:
                best, nbest = f, k
        if best is None or nbest < least:
            raise AnalysisError(f"{modname}: no parameterless function re-binding at least {least} module globals (the reset routine) found")
        self.p.consulted.add(modname)
        return best

    def callee_in(self, caller, modname):
        """The one function of module `modname` that `caller` calls (an anchor that survives the renaming of that function)."""
        fs = {t.qual: t for _, t in self.r.callees(caller, by_name=False) if t.module.name == modname}
        if len(fs) != 1:
            raise AnalysisError(f"{caller.qual} calls {len(fs)} functions of {modname} ({sorted(fs)}); exactly one expected")
        self.p.consulted.add(modname)
        return next(iter(fs.values()))

    def with_helpers(self, finfo):
        """finfo and the functions / methods of its own module that it (transitively) calls: what an extract-helper refactoring
        spreads one function over."""
        seen, work = {}, [finfo]
        while work:
            f = work.pop()
            if f.qual in seen:
                continue
            seen[f.qual] = f
            for _, t in self.r.callees(f, by_name=False):
                if t.module.name == finfo.module.name and t.qual not in seen:
                    work.append(t)
        return list(seen.values())

    def func(self, qual):
        """The anchor function; a function (or a class holding the method) that was moved to another module and is imported back
        under the same name by the anchor module is followed through the import."""
        if qual in self.p.functions:
            return self.p.func(qual)
        parts = qual.split(".")
        for k in range(len(parts) - 1, 0, -1):
            modname = ".".join(parts[:k])
            if modname in self.p.modules:
                kind, q2 = self.r.resolve_name(modname, parts[k])
                if kind in ("func", "class") and q2 and q2 != ".".join(parts[:k + 1]):
                    moved = ".".join([q2] + parts[k + 1:])
                    if moved in self.p.functions:
                        self.p.consulted.add(modname)
                        return self.p.func(moved)
                break
        return self.p.func(qual)


class OverlayProject(Project):
    """Project whose listed files are replaced by in-memory text (self-test mutants)."""

    def __init__(self, root, overlay):
        self._overlay = dict(overlay)
        super().__init__(root)

    def _load(self):
        import builtins
        import os
        real_open = builtins.open
        overlay = {os.path.join(os.path.abspath(self.root), k): v for k, v in self._overlay.items()}

        # Loader reads files with open(); patch only within this call.
        import io

        def fake_open(path, *a, **kw):
            ap = os.path.abspath(path) if isinstance(path, str) else path
            if ap in overlay:
                return io.StringIO(overlay[ap])
            return real_open(path, *a, **kw)

        from . import loader as _l
        _l.open = fake_open
        try:
            super()._load()
            # files that only exist in the overlay (a patch that adds a module)
            for ap, src in overlay.items():
                if not os.path.exists(ap) and ap.endswith(".py"):
                    rel = os.path.relpath(ap, os.path.abspath(self.root))
                    modname = rel[:-3].replace(os.sep, ".")
                    if modname.endswith(".__init__"):
                        modname = modname[:-9]
                    try:
                        mod = _l.Module(modname, ap, rel, src)
                    except SyntaxError as e:
                        raise AnalysisError(f"cannot parse {rel}: {e}")
                    self.modules[modname] = mod
                    self._index(mod)
        finally:
            del _l.open
