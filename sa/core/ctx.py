"""Per-run analysis context shared by all rules."""
from .loader import Project, AnalysisError
from .resolve import Resolver
from .cfg import CFG


class Ctx:
    def __init__(self, root, tier="quick", overlay=None):
        self.root = root
        self.tier = tier
        self.p = Project(root) if overlay is None else OverlayProject(root, overlay)
        self.r = Resolver(self.p)
        self._cfg = {}
        self.cache = {}

    def cfg(self, finfo):
        c = self._cfg.get(finfo.qual)
        if c is None:
            c = CFG(finfo.node)
            self._cfg[finfo.qual] = c
        return c

    def func(self, qual):
        return self.p.func(qual)


class OverlayProject(Project):
    """Project whose listed files are replaced by in-memory text (self-test mutants)."""

    def __init__(self, root, overlay):
        self._overlay = dict(overlay)
        super().__init__(root)

    def _load(self):
        import builtins
        import os
        real_open = builtins.open
        overlay = {os.path.join(os.path.abspath(self.root), k): v for k, v in self._overlay.items()}

        # Loader reads files with open(); patch only within this call.
        import io

        def fake_open(path, *a, **kw):
            ap = os.path.abspath(path) if isinstance(path, str) else path
            if ap in overlay:
                return io.StringIO(overlay[ap])
            return real_open(path, *a, **kw)

        from . import loader as _l
        _l.open = fake_open
        try:
            super()._load()
        finally:
            del _l.open
