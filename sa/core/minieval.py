"""A tiny evaluator for pure decision functions, used to enumerate *finite abstract domains* (E8).

It interprets the AST of a repository function (the repository is never imported or executed) over
representative values chosen by the calling rule, one per region of the abstract domain.  The calling
rule is responsible for the premise that makes representatives exact (the value is only touched through
comparisons etc.); `Unsupported` is raised for any construct outside the modelled subset, which the
runner turns into ANALYSIS-ERROR rather than a guess.
"""
import ast
import operator


MODKEY = "\0module"


class Unsupported(Exception):
    pass


class _Return(Exception):
    def __init__(self, value):
        self.value = value


class _Break(Exception):
    pass


class _Continue(Exception):
    pass


class Raised(Exception):
    """The interpreted code raised."""
    def __init__(self, what):
        self.what = what


BINOPS = {ast.Add: operator.add, ast.Sub: operator.sub, ast.Mult: operator.mul, ast.FloorDiv: operator.floordiv,
          ast.Mod: operator.mod, ast.Pow: operator.pow, ast.BitAnd: operator.and_, ast.BitOr: operator.or_,
          ast.BitXor: operator.xor, ast.LShift: operator.lshift, ast.RShift: operator.rshift, ast.Div: operator.truediv}
CMPOPS = {ast.Eq: operator.eq, ast.NotEq: operator.ne, ast.Lt: operator.lt, ast.LtE: operator.le,
          ast.Gt: operator.gt, ast.GtE: operator.ge, ast.Is: operator.is_, ast.IsNot: operator.is_not,
          ast.In: lambda a, b: a in b, ast.NotIn: lambda a, b: a not in b}
SAFE_BUILTINS = {"str": str, "int": int, "len": len, "range": range, "abs": abs, "min": min, "max": max,
                 "bool": bool, "list": list, "tuple": tuple, "set": set, "any": any, "all": all, "sorted": sorted,
                 "isinstance": isinstance, "True": True, "False": False, "None": None, "type": type, "dict": dict,
                 "float": float, "hex": hex, "enumerate": enumerate, "zip": zip, "reversed": reversed, "sum": sum,
                 "Exception": Exception, "ValueError": ValueError, "map": map, "filter": filter, "iter": iter, "frozenset": frozenset,
                 "divmod": divmod, "ord": ord, "chr": chr, "bin": bin, "round": round, "repr": repr}


def _next(it, *default):
    # generator expressions are evaluated eagerly to lists: next(<list>) takes the first element
    try:
        return next(iter(it), *default) if not hasattr(it, "__next__") else next(it, *default)
    except StopIteration:
        raise Raised("StopIteration")


SAFE_BUILTINS["next"] = _next
SAFE_METHODS = {(str, "find"), (str, "startswith"), (str, "endswith"), (str, "strip"), (str, "split"), (str, "lower"),
                (str, "upper"), (str, "replace"), (str, "isdigit"), (list, "append"), (list, "index"), (list, "count"),
                (list, "copy"), (dict, "get"), (dict, "keys"), (dict, "values"), (dict, "items"), (tuple, "index"),
                (tuple, "count"), (list, "pop"), (list, "extend"), (str, "join"), (str, "format"), (str, "splitlines"), (str, "isnumeric"),
                (list, "insert"), (list, "remove"), (dict, "pop"), (dict, "update"), (set, "add"), (str, "rstrip"), (str, "lstrip"),
                (str, "rfind"), (str, "count"), (str, "index"), (list, "reverse"), (list, "sort"), (set, "remove"), (set, "discard"), (set, "union"),
                (set, "intersection"), (set, "difference"), (set, "update"), (set, "copy"), (dict, "setdefault"), (dict, "copy"), (list, "clear"),
                (str, "zfill"), (str, "rjust"), (str, "ljust"), (str, "title"), (str, "capitalize"), (str, "partition"), (str, "rpartition"), (str, "rsplit"),
                (str, "isalpha"), (str, "isalnum"), (str, "removeprefix"), (str, "removesuffix"), (set, "issubset"), (set, "issuperset"), (set, "isdisjoint"),
                (set, "symmetric_difference"), (dict, "clear"), (dict, "popitem"), (tuple, "__len__")}


def _own_walk(fn):
    """nodes of a function body without nested function / lambda / class bodies"""
    work = list(fn.body)
    while work:
        n = work.pop()
        yield n
        for c in ast.iter_child_nodes(n):
            if not isinstance(c, (ast.FunctionDef, ast.AsyncFunctionDef, ast.Lambda, ast.ClassDef)):
                work.append(c)


class Evaluator:
    def __init__(self, func_node, globals_env=None, call_hook=None, max_steps=20000, obj_types=(), attr_hook=None, name_hook=None):
        self.func = func_node
        self.name_hook = name_hook       # name -> value for names that are neither local, global nor builtin (function references)
        self.genv = dict(globals_env or {})
        self.call_hook = call_hook       # (name, args, kwargs) -> value, or raises Unsupported
        self.max_steps = max_steps
        self.obj_types = tuple(obj_types)
        self.attr_hook = attr_hook

    def call(self, *args, **kwargs):
        a = self.func.args
        names = [x.arg for x in a.posonlyargs + a.args]
        env = {}
        defaults = a.defaults
        supplied = set(names[:len(args)]) | set(kwargs)
        for i, d in enumerate(defaults):
            pname = names[len(names) - len(defaults) + i]
            if pname not in supplied:
                env[pname] = self._const_default(d)
        if a.vararg:
            env[a.vararg.arg] = tuple(args[len(names):])
            args = args[:len(names)]
        elif len(args) > len(names):
            raise Unsupported("too many positional arguments")
        for n, v in zip(names, args):
            env[n] = v
        for k, v in kwargs.items():
            env[k] = v
        for n in names:
            if n not in env:
                raise Unsupported(f"missing argument {n}")
        self.steps = 0
        is_gen = getattr(self.func, "_is_gen", None)
        if is_gen is None:
            is_gen = any(isinstance(n, (ast.Yield, ast.YieldFrom)) for n in _own_walk(self.func))
            try:
                self.func._is_gen = is_gen       # cached on the node: the walk is expensive for the repository's very large functions
            except AttributeError:
                pass
        if is_gen:
            # a generator function is evaluated eagerly: the values it yields are collected in order (the interpreted code base
            # consumes its generators completely, and they have no side effects that depend on laziness)
            env["\0yielded"] = []
        try:
            self._block(self.func.body, env)
        except _Return as r:
            return env["\0yielded"] if is_gen else r.value
        return env["\0yielded"] if is_gen else None

    def _const_default(self, d):
        if isinstance(d, ast.Constant):
            return d.value
        # a literal container.  (Python creates it once per definition and shares it between calls; the evaluations of one analysis
        # must stay independent of each other, so every call gets a fresh one — sharing through a mutable default is C12's lint.)
        try:
            return ast.literal_eval(d)
        except (ValueError, SyntaxError):
            raise Unsupported("non-constant default")

    def _tick(self):
        self.steps += 1
        if self.steps > self.max_steps:
            raise Unsupported("step limit exceeded")

    def _block(self, stmts, env):
        for st in stmts:
            self._stmt(st, env)

    def _stmt(self, st, env):
        self._tick()
        if isinstance(st, ast.Return):
            raise _Return(self._expr(st.value, env) if st.value is not None else None)
        if isinstance(st, ast.Assign):
            v = self._expr(st.value, env)
            for t in st.targets:
                self._assign(t, v, env)
        elif isinstance(st, ast.AugAssign):
            cur = self._expr(_as_load(st.target), env)
            rhs = self._expr(st.value, env)
            try:
                if isinstance(st.op, ast.Add) and isinstance(cur, list):
                    cur.extend(rhs)            # list += iterable mutates in place (aliases see it), unlike list + list
                    v = cur
                elif isinstance(st.op, ast.BitOr) and isinstance(cur, set):
                    cur |= rhs
                    v = cur
                else:
                    v = BINOPS[type(st.op)](cur, rhs)
            except (TypeError, ValueError, ZeroDivisionError) as ex:
                raise Raised(type(ex).__name__)
            self._assign(st.target, v, env)
        elif isinstance(st, ast.AnnAssign):
            if st.value is not None:
                self._assign(st.target, self._expr(st.value, env), env)
        elif isinstance(st, ast.If):
            self._block(st.body if self._expr(st.test, env) else st.orelse, env)
        elif isinstance(st, ast.While):
            while self._expr(st.test, env):
                self._tick()
                try:
                    self._block(st.body, env)
                except _Break:
                    break
                except _Continue:
                    continue
            else:
                self._block(st.orelse, env)
        elif isinstance(st, ast.For):
            broke = False
            for item in self._expr(st.iter, env):
                self._tick()
                self._assign(st.target, item, env)
                try:
                    self._block(st.body, env)
                except _Break:
                    broke = True
                    break
                except _Continue:
                    continue
            if not broke:
                self._block(st.orelse, env)
        elif isinstance(st, ast.Expr) and isinstance(st.value, ast.Yield):
            env["\0yielded"].append(self._expr(st.value.value, env) if st.value.value is not None else None)
        elif isinstance(st, ast.Expr) and isinstance(st.value, ast.YieldFrom):
            env["\0yielded"].extend(list(self._expr(st.value.value, env)))
        elif isinstance(st, ast.Expr):
            if isinstance(st.value, ast.Constant):
                return
            self._expr(st.value, env)
        elif isinstance(st, ast.Pass):
            return
        elif isinstance(st, ast.Break):
            raise _Break()
        elif isinstance(st, ast.Continue):
            raise _Continue()
        elif isinstance(st, ast.Raise):
            raise Raised(ast.unparse(st))
        elif isinstance(st, ast.Assert):
            if not self._expr(st.test, env):
                raise Raised("AssertionError")
        elif isinstance(st, ast.Try):
            try:
                self._block(st.body, env)
            except Raised as ex_:
                if not st.handlers:
                    raise
                h_ = st.handlers[0]
                if h_.name:
                    env[h_.name] = getattr(ex_, "what", str(ex_))     # `except ... as e`: bound to the description of what was raised
                try:
                    self._block(h_.body, env)
                finally:
                    if h_.name:
                        env.pop(h_.name, None)                      # and unbound when the handler ends, as Python 3 does
            else:
                self._block(st.orelse, env)
            self._block(st.finalbody, env)
        elif isinstance(st, ast.Global):
            env.setdefault("\0globals", set()).update(st.names)
        elif isinstance(st, ast.Delete):
            for t in st.targets:
                if isinstance(t, ast.Subscript):
                    base = self._expr(t.value, env)
                    key = self._expr(t.slice, env)
                    if not isinstance(base, (dict, list)):
                        raise Unsupported("del on " + type(base).__name__)
                    try:
                        del base[key]
                    except (KeyError, IndexError) as ex:
                        raise Raised(type(ex).__name__)
                elif isinstance(t, ast.Name) and t.id in env:
                    del env[t.id]
                else:
                    raise Unsupported("del " + ast.unparse(t)[:30])
        elif isinstance(st, ast.FunctionDef) and not st.decorator_list:
            # a nested function: a callable that interprets its body with the enclosing locals visible (read at call time, as a closure)
            outer = self

            def closure(*a, _node=st, _env=env, **k):
                scope = dict(outer.genv)
                scope.update({k_: v_ for k_, v_ in _env.items() if not k_.startswith("\0")})
                ev = Evaluator(_node, globals_env=scope, call_hook=outer.call_hook, max_steps=outer.max_steps, obj_types=outer.obj_types,
                               attr_hook=outer.attr_hook, name_hook=outer.name_hook)
                return ev.call(*a, **k)
            env[st.name] = closure
        else:
            raise Unsupported(f"statement {type(st).__name__}")

    def _assign(self, t, v, env):
        if isinstance(t, ast.Name):
            if t.id in env.get("\0globals", ()):
                self.genv[t.id] = v
            else:
                env[t.id] = v
        elif isinstance(t, (ast.Tuple, ast.List)):
            vals = list(v)
            if len(vals) != len(t.elts):
                raise Raised("ValueError unpack")
            for e, x in zip(t.elts, vals):
                self._assign(e, x, env)
        elif isinstance(t, ast.Subscript):
            self._expr(t.value, env)[self._expr(t.slice, env)] = v
        elif isinstance(t, ast.Attribute):
            base = self._expr(t.value, env)
            if not (self.obj_types and isinstance(base, self.obj_types)):
                raise Unsupported(f"attribute store {ast.unparse(t)}")
            try:
                object.__setattr__(base, t.attr, v)
            except AttributeError:
                raise Unsupported(f"attribute store {ast.unparse(t)} (read-only in the stand-in)")
        else:
            raise Unsupported(f"assignment target {type(t).__name__}")

    def _expr(self, e, env):
        self._tick()
        if isinstance(e, ast.Constant):
            return e.value
        if isinstance(e, ast.Name):
            if e.id in env:
                return env[e.id]
            if e.id in self.genv:
                return self.genv[e.id]
            if e.id in SAFE_BUILTINS:
                return SAFE_BUILTINS[e.id]
            if self.name_hook is not None:
                return self.name_hook(e.id)
            raise Unsupported(f"unknown name {e.id}")
        if isinstance(e, ast.BoolOp):
            if isinstance(e.op, ast.And):
                v = True
                for x in e.values:
                    v = self._expr(x, env)
                    if not v:
                        return v
                return v
            v = False
            for x in e.values:
                v = self._expr(x, env)
                if v:
                    return v
            return v
        if isinstance(e, ast.UnaryOp):
            v = self._expr(e.operand, env)
            if isinstance(e.op, ast.Not):
                return not v
            if isinstance(e.op, ast.USub):
                return -v
            if isinstance(e.op, ast.Invert):
                return ~v
            return +v
        if isinstance(e, ast.BinOp):
            try:
                return BINOPS[type(e.op)](self._expr(e.left, env), self._expr(e.right, env))
            except (ZeroDivisionError, TypeError, ValueError) as ex:
                raise Raised(type(ex).__name__)
        if isinstance(e, ast.Compare):
            left = self._expr(e.left, env)
            for op, r in zip(e.ops, e.comparators):
                right = self._expr(r, env)
                try:
                    if not CMPOPS[type(op)](left, right):
                        return False
                except TypeError:
                    raise Raised("TypeError")
                left = right
            return True
        if isinstance(e, ast.IfExp):
            return self._expr(e.body if self._expr(e.test, env) else e.orelse, env)
        if isinstance(e, (ast.Tuple, ast.List, ast.Set)):
            vals = []
            for x in e.elts:
                if isinstance(x, ast.Starred):
                    vals.extend(list(self._expr(x.value, env)))
                else:
                    vals.append(self._expr(x, env))
            return tuple(vals) if isinstance(e, ast.Tuple) else (vals if isinstance(e, ast.List) else set(vals))
        if isinstance(e, ast.Dict):
            return {self._expr(k, env): self._expr(v, env) for k, v in zip(e.keys, e.values)}
        if isinstance(e, ast.Subscript):
            base = self._expr(e.value, env)
            if isinstance(e.slice, ast.Slice):
                s = e.slice
                sl = slice(self._expr(s.lower, env) if s.lower else None, self._expr(s.upper, env) if s.upper else None,
                           self._expr(s.step, env) if s.step else None)
                return base[sl]
            try:
                return base[self._expr(e.slice, env)]
            except (KeyError, IndexError, TypeError) as ex:
                raise Raised(type(ex).__name__)
        if isinstance(e, ast.JoinedStr):
            out = ""
            for v in e.values:
                out += str(self._expr(v.value, env)) if isinstance(v, ast.FormattedValue) else v.value
            return out
        if isinstance(e, ast.Call):
            return self._call(e, env)
        if isinstance(e, ast.Attribute):
            base = self._expr(e.value, env)
            if isinstance(base, dict) and MODKEY in base:
                if e.attr in base:
                    return base[e.attr]
                if self.attr_hook is not None:
                    return self.attr_hook(base[MODKEY], e.attr)
            if self.obj_types and isinstance(base, self.obj_types) and hasattr(base, e.attr) and not callable(getattr(base, e.attr)):
                return getattr(base, e.attr)
            raise Unsupported(f"attribute {ast.unparse(e)}")
        if isinstance(e, (ast.ListComp, ast.GeneratorExp, ast.SetComp, ast.DictComp)) and not any(g.is_async for g in e.generators):
            res = []

            def gen(k, sub):
                if k == len(e.generators):
                    if isinstance(e, ast.DictComp):
                        res.append((self._expr(e.key, sub), self._expr(e.value, sub)))
                    else:
                        res.append(self._expr(e.elt, sub))
                    return
                g = e.generators[k]
                for item in self._expr(g.iter, sub):
                    self._tick()
                    inner = dict(sub)
                    self._assign(g.target, item, inner)
                    if all(self._expr(c, inner) for c in g.ifs):
                        gen(k + 1, inner)
            gen(0, dict(env))
            if isinstance(e, ast.SetComp):
                return set(res)
            if isinstance(e, ast.DictComp):
                return dict(res)
            return res
        if isinstance(e, ast.Lambda):
            params = [a.arg for a in e.args.args]
            outer = self

            def _lam(*vals):
                sub = dict(env)
                sub.update(zip(params, vals))
                return outer._expr(e.body, sub)
            return _lam
        raise Unsupported(f"expression {type(e).__name__}: {ast.unparse(e)[:60]}")

    def _call(self, e, env):
        args = []
        for a in e.args:
            if isinstance(a, ast.Starred):
                args.extend(self._expr(a.value, env))
            else:
                args.append(self._expr(a, env))
        kwargs = {k.arg: self._expr(k.value, env) for k in e.keywords}
        f = e.func
        if isinstance(f, ast.Attribute):
            # module attribute call?
            try:
                base = self._expr(f.value, env)
            except Unsupported:
                base = None
                if self.call_hook is not None:
                    return self.call_hook(ast.unparse(f), args, kwargs)
                raise
            if isinstance(base, dict) and MODKEY in base:
                if self.call_hook is not None:
                    return self.call_hook(base[MODKEY] + "." + f.attr, args, kwargs)
                raise Unsupported(f"call {ast.unparse(f)}")
            if self.obj_types and isinstance(base, self.obj_types) and hasattr(base, f.attr):
                return getattr(base, f.attr)(*args, **kwargs)
            for (ty, m) in SAFE_METHODS:
                if m == f.attr and isinstance(base, ty):
                    try:
                        return getattr(base, m)(*args, **kwargs)
                    except (ValueError, IndexError, KeyError, TypeError) as ex:
                        raise Raised(type(ex).__name__)
            raise Unsupported(f"method {f.attr} on {type(base).__name__}")
        if isinstance(f, ast.Name):
            if f.id in env and callable(env[f.id]):
                return env[f.id](*args, **kwargs)
            if f.id in self.genv and callable(self.genv[f.id]):
                return self.genv[f.id](*args, **kwargs)
            if f.id in ("str", "int", "len", "range", "abs", "min", "max", "bool", "list", "tuple", "set", "any", "all",
                        "sorted", "isinstance", "type", "dict", "float", "hex", "enumerate", "zip", "reversed", "sum", "map", "filter", "next", "iter",
                        "frozenset", "divmod", "ord", "chr", "bin", "round", "repr"):
                try:
                    return SAFE_BUILTINS[f.id](*args, **kwargs)
                except (ValueError, TypeError) as ex:
                    raise Raised(type(ex).__name__)
            if f.id == "print":
                return None
            if self.call_hook is not None:
                return self.call_hook(f.id, args, kwargs)
        raise Unsupported(f"call {ast.unparse(f)[:40]}")


def _as_load(t):
    # re-parse instead of deep-copying: analysed nodes carry _parent links to the whole module
    return ast.parse(ast.unparse(t), mode="eval").body
