"""E5 — unordered-iteration lint: where does code observe the iteration order of a set?

Local type inference marks set-valued expressions; a *site* is a construct that observes iteration order of one.
Each site gets a syntactic verdict: 'insensitive' (consumer cannot depend on the order) or 'sensitive?' (it might).
"""
import ast

from .loader import own_nodes, norm, short

SET_METHODS = {"union", "difference", "intersection", "symmetric_difference", "copy"}
INSENSITIVE_CALLS = {"sorted", "len", "sum", "min", "max", "any", "all", "set", "frozenset", "bool", "Counter"}
ORDER_CALLS = {"list", "tuple", "enumerate", "iter", "next", "zip", "map", "filter", "reversed", "deque"}
COMMUTATIVE_AUG = (ast.Add, ast.Mult, ast.BitOr, ast.BitAnd, ast.BitXor)


class SetTypes:
    """Which names / self-attributes of a function (class) hold sets, by assignment shapes only."""

    def __init__(self, project):
        self.p = project
        self._cls_attrs = {}

    def class_set_attrs(self, ci):
        if ci.qual in self._cls_attrs:
            return self._cls_attrs[ci.qual]
        assigned = {}
        self._cls_attrs[ci.qual] = set()
        for m in ci.methods.values():
            names = self.func_set_names(m, use_class=False)
            for n in own_nodes(m.node):
                if isinstance(n, (ast.Assign, ast.AnnAssign)):
                    tg = n.targets if isinstance(n, ast.Assign) else [n.target]
                    val = n.value
                    for t in tg:
                        if isinstance(t, ast.Attribute) and isinstance(t.value, ast.Name) and t.value.id == "self" and val is not None:
                            assigned.setdefault(t.attr, []).append(self.is_set_expr(val, names, set()))
        res = {a for a, vs in assigned.items() if vs and all(vs)}
        self._cls_attrs[ci.qual] = res
        return res

    def func_set_names(self, f, use_class=True):
        """Local names all of whose assignments in f are set-valued (+ params annotated Set[...])."""
        cls_attrs = self.class_set_attrs(f.cls) if (use_class and f.cls is not None) else set()
        names = set()
        a = f.node.args
        for arg in a.posonlyargs + a.args + a.kwonlyargs:
            ann = arg.annotation
            if isinstance(ann, ast.Subscript):
                ann = ann.value
            if isinstance(ann, ast.Attribute):
                ann = ast.Name(id=ann.attr, ctx=ast.Load())
            if isinstance(ann, ast.Name) and ann.id in ("Set", "set", "FrozenSet", "frozenset", "AbstractSet"):
                names.add(arg.arg)
        changed = True
        rounds = 0
        while changed and rounds < 5:
            changed = False
            rounds += 1
            assigned = {}
            for n in own_nodes(f.node):
                if isinstance(n, ast.Assign):
                    for t in n.targets:
                        if isinstance(t, ast.Name):
                            assigned.setdefault(t.id, []).append(self.is_set_expr(n.value, names, cls_attrs))
                        elif isinstance(t, (ast.Tuple, ast.List)):
                            for e in t.elts:
                                if isinstance(e, ast.Name):
                                    assigned.setdefault(e.id, []).append(False)
                elif isinstance(n, ast.AnnAssign) and isinstance(n.target, ast.Name) and n.value is not None:
                    assigned.setdefault(n.target.id, []).append(self.is_set_expr(n.value, names, cls_attrs))
                elif isinstance(n, ast.AugAssign) and isinstance(n.target, ast.Name):
                    assigned.setdefault(n.target.id, []).append(
                        n.target.id in names and isinstance(n.op, (ast.BitOr, ast.BitAnd, ast.Sub, ast.BitXor)))
                elif isinstance(n, (ast.For, ast.comprehension)):
                    for x in ast.walk(n.target):
                        if isinstance(x, ast.Name):
                            assigned.setdefault(x.id, []).append(False)
            new = {k for k, vs in assigned.items() if vs and all(vs)} | {x for x in names if x not in assigned}
            if new != names:
                names = new
                changed = True
        return names

    def _is_view(self, e, depth=0):
        """e is a dict view: d.keys() / d.items(), or a call of a project function all of whose returns are views."""
        if not isinstance(e, ast.Call):
            return False
        f = e.func
        if isinstance(f, ast.Attribute) and f.attr in ("keys", "items") and not e.args:
            return True
        name = f.attr if isinstance(f, ast.Attribute) else f.id if isinstance(f, ast.Name) else None
        if name is None or depth > 2:
            return False
        cands = [g for g in self.p.functions.values() if g.name == name]
        if not cands:
            return False
        for g in cands:
            rets = [n for n in ast.walk(g.node) if isinstance(n, ast.Return) and n.value is not None]
            if not rets or not all(self._is_view(r.value, depth + 1) for r in rets):
                return False
        return True

    def is_set_expr(self, e, names, cls_attrs):
        if isinstance(e, (ast.Set, ast.SetComp)):
            return True
        if isinstance(e, ast.Name):
            return e.id in names
        if isinstance(e, ast.Attribute) and isinstance(e.value, ast.Name) and e.value.id == "self":
            return e.attr in cls_attrs
        if isinstance(e, ast.Call):
            f = e.func
            if isinstance(f, ast.Name) and f.id in ("set", "frozenset"):
                return True
            if isinstance(f, ast.Attribute) and f.attr in SET_METHODS and f.attr != "copy":
                return True
            if isinstance(f, ast.Attribute) and f.attr == "copy":
                return self.is_set_expr(f.value, names, cls_attrs)
            return False
        if isinstance(e, ast.BinOp) and isinstance(e.op, (ast.BitOr, ast.BitAnd, ast.Sub, ast.BitXor)):
            # set algebra on dict views (d.keys() | e.keys(), also through a getter that returns a view) yields a set as well
            return self.is_set_expr(e.left, names, cls_attrs) or self.is_set_expr(e.right, names, cls_attrs) \
                or self._is_view(e.left) or self._is_view(e.right)
        if isinstance(e, ast.IfExp):
            return self.is_set_expr(e.body, names, cls_attrs) and self.is_set_expr(e.orelse, names, cls_attrs)
        return False


def _commutative_body(loop, loop_vars):
    """Loop body is an order-independent accumulation by a syntactic criterion:
    only `x op= expr` with commutative op / set.add / set.update / dict[k] = v with k the loop variable /
    min-max re-assignment / `if` over such statements, and no statement reads a variable the body writes
    (other than as the accumulation target)."""
    written = set()
    stmts = []

    def collect(body):
        for st in body:
            if isinstance(st, ast.If):
                collect(st.body)
                collect(st.orelse)
                stmts.append(("test", st.test))
            else:
                stmts.append(("stmt", st))
    collect(loop.body)
    for kind, st in stmts:
        if kind == "test":
            continue
        if isinstance(st, ast.AugAssign) and isinstance(st.op, COMMUTATIVE_AUG) and isinstance(st.target, (ast.Name, ast.Subscript, ast.Attribute)):
            if isinstance(st.op, ast.Add) and _maybe_sequence_add(st.value):
                return False     # list += [...] / str += ... : concatenation is not commutative
            written.add(norm(st.target))
            continue
        if isinstance(st, ast.Expr) and isinstance(st.value, ast.Call) and isinstance(st.value.func, ast.Attribute) \
                and st.value.func.attr in ("add", "update", "discard", "pop", "remove") :
            # set.add/update/discard; dict.pop(key, default) / set.remove(key) by *key* — order-free
            if st.value.func.attr in ("pop", "remove") and not st.value.args:
                return False
            written.add(norm(st.value.func.value))
            continue
        if isinstance(st, ast.Assign) and len(st.targets) == 1 and isinstance(st.targets[0], ast.Subscript):
            # d[k] = v with k mentioning the loop variable: one slot per element
            if any(isinstance(x, ast.Name) and x.id in loop_vars for x in ast.walk(st.targets[0].slice)):
                written.add(norm(st.targets[0].value))
                continue
            return False
        if isinstance(st, ast.Assign) and len(st.targets) == 1 and isinstance(st.value, ast.Call) and isinstance(st.value.func, ast.Name) \
                and st.value.func.id in ("min", "max") and any(norm(a) == norm(st.targets[0]) for a in st.value.args):
            written.add(norm(st.targets[0]))
            continue
        if isinstance(st, (ast.Pass, ast.Continue)):
            continue
        return False
    # calls to functions that are not known to be pure may have order-dependent side effects
    PURE = {"len", "int", "str", "min", "max", "abs", "sum", "sorted", "tuple", "list", "set", "frozenset", "bool", "float",
            "get", "count", "index", "keys", "values", "items", "startswith", "endswith", "find", "isinstance", "range",
            "add", "update", "discard", "pop", "remove"}
    for kind, st in stmts:
        for c in ast.walk(st):
            if isinstance(c, ast.Call):
                fn = c.func.id if isinstance(c.func, ast.Name) else c.func.attr if isinstance(c.func, ast.Attribute) else None
                if fn not in PURE:
                    return False
    # no statement (or test) reads what the body writes, except the accumulation itself
    for kind, st in stmts:
        reads = set()
        if kind == "stmt" and isinstance(st, ast.Expr) and isinstance(st.value, ast.Call):
            nodes = [x for a in list(st.value.args) + [k.value for k in st.value.keywords] for x in ast.walk(a)]
        else:
            nodes = ast.walk(st.value) if (kind == "stmt" and isinstance(st, (ast.AugAssign, ast.Assign))) else ast.walk(st)
        for x in nodes:
            if isinstance(x, (ast.Name, ast.Attribute, ast.Subscript)) and isinstance(getattr(x, "ctx", None), ast.Load):
                reads.add(norm(x))
        if kind == "stmt" and isinstance(st, ast.Assign) and isinstance(st.value, ast.Call) and getattr(st.value.func, "id", "") in ("min", "max"):
            reads.discard(norm(st.targets[0]))
        if reads & written:
            return False
    return True


def _maybe_sequence_add(value):
    return isinstance(value, (ast.List, ast.Tuple, ast.JoinedStr, ast.ListComp)) or \
        (isinstance(value, ast.Constant) and isinstance(value.value, str)) or \
        (isinstance(value, ast.Call) and isinstance(value.func, ast.Name) and value.func.id in ("list", "str", "tuple"))


def sites_in_function(f, st_types):
    """Yield dicts: {node, kind, consumer, verdict, set_expr} for each order-observing use of a set in f."""
    names = st_types.func_set_names(f)
    cls_attrs = st_types.class_set_attrs(f.cls) if f.cls is not None else set()

    def is_set(e):
        return st_types.is_set_expr(e, names, cls_attrs)

    out = []
    for n in own_nodes(f.node):
        if isinstance(n, (ast.For, ast.AsyncFor)) and is_set(n.iter):
            lv = {x.id for x in ast.walk(n.target) if isinstance(x, ast.Name)}
            verdict = "insensitive" if _commutative_body(n, lv) else "sensitive?"
            out.append({"node": n, "kind": "for", "consumer": "for " + norm(n.target) + " in " + norm(n.iter),
                        "verdict": verdict, "set_expr": norm(n.iter), "why": "commutative accumulation" if verdict == "insensitive" else "loop body may depend on order"})
        elif isinstance(n, (ast.ListComp, ast.GeneratorExp, ast.DictComp, ast.SetComp)):
            for g in n.generators:
                if is_set(g.iter):
                    parent = getattr(n, "_parent", None)
                    cons = _consumer_of(n)
                    if isinstance(n, (ast.SetComp, ast.DictComp)):
                        verdict, why = "insensitive", "result is a set / dict keyed per element"
                        if isinstance(n, ast.DictComp):
                            verdict, why = "sensitive?", "dict built in set iteration order (insertion order is observable)"
                    elif cons in INSENSITIVE_CALLS:
                        verdict, why = "insensitive", f"consumed by {cons}()"
                    else:
                        verdict, why = "sensitive?", f"sequence built in set iteration order (consumer {cons})"
                    out.append({"node": n, "kind": "comprehension", "consumer": f"{cons}(<comp over {norm(g.iter)}>)", "verdict": verdict,
                                "set_expr": norm(g.iter), "why": why})
        elif isinstance(n, ast.Call):
            fn = n.func
            if isinstance(fn, ast.Name) and fn.id in ORDER_CALLS and n.args and is_set(n.args[0]):
                cons = _consumer_of(n)
                if cons in INSENSITIVE_CALLS:
                    verdict, why = "insensitive", f"{fn.id}(set) immediately consumed by {cons}()"
                else:
                    verdict, why = "sensitive?", f"{fn.id}(set) materialises iteration order"
                out.append({"node": n, "kind": "call", "consumer": f"{cons + '(' if cons else ''}{fn.id}({norm(n.args[0])})", "verdict": verdict,
                            "set_expr": norm(n.args[0]), "why": why})
            elif isinstance(fn, ast.Name) and fn.id == "sorted" and n.args and is_set(n.args[0]) and any(k.arg == "key" for k in n.keywords):
                out.append({"node": n, "kind": "call", "consumer": f"sorted({norm(n.args[0])}, key=...)", "verdict": "sensitive?",
                            "set_expr": norm(n.args[0]), "why": "stable sort with a key keeps set order among ties"})
            elif isinstance(fn, ast.Attribute) and fn.attr == "join" and n.args and is_set(n.args[0]):
                out.append({"node": n, "kind": "call", "consumer": f"join({norm(n.args[0])})", "verdict": "sensitive?",
                            "set_expr": norm(n.args[0]), "why": "string built in set iteration order"})
            elif isinstance(fn, ast.Attribute) and fn.attr == "pop" and not n.args and is_set(fn.value):
                out.append({"node": n, "kind": "call", "consumer": f"{norm(fn.value)}.pop()", "verdict": "sensitive?",
                            "set_expr": norm(fn.value), "why": "set.pop() returns an arbitrary element"})
            elif isinstance(fn, ast.Attribute) and fn.attr in ("extend",) and n.args and is_set(n.args[0]):
                out.append({"node": n, "kind": "call", "consumer": f"extend({norm(n.args[0])})", "verdict": "sensitive?",
                            "set_expr": norm(n.args[0]), "why": "list extended in set iteration order"})
        elif isinstance(n, ast.AugAssign) and isinstance(n.op, ast.Add) and is_set(n.value) and not is_set(n.target):
            out.append({"node": n, "kind": "augadd", "consumer": f"{norm(n.target)} += {norm(n.value)}", "verdict": "sensitive?", "set_expr": norm(n.value),
                        "why": "sequence extended in set iteration order"})
        elif isinstance(n, ast.BinOp) and isinstance(n.op, ast.Add) and (is_set(n.right) != is_set(n.left)) and \
                (isinstance(n.left, (ast.List, ast.Name)) or isinstance(n.right, (ast.List, ast.Name))) and \
                any(isinstance(x, ast.Call) and getattr(x.func, "id", "") in ("list", "tuple") for x in (n.left, n.right)):
            pass
        elif isinstance(n, ast.Starred) and is_set(n.value):
            out.append({"node": n, "kind": "star", "consumer": f"*{norm(n.value)}", "verdict": "sensitive?", "set_expr": norm(n.value),
                        "why": "unpacking in set iteration order"})
    return out


def _consumer_of(n):
    p = getattr(n, "_parent", None)
    if isinstance(p, ast.Call) and isinstance(p.func, ast.Name) and n in p.args:
        return p.func.id
    if isinstance(p, ast.Call) and isinstance(p.func, ast.Attribute) and n in p.args:
        return p.func.attr
    if isinstance(p, ast.Compare):
        return "=="
    return ""
