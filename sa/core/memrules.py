"""Abstract evaluation of the memory / storage simplifications (load forwarding, dead-store and store-of-load elimination).

simplify_memory rewrites the *sequence of accesses* of a block: it deletes stores that are overwritten, deletes stores that
write back what was just loaded, and replaces loads by the value stored before.  Whether that is sound depends on which
accesses may alias — exactly the question are_dependent answers (C02.a) — and on deleting the right element.

The function's AST is interpreted (sa.core.interp; nothing of the repository is imported or run by CPython) on every access
sequence of a finite family: up to N accesses over a few symbolic and constant addresses and values; stored values may be
results of earlier loads.  The sequence before and after is then executed by a reference memory model under every assignment
of a grid of addresses to the symbolic address variables (equal, overlapping by 1 / 31 bytes, adjacent, far apart), with
*symbolic bytes* as contents (two different values differ in every byte; initial memory is unknown and distinct everywhere).
Observed: the final memory / storage, what every hash reads, and what every load's result variable denotes.

Bounded refutation over a finite family, not a proof.
"""
import itertools

from .loader import AnalysisError

WORD = 32


def is_int(s):
    try:
        int(s)
        return True
    except (TypeError, ValueError):
        return False


# -- reference model -------------------------------------------------------------------------------------------------------
class Ref:
    def __init__(self, location, sigma, loads_of):
        self.loc = location
        self.sigma = sigma            # address/value variable -> int (addresses) ; values are symbolic
        self.mem = {}
        self.results = {}             # u-var -> value (tuple of 32 byte tokens)
        self.loads_of = loads_of      # access name ('mload0') -> u-var

    def addr(self, a):
        if is_int(a):
            return int(a)
        if a in self.sigma:
            return self.sigma[a]
        raise ValueError(f"address {a!r} is not a constant, an input or a known variable")

    def value(self, v):
        if v in self.results:
            return self.results[v]
        if is_int(v):
            n = int(v) % (1 << 256)
            return tuple(("c", (n >> (8 * (WORD - 1 - j))) & 0xFF) for j in range(WORD))
        if isinstance(v, str) and v.startswith("s("):
            return tuple(("in", v, j) for j in range(WORD))
        raise ValueError(f"value {v!r} is not defined at this point (a load result that no access produces)")

    def byte(self, a):
        return self.mem.get(a, ("init", a))

    def run(self, seq, observe):
        for elem in seq:
            t = elem[0]
            name = t[-1]
            if self.loc == "memory":
                if name.startswith("mstore8"):
                    self.mem[self.addr(t[0])] = self.value(t[1])[WORD - 1]
                elif name.startswith("mstore"):
                    a, v = self.addr(t[0]), self.value(t[1])
                    for j in range(WORD):
                        self.mem[a + j] = v[j]
                elif name.startswith("mload"):
                    a = self.addr(t[0])
                    self.results[self.loads_of[name]] = tuple(self.byte(a + j) for j in range(WORD))
                elif name.startswith("keccak"):
                    a = self.addr(t[0])
                    ln = int(t[1]) if is_int(t[1]) else self.sigma.get(t[1], WORD)
                    observe[name] = tuple(self.byte(a + j) for j in range(ln))
                else:
                    raise ValueError(f"unexpected access {name}")
            else:
                if name.startswith("sstore"):
                    self.mem[self.addr(t[0])] = self.value(t[1])
                elif name.startswith("sload"):
                    self.results[self.loads_of[name]] = self.mem.get(self.addr(t[0]), ("init", self.addr(t[0])))
                elif name.startswith("keccak"):
                    pass
                else:
                    raise ValueError(f"unexpected access {name}")


# -- families ----------------------------------------------------------------------------------------------------------------
def sequences(location, max_len, addrs, vals, with_byte_store=False, with_hash=True):
    """All access sequences up to max_len.  Loads are numbered; a store's value may be an input, a constant or an earlier load."""
    st, ld = ("mstore", "mload") if location == "memory" else ("sstore", "sload")

    def extend(seq, n_loads, n_hash):
        yield seq
        if len(seq) == max_len:
            return
        values = list(vals) + [f"u{k}" for k in range(n_loads)]
        for a in addrs:
            for v in values:
                yield from extend(seq + [((a, v, st), 2)], n_loads, n_hash)
                if with_byte_store and location == "memory":
                    yield from extend(seq + [((a, v, "mstore8"), 2)], n_loads, n_hash)
            yield from extend(seq + [((a, f"{ld}{n_loads}"), 1)], n_loads + 1, n_hash)
            if with_hash and location == "memory":
                yield from extend(seq + [((a, str(WORD), f"keccak256{n_hash}"), 2)], n_loads, n_hash + 1)
    for s in extend([], 0, 0):
        if len(s) >= 2:
            yield s


def windows(location, mid_len, addrs, vals, with_hash=True):
    """Forwarding windows: store(A, s(2)) ; <every sequence of exactly mid_len accesses> ; load(A).  The exhaustive families stop at 3-4
    accesses; a forwarding rule that looks at what lies between the store and the load (and pardons some of it) needs a longer window
    to go wrong: an unrelated load, a hash, and an overwriting store before the load that is forwarded."""
    st, ld = ("mstore", "mload") if location == "memory" else ("sstore", "sload")
    A = addrs[0]

    def extend(seq, n_loads, n_hash, left):
        if left == 0:
            yield seq + [((A, f"{ld}{n_loads}"), 1)]
            return
        values = list(vals) + [f"u{k}" for k in range(n_loads)]
        for a in addrs:
            for v in values:
                yield from extend(seq + [((a, v, st), 2)], n_loads, n_hash, left - 1)
            yield from extend(seq + [((a, f"{ld}{n_loads}"), 1)], n_loads + 1, n_hash, left - 1)
            if with_hash and location == "memory":
                yield from extend(seq + [((a, str(WORD), f"keccak256{n_hash}"), 2)], n_loads, n_hash + 1, left - 1)
    yield from extend([((A, "s(2)", st), 2)], 0, 0, mid_len)


GRID = [0, 1, 31, 32, 33, 64, 500]


def assignments(seq):
    syms = sorted({e[0][0] for e in seq if not is_int(e[0][0])})
    for vals in itertools.product(GRID, repeat=len(syms)):
        yield dict(zip(syms, vals))


def show(seq):
    return " ; ".join(f"{e[0][-1]}({', '.join(map(str, e[0][:-1]))})" for e in seq)


# -- engine ------------------------------------------------------------------------------------------------------------------
class MemEngine:
    def __init__(self, ctx, entry, module, args=None):
        from .interp import ModuleInterp
        self.mi = ModuleInterp(ctx, max_steps=400000)
        self.entry = ctx.func(entry)
        self.env = self.mi.module_env(module)
        self.args = args or (lambda work, location: (work, [], location))     # how the function under examination takes the sequence

    def run(self, seq, location):
        """None if the sequence is left alone; else {"rules": [...], "mismatch": None | {...}}."""
        from .minieval import Unsupported, Raised
        before = [(tuple(e[0]), e[1]) for e in seq]
        work = [(tuple(e[0]), e[1]) for e in seq]
        loads = [e for e in before if e[0][-1].startswith(("mload", "sload"))]
        loads_of = {e[0][-1]: f"u{k}" for k, e in enumerate(loads)}
        u_dict = {f"u{k}": e for k, e in enumerate(loads)}
        vc = {f"o{k}": f"u{k}" for k in range(len(loads))}
        self.env.update(extra_dep_info={}, debug=False, u_dict=u_dict, variable_content=dict(vc), gas_store_op=0, gas_memory_op=0, discount_op=0, rule_applied=False,
                        rules_applied=[], memory_opt=[False] * 3, storage_opt=[False] * 3, mem_delete_pos=[], sto_delete_pos=[], non_aliasing_disabled=False)
        try:
            self.env.update(memory_order=[], storage_order=[])
            self.mi.call(self.entry, *self.args(work, location))
        except Raised as e:
            return {"rules": list(self.env["rules_applied"]), "mismatch": {"kind": "raises", "what": str(e)}}
        except Unsupported as e:
            if "step" in str(e):
                return {"rules": list(self.env["rules_applied"]), "mismatch": {"kind": "diverges", "what": str(e)}}
            raise AnalysisError(f"memory simplification: cannot interpret {self.entry.name} on [{show(seq)}]: {e}")
        self.last = {"before": before, "after": list(work), "discount": self.env.get("discount_op", 0)}
        if work == before:
            return None
        fired = list(self.env["rules_applied"])
        vc_after = dict(self.env["variable_content"])
        for sigma in assignments(before):
            ob, oa = {}, {}
            rb = Ref(location, sigma, loads_of)
            rb.run(before, ob)
            ra = Ref(location, sigma, loads_of)
            try:
                ra.run(work, oa)
                after_vals = {o: ra.value(vc_after[o]) for o in vc}
            except ValueError as e:
                return {"rules": fired, "mismatch": {"kind": "ill-formed-result", "what": str(e), "after": show(work)}}
            what = None
            diff = sorted(a for a in set(rb.mem) | set(ra.mem) if rb.byte(a) != ra.byte(a))
            if diff:
                what = f"final {location} differs at {'address' if location == 'memory' else 'key'} {diff[0]}"
            elif any(ob[k] != oa.get(k) for k in ob):
                k = [k for k in ob if ob[k] != oa.get(k)][0]
                what = f"{k} hashes different bytes" if k in oa else f"{k} disappeared"
            else:
                for o in vc:
                    if rb.results[vc[o]] != after_vals[o]:
                        what = f"the result of {[n for n, u in loads_of.items() if u == vc[o]][0]} denotes a different word (now `{vc_after[o]}`)"
                        break
            if what:
                return {"rules": fired, "mismatch": {"kind": "value", "what": what, "addresses": sigma, "after": show(work)}}
        return {"rules": fired, "mismatch": None}


def examine(eng, location, seqs):
    stats = {"sequences": 0, "rewritten": 0}
    fails = []
    for s in seqs:
        stats["sequences"] += 1
        r = eng.run(s, location)
        if r is None:
            continue
        stats["rewritten"] += 1
        if r["mismatch"]:
            fails.append((show(s), r))
    return stats, fails


_W = {}


def _worker(args):
    root, overlay, entry, module, location, params, lo, step = args
    if "eng" not in _W:
        from .ctx import Ctx
        _W["eng"] = MemEngine(Ctx(root, overlay=overlay), entry, module)
    fam = windows(location, *params[1:]) if params and params[0] == "windows" else sequences(location, *params)
    return examine(_W["eng"], location, itertools.islice(fam, lo, None, step))


def examine_parallel(ctx, entry, module, location, params, jobs=16):
    from concurrent.futures import ProcessPoolExecutor
    overlay = getattr(ctx.p, "_overlay", None)
    tasks = [(ctx.root, overlay, entry, module, location, params, i, jobs * 4) for i in range(jobs * 4)]
    tot = {"sequences": 0, "rewritten": 0}
    fails = []
    with ProcessPoolExecutor(max_workers=jobs) as ex:
        for st, fl in ex.map(_worker, tasks):
            for k in tot:
                tot[k] += st[k]
            fails += fl
    return tot, fails
