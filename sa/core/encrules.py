"""Abstract evaluation of the constraint generators of the Max-SMT encoding on a small instance.

A constraint generator is a function from positions / instruction codes (theta values) / bounds to formulas built with the
connector factory.  Its AST is interpreted (sa.core.interp) with stand-ins for the term factory (t_j, l_theta, theta values are
opaque atoms), the bounds object and the assertion classes; the connector factory itself is the one the module builds (C18's
evaluated registry, simplifiers included).  The resulting formulas are then evaluated, as a conjunction, under *every* assignment
of instruction codes to a few positions (and of positions to the l-variables) and compared with the meaning the generator is
documented to have.  The instance is tiny (3-4 positions, 3 codes) but exhaustive: a generator whose formula differs from its
meaning on such an instance is wrong; one that agrees here can still be wrong on larger instances (bounded refutation).
"""
import itertools

from .loader import AnalysisError


class T:
    """opaque term of the encoding: t_j, l_theta, a theta value"""
    def __init__(self, name, const=None):
        self.name, self.const = name, const

    def __eq__(self, o):
        return isinstance(o, T) and o.name == self.name

    def __hash__(self):
        return hash(self.name)

    def __repr__(self):
        return self.name


class SF:
    def t(self, i):
        return T(f"t_{i}")

    def l(self, th):
        return T(f"l_{th}")

    def a(self, i):
        return T(f"a_{i}")

    def theta_value(self, th):
        return T(f"theta_{th}", const=th)


class Bounds:
    def __init__(self, lb, ub, first=0, last=None):
        self.lb, self.ub = lb, ub
        self.first_position_sequence = first
        self.last_position_sequence = last if last is not None else max(ub.values())

    def lower_bound_theta_value(self, th):
        return self.lb[th]

    def upper_bound_theta_value(self, th):
        return self.ub[th]


class Hard:
    def __init__(self, formula):
        self.formula = formula


def make_interp(ctx):
    from .interp import ModuleInterp
    from ..rules import C18
    _, REG = C18.evaluated_registry(ctx)
    mi = ModuleInterp(ctx, obj_types=(T, SF, Bounds, Hard, C18.FakeConn, C18._FakeRegistry, C18.Atom), max_steps=400000,
                      extern={"AssertHard": Hard, "AssertSoft": lambda f, w=1, g=None: Hard(f)})
    mi.module_env(C18.CF)["_connectors"] = REG
    return mi


def value(f, asg):
    """truth value / integer value of a formula under asg: term name -> value"""
    from ..rules.C18 import FakeConn
    if isinstance(f, bool) or isinstance(f, int):
        return f
    if isinstance(f, T):
        return f.const if f.const is not None else asg[f.name]
    if isinstance(f, Hard):
        return value(f.formula, asg)
    if isinstance(f, FakeConn):
        a = [value(x, asg) for x in f.arguments]
        n = f.connector_name
        if n == "and":
            return all(a)
        if n == "or":
            return any(a)
        if n == "not":
            return not a[0]
        if n == "=>":
            return (not a[0]) or a[1]
        if n == "=":
            return all(x == a[0] for x in a)
        if n == "distinct":
            return len(set(a)) == len(a)
        if n == "<":
            return a[0] < a[1]
        if n == "<=":
            return a[0] <= a[1]
    raise AnalysisError(f"encoding formula {f!r} cannot be evaluated")


def conj(formulas, asg):
    return all(value(f, asg) for f in formulas if f is not None)


def t_assignments(positions, codes):
    names = [f"t_{j}" for j in positions]
    for vals in itertools.product(codes, repeat=len(names)):
        yield dict(zip(names, vals))


# -- stack transition relation of the per-instruction encoders ----------------------------------------------------------------
class SFStack(SF):
    def u(self, i, j):
        return T(f"u_{i}_{j}")

    def x(self, i, j):
        return T(f"x_{i}_{j}")

    def stack_var(self, v):
        return T(f"term_{v}", const=v)

    def empty(self):
        return T("empty", const="E")


def machine_step(kind, stack, bs, p):
    """reference stack machine (top of the stack first); None = instruction not applicable"""
    if kind == "push":
        return [p["v"]] + stack if len(stack) < bs else None
    if kind == "dup":
        return [stack[p["k"] - 1]] + stack if len(stack) >= p["k"] and len(stack) < bs else None
    if kind == "swap":
        k = p["k"]
        if len(stack) <= k:
            return None
        s = list(stack)
        s[0], s[k] = s[k], s[0]
        return s
    if kind == "pop":
        return stack[1:] if stack else None
    if kind == "nop":
        return list(stack)
    if kind == "fn":
        n = len(p["o"])
        if stack[:n] != list(p["o"]) or len(stack) - n + 1 > bs:
            return None
        return [p["r"]] + stack[n:]
    if kind == "comm":
        if stack[:2] not in ([p["o0"], p["o1"]], [p["o1"], p["o0"]]):
            return None
        return [p["r"]] + stack[2:]
    if kind == "store":
        return stack[2:] if stack[:2] == [p["o0"], p["o1"]] else None
    if kind == "popu":
        return stack[1:] if stack[:1] == [p["o0"]] else None
    raise AnalysisError(kind)


def states(bs, dom, empty_variant):
    """all (assignment fragment for time j, well-formed?, stack) over bs slots"""
    if empty_variant:
        for xs in itertools.product(list(dom) + ["E"], repeat=bs):
            h = next((i for i, v in enumerate(xs) if v == "E"), bs)
            wf = all(v == "E" for v in xs[h:])
            yield {"x": xs}, wf, list(xs[:h])
    else:
        for us in itertools.product((True, False), repeat=bs):
            h = next((i for i, v in enumerate(us) if not v), bs)
            wf = not any(us[h:])
            for xs in itertools.product(dom, repeat=bs):
                yield {"u": us, "x": xs}, wf, list(xs[:h])


def as_assignment(st, j, bs):
    a = {}
    for i in range(bs):
        a[f"x_{i}_{j}"] = st["x"][i]
        if "u" in st:
            a[f"u_{i}_{j}"] = st["u"][i]
    return a


def check_transition(formula, kind, params, bs, dom, empty_variant, extra_asg=None):
    """-> None or (problem kind, description).  The encoder's formula for position 0 -> 1 with t_0 = theta."""
    posts = list(states(bs, dom, empty_variant))
    n = 0
    for pre, wf, stack in states(bs, dom, empty_variant):
        if not wf:
            continue
        want = machine_step(kind, stack, bs, params)
        found = False
        base = dict(as_assignment(pre, 0, bs), t_0="theta")
        base.update(extra_asg or {})
        for post, pwf, pstack in posts:
            n += 1
            asg = dict(base, **as_assignment(post, 1, bs))
            if value(formula, asg):
                if want is None:
                    return "admits-inapplicable", f"with the stack {stack} the instruction is not applicable, but the constraint admits the next state {pstack if pwf else post}", n
                if not pwf or pstack != want:
                    return "admits-wrong-successor", f"from the stack {stack} the constraint admits the next state {pstack if pwf else post} instead of {want}", n
                found = True
        if want is not None and not found:
            return "excludes-the-successor", f"from the stack {stack} no next state satisfies the constraint (the instruction should give {want})", n
    return None, None, n
