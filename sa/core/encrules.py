"""Abstract evaluation of the constraint generators of the Max-SMT encoding on a small instance.

A constraint generator is a function from positions / instruction codes (theta values) / bounds to formulas built with the
connector factory.  Its AST is interpreted (sa.core.interp) with stand-ins for the term factory (t_j, l_theta, theta values are
opaque atoms), the bounds object and the assertion classes; the connector factory itself is the one the module builds (C18's
evaluated registry, simplifiers included).  The resulting formulas are then evaluated, as a conjunction, under *every* assignment
of instruction codes to a few positions (and of positions to the l-variables) and compared with the meaning the generator is
documented to have.  The instance is tiny (3-4 positions, 3 codes) but exhaustive: a generator whose formula differs from its
meaning on such an instance is wrong; one that agrees here can still be wrong on larger instances (bounded refutation).
"""
import itertools

from .loader import AnalysisError


class T:
    """opaque term of the encoding: t_j, l_theta, a theta value"""
    def __init__(self, name, const=None):
        self.name, self.const = name, const

    def __eq__(self, o):
        return isinstance(o, T) and o.name == self.name

    def __hash__(self):
        return hash(self.name)

    def __repr__(self):
        return self.name


class SF:
    def t(self, i):
        return T(f"t_{i}")

    def l(self, th):
        return T(f"l_{th}")

    def a(self, i):
        return T(f"a_{i}")

    def theta_value(self, th):
        return T(f"theta_{th}", const=th)


class Bounds:
    def __init__(self, lb, ub, first=0, last=None):
        self.lb, self.ub = lb, ub
        self.first_position_sequence = first
        self.last_position_sequence = last if last is not None else max(ub.values())

    def lower_bound_theta_value(self, th):
        return self.lb[th]

    def upper_bound_theta_value(self, th):
        return self.ub[th]


class Hard:
    def __init__(self, formula):
        self.formula = formula


def make_interp(ctx):
    from .interp import ModuleInterp
    from ..rules import C18
    _, REG = C18.evaluated_registry(ctx)
    mi = ModuleInterp(ctx, obj_types=(T, SF, Bounds, Hard, C18.FakeConn, C18._FakeRegistry, C18.Atom), max_steps=400000,
                      extern={"AssertHard": Hard, "AssertSoft": lambda f, w=1, g=None: Hard(f)})
    mi.module_env(C18.CF)["_connectors"] = REG
    return mi


def value(f, asg):
    """truth value / integer value of a formula under asg: term name -> value"""
    from ..rules.C18 import FakeConn
    if isinstance(f, bool) or isinstance(f, int):
        return f
    if isinstance(f, T):
        return f.const if f.const is not None else asg[f.name]
    if isinstance(f, Hard):
        return value(f.formula, asg)
    if isinstance(f, FakeConn):
        a = [value(x, asg) for x in f.arguments]
        n = f.connector_name
        if n == "and":
            return all(a)
        if n == "or":
            return any(a)
        if n == "not":
            return not a[0]
        if n == "=>":
            return (not a[0]) or a[1]
        if n == "=":
            return all(x == a[0] for x in a)
        if n == "distinct":
            return len(set(a)) == len(a)
        if n == "<":
            return a[0] < a[1]
        if n == "<=":
            return a[0] <= a[1]
    raise AnalysisError(f"encoding formula {f!r} cannot be evaluated")


def conj(formulas, asg):
    return all(value(f, asg) for f in formulas if f is not None)


def t_assignments(positions, codes):
    names = [f"t_{j}" for j in positions]
    for vals in itertools.product(codes, repeat=len(names)):
        yield dict(zip(names, vals))
