"""Small syntactic/flow helpers shared by the E7 (must-pass-through) rules."""
import ast

from .loader import own_nodes


def call_name(call):
    f = call.func
    if isinstance(f, ast.Name):
        return f.id
    if isinstance(f, ast.Attribute):
        return f.attr
    return None


def calls_in(node, name=None):
    out = []
    for n in ast.walk(node):
        if isinstance(n, ast.Call) and (name is None or call_name(n) == name):
            out.append(n)
    return out


def names_in(node, ctx=None):
    return [n for n in ast.walk(node) if isinstance(n, ast.Name) and (ctx is None or isinstance(n.ctx, ctx))]


def target_names(target):
    """Names bound by an assignment target (flat, in order; None for non-name slots)."""
    if isinstance(target, ast.Name):
        return [target.id]
    if isinstance(target, (ast.Tuple, ast.List)):
        out = []
        for e in target.elts:
            if isinstance(e, ast.Name):
                out.append(e.id)
            elif isinstance(e, ast.Starred) and isinstance(e.value, ast.Name):
                out.append(e.value.id)
            else:
                out.append(None)
        return out
    return [None]


def stmt_binds(stmt):
    """All simple names a statement (re)binds (assignment, augmented, for target, with-as, import)."""
    out = set()
    if isinstance(stmt, ast.Assign):
        for t in stmt.targets:
            for n in ast.walk(t):
                if isinstance(n, ast.Name) and isinstance(n.ctx, ast.Store):
                    out.add(n.id)
    elif isinstance(stmt, (ast.AugAssign, ast.AnnAssign)):
        if isinstance(stmt.target, ast.Name):
            out.add(stmt.target.id)
    elif isinstance(stmt, (ast.For, ast.AsyncFor)):
        for n in ast.walk(stmt.target):
            if isinstance(n, ast.Name):
                out.add(n.id)
    elif isinstance(stmt, (ast.With, ast.AsyncWith)):
        for it in stmt.items:
            if it.optional_vars is not None:
                for n in ast.walk(it.optional_vars):
                    if isinstance(n, ast.Name):
                        out.add(n.id)
    elif isinstance(stmt, ast.ExceptHandler):
        if stmt.name:
            out.add(stmt.name)
    for n in ast.walk(stmt) if not isinstance(stmt, (ast.FunctionDef, ast.ClassDef)) else []:
        if isinstance(n, ast.NamedExpr) and isinstance(n.target, ast.Name):
            out.add(n.target.id)
    return out


def node_binds(cfg_node):
    a = cfg_node.ast
    if a is None:
        return set()
    if cfg_node.kind == "iter":
        return {n.id for n in ast.walk(a.target) if isinstance(n, ast.Name)}
    if cfg_node.kind == "handler":
        return {a.name} if a.name else set()
    if cfg_node.kind == "test":
        return {n.target.id for n in ast.walk(a) if isinstance(n, ast.NamedExpr) and isinstance(n.target, ast.Name)}
    if isinstance(a, (ast.With, ast.AsyncWith)):
        out = set()
        for it in a.items:
            if it.optional_vars is not None:
                out |= {n.id for n in ast.walk(it.optional_vars) if isinstance(n, ast.Name)}
        return out
    return stmt_binds(a)


def node_exprs(cfg_node):
    """AST sub-trees evaluated *at* this CFG node (not the nested bodies)."""
    a = cfg_node.ast
    if a is None:
        return []
    if cfg_node.kind == "iter":
        return [a.iter, a.target]
    if cfg_node.kind == "handler":
        return [a.type] if a.type is not None else []
    if isinstance(a, (ast.With, ast.AsyncWith)):
        return [it.context_expr for it in a.items]
    if isinstance(a, (ast.FunctionDef, ast.AsyncFunctionDef, ast.ClassDef)):
        return []
    return [a]


def node_calls(cfg_node, name=None):
    out = []
    for e in node_exprs(cfg_node):
        out.extend(calls_in(e, name))
    return out


def implies_truthy(test, want, name):
    """True iff (test evaluates to `want`) implies that variable `name` is truthy."""
    if isinstance(test, ast.Name):
        return want and test.id == name
    if isinstance(test, ast.UnaryOp) and isinstance(test.op, ast.Not):
        return implies_truthy_neg(test.operand, want, name)
    if isinstance(test, ast.BoolOp):
        if isinstance(test.op, ast.And):
            return any(implies_truthy(e, True, name) for e in test.values) if want else False
        else:
            return all(implies_truthy(e, True, name) for e in test.values) if want else \
                any(implies_truthy(e, False, name) for e in test.values)
    if isinstance(test, ast.Compare) and len(test.ops) == 1 and isinstance(test.left, ast.Name) and test.left.id == name:
        c = test.comparators[0]
        if isinstance(c, ast.Constant) and c.value is True and isinstance(test.ops[0], (ast.Eq, ast.Is)):
            return want
        if isinstance(c, ast.Constant) and c.value is False and isinstance(test.ops[0], (ast.Eq, ast.Is)):
            return not want
        if isinstance(c, ast.Constant) and c.value is False and isinstance(test.ops[0], (ast.NotEq, ast.IsNot)):
            return want
    return False


def implies_atom(test, want, atom):
    """True iff (test evaluates to `want`) implies the fact described by `atom`.  atom(expr, polarity) answers, for a leaf expression,
    whether `expr` evaluating to `polarity` establishes the fact (e.g. fact `x is None`: (`x is None`, True) and (`x is not None`, False))."""
    if isinstance(test, ast.UnaryOp) and isinstance(test.op, ast.Not):
        return implies_atom(test.operand, not want, atom)
    if isinstance(test, ast.BoolOp):
        if isinstance(test.op, ast.And):
            return any(implies_atom(e, True, atom) for e in test.values) if want else all(implies_atom(e, False, atom) for e in test.values)
        return all(implies_atom(e, True, atom) for e in test.values) if want else any(implies_atom(e, False, atom) for e in test.values)
    return bool(atom(test, want))


def established_by_enclosing_ifs(n, top, atom):
    """The fact `atom` holds whenever statement `n` is reached, by the `if` statements that enclose it inside `top` (the branch `n` lies in
    is taken into account: body = test true, orelse = test false; an `elif` chain nests in orelse)."""
    cur, child = getattr(n, "_parent", None), n
    while cur is not None and child is not top:
        if isinstance(cur, ast.If):
            in_body = any(child is s for s in cur.body)
            in_else = any(child is s for s in cur.orelse)
            if (in_body and implies_atom(cur.test, True, atom)) or (in_else and implies_atom(cur.test, False, atom)):
                return True
        child, cur = cur, getattr(cur, "_parent", None)
    return False


def compare_atom(name, value, equal=True):
    """atom for `implies_atom`: the variable `name` is (equal=True) / is not (equal=False) the constant `value` (None via is / ==)."""
    def atom(expr, polarity):
        if not (isinstance(expr, ast.Compare) and len(expr.ops) == 1):
            return False
        l, r, op = expr.left, expr.comparators[0], expr.ops[0]
        if isinstance(r, ast.Name) and isinstance(l, ast.Constant):
            l, r = r, l
        if not (isinstance(l, ast.Name) and l.id == name and isinstance(r, ast.Constant) and r.value == value and type(r.value) is type(value)):
            return False
        if isinstance(op, (ast.Eq, ast.Is)):
            return polarity == equal
        if isinstance(op, (ast.NotEq, ast.IsNot)):
            return polarity != equal
        return False
    return atom


def implies_truthy_neg(operand, want, name):
    # test is `not operand`; it evaluates to `want` iff operand evaluates to `not want`
    return implies_truthy(operand, not want, name)


def propagate_unverified(cfg, start, flag, neutral_pred, sink_pred):
    """Forward propagation from CFG node `start` (where `flag` gets bound by a verification call).

    State U: flag may be falsy and nothing neutralised it.  A branch edge on which `flag` is
    provably truthy stops propagation; so does a node for which neutral_pred(node) holds.
    If `flag` is re-bound by another node, tests on it no longer count (state X).
    Returns the list of nodes n with sink_pred(n) reached in an unverified state.
    """
    hits = []
    seen = set()
    work = [(s, lab, "U") for s, lab in start.succ]
    # edges out of start: start is a stmt node, labels None/exc
    while work:
        n, lab_in, st = work.pop()
        if (n.id, st) in seen:
            continue
        seen.add((n.id, st))
        if n is start:
            continue  # a fresh verification happens there
        if sink_pred(n):
            hits.append(n)
        if neutral_pred(n):
            continue
        st2 = st
        if flag in node_binds(n):
            st2 = "X"
        for s, lab in n.succ:
            if n.kind == "test" and st2 == "U" and lab in ("T", "F"):
                if implies_truthy(n.ast, lab == "T", flag):
                    continue
            work.append((s, lab, st2))
    return hits


def single_assignments(func_node):
    """name -> list of (stmt, value expr, index in tuple or None) for plain assignments in the function."""
    out = {}
    for n in own_nodes(func_node):
        if isinstance(n, ast.Assign):
            for t in n.targets:
                if isinstance(t, ast.Name):
                    out.setdefault(t.id, []).append((n, n.value, None))
                elif isinstance(t, (ast.Tuple, ast.List)):
                    for i, e in enumerate(t.elts):
                        if isinstance(e, ast.Name):
                            out.setdefault(e.id, []).append((n, n.value, i))
        elif isinstance(n, ast.AnnAssign) and isinstance(n.target, ast.Name) and n.value is not None:
            out.setdefault(n.target.id, []).append((n, n.value, None))
    return out


def is_name(node, name):
    return isinstance(node, ast.Name) and node.id == name


def same_expr(a, b):
    return ast.dump(a) == ast.dump(b)


def enclosing_try(node, func_node):
    """Innermost-first list of (Try stmt, field) such that `node` is lexically inside Try.<field>."""
    out = []
    cur = node
    while cur is not None and cur is not func_node:
        parent = getattr(cur, "_parent", None)
        if isinstance(parent, ast.Try):
            for field in ("body", "orelse", "finalbody"):
                if cur in getattr(parent, field):
                    out.append((parent, field))
        elif isinstance(parent, ast.ExceptHandler):
            pass
        cur = parent
    return out


def handler_catches_exception(h):
    if h.type is None:
        return True
    types = h.type.elts if isinstance(h.type, ast.Tuple) else [h.type]
    for t in types:
        if isinstance(t, ast.Name) and t.id in ("Exception", "BaseException"):
            return True
    return False


def reaching_defs(cfg, name, at):
    """CFG nodes binding `name` from which `at` is reachable without another binding of it
    (the entry node is included when `at` is reachable from entry with no binding at all)."""
    binders = {n for n in cfg.nodes if name in node_binds(n)}
    out = []
    for src in list(binders) + [cfg.entry]:
        seen = set()
        work = [s for s, _ in src.succ]
        found = False
        while work and not found:
            n = work.pop()
            if n is at:
                found = True
                break
            if n.id in seen:
                continue
            seen.add(n.id)
            if n in binders:
                continue
            work.extend(s for s, _ in n.succ)
        if found:
            out.append(src)
    return out
