"""Abstract evaluation of the context ("type 2") simplification rules over a finite family of term patterns.

The rules of apply_cond_transformation rewrite a *graph* of instruction records (an operation together with the operations
that consume its result), so they cannot be read off as rows (operator, operand pattern) -> result like the rule table of
apply_transform (C03.a).  Instead the function's AST is interpreted (sa.core.interp: nothing of the repository is imported or
executed by CPython) on small specifications built from term patterns over

    variables X, Y, Z;  the integer constants the function itself compares operands with;  the opcodes it tests for.

Whenever a rule fires, the term denoted by every target-stack entry before and after the rewrite is evaluated with the
reference semantics of sa.specs.evm over a grid of edge-case words; any difference refutes the rule for that pattern.
The family is finite: a pattern outside it is not examined (bounded refutation, not proof).
"""
import ast
import itertools
import re

from ..specs import evm
from .loader import AnalysisError

VARS = ("X", "Y", "Z")
VARNAME = {"X": "s(0)", "Y": "s(1)", "Z": "s(2)"}
ALIAS = {"ISZ": "ISZERO"}
OPAQUE0 = ("ORIGIN", "CALLER", "COINBASE", "ADDRESS", "SELFBALANCE")
COMM = evm.COMMUTATIVE


# -- terms -------------------------------------------------------------------------------------------------------------------
def show(t):
    if isinstance(t, tuple):
        return t[0] + ("(" + ",".join(show(c) for c in t[1:]) + ")" if len(t) > 1 else "")
    if isinstance(t, int):
        return str(t) if t < 1000 else ("2^160-1" if t == 2 ** 160 - 1 else "2^256-1" if t == evm.M else hex(t))
    return t


def parse_pattern(txt):
    """'ISZ(GT(X,0))' -> ('ISZERO', ('GT', 'X', 0)); tolerant of a missing closing parenthesis; None if not a term."""
    toks = re.findall(r"[A-Za-z_][A-Za-z_0-9]*|\d+\^\d+(?:-\d+)?|\d+|[(),]", txt.replace(" ", ""))
    pos = [0]

    def atom():
        if pos[0] >= len(toks):
            raise ValueError
        t = toks[pos[0]]
        pos[0] += 1
        if re.fullmatch(r"\d+\^\d+(?:-\d+)?", t):
            m = re.fullmatch(r"(\d+)\^(\d+)(?:-(\d+))?", t)
            return int(m.group(1)) ** int(m.group(2)) - int(m.group(3) or 0)
        if t.isdigit():
            return int(t)
        if t in "(),":
            raise ValueError
        if t in VARS:
            return t
        name = ALIAS.get(t, t)
        if pos[0] < len(toks) and toks[pos[0]] == "(":
            pos[0] += 1
            args = []
            while pos[0] < len(toks) and toks[pos[0]] != ")":
                args.append(atom())
                if pos[0] < len(toks) and toks[pos[0]] == ",":
                    pos[0] += 1
            pos[0] += 1
            return (name,) + tuple(args)
        return (name,)
    try:
        t = atom()
    except ValueError:
        return None
    return t if isinstance(t, tuple) else None


def subterms(t, path=()):
    yield path, t
    if isinstance(t, tuple):
        for i, c in enumerate(t[1:]):
            yield from subterms(c, path + (i + 1,))


def replace(t, path, new):
    if not path:
        return new
    lst = list(t)
    lst[path[0]] = replace(t[path[0]], path[1:], new)
    return tuple(lst)


def well_formed(t, arity):
    if isinstance(t, tuple):
        if t[0] not in arity or arity[t[0]] != len(t) - 1:
            return False
        return all(well_formed(c, arity) for c in t[1:])
    return True


# -- specifications ----------------------------------------------------------------------------------------------------------
def build_spec(term, extra_targets=False):
    """records (creation = post order, shared subterms once), target stack, root variable."""
    recs, memo, counter, idc = [], {}, [len(VARS)], {}

    def go(t):
        if isinstance(t, int):
            return t
        if isinstance(t, str):
            return VARNAME[t]
        if t in memo:
            return memo[t]
        ins = [go(c) for c in t[1:]]
        v = f"s({counter[0]})"
        counter[0] += 1
        k = idc.get(t[0], 0)
        idc[t[0]] = k + 1
        recs.append({"id": f"{t[0]}_{k}" if len(t) > 1 else t[0], "opcode": "00", "disasm": t[0], "inpt_sk": ins, "outpt_sk": [v], "push": False,
                     "gas": 3, "commutative": t[0] in COMM, "storage": False, "size": 1})
        memo[t] = v
        return v
    root = go(term)
    tstack = [root]
    if extra_targets:
        tstack += [r["outpt_sk"][0] for r in recs if r["outpt_sk"][0] != root]
    return recs, tstack, dict(idc)


def _balance(a):
    return (a * 0x9E3779B97F4A7C15 + 12345) % evm.W


def evaluate(v, recs, asg, depth=0):
    """Word denoted by stack element v under assignment asg (variable name -> word; opaque nullary opcode -> word)."""
    if isinstance(v, int) and not isinstance(v, bool):
        return v % evm.W
    if not isinstance(v, str):
        raise ValueError(f"stack element {v!r} is neither a word nor a variable")
    if v in asg:
        return asg[v]
    if depth > 40:
        raise ValueError("cyclic definition of " + str(v))
    prod = [r for r in recs if v in r["outpt_sk"]]
    if len(prod) != 1:
        raise ValueError(f"{v} has {len(prod)} producers")
    r = prod[0]
    op = r["disasm"]
    ins = [evaluate(x, recs, asg, depth + 1) for x in r["inpt_sk"]]
    if op in OPAQUE0:
        if ins:
            raise ValueError(f"{op} with operands")
        return _balance(asg["ADDRESS"]) if op == "SELFBALANCE" else asg[op]
    if op == "BALANCE":
        return _balance(ins[0] % 2 ** 160)
    if op not in evm.STACK_ARITY or evm.STACK_ARITY[op][0] != len(ins):
        raise ValueError(f"{op} applied to {len(ins)} operands")
    try:
        res = evm.evm_op(op, *ins)
    except Exception as e:
        raise ValueError(f"no reference semantics for {op}: {e}")
    if res is None:
        raise ValueError(f"no reference semantics for {op}")
    return res


GRID = [0, 1, 2, 3, 31, 32, 255, 256, 2 ** 160 - 1, 2 ** 160, 2 ** 255 - 1, 2 ** 255, 2 ** 255 + 1, evm.M - 1, evm.M, 0x1234567890ABCDEF]
GRID3 = [0, 1, 2, 255, 2 ** 160, 2 ** 255, evm.M, 0x1234567890ABCDEF]
OPAQUE_ASG = {"ORIGIN": 0x1111111111111111111111111111111111111111, "CALLER": 0xfffffffffffffffffffffffffffffffffffffff0,
              "COINBASE": 0x8000000000000000000000000000000000000001, "ADDRESS": 0x00000000000000000000000000000000deadbeef}


def assignments(term):
    vs = sorted({t for _, t in subterms(term) if isinstance(t, str)})
    grid = GRID if len(vs) <= 2 else GRID3
    for vals in itertools.product(grid, repeat=len(vs)):
        a = dict(OPAQUE_ASG)
        a.update({VARNAME[v]: x for v, x in zip(vs, vals)})
        yield a


def _fold(e):
    """Integer value of a constant expression (+, -, *, ** over literals), else None."""
    if isinstance(e, ast.Constant) and isinstance(e.value, int) and not isinstance(e.value, bool):
        return e.value
    if isinstance(e, ast.BinOp):
        a, b = _fold(e.left), _fold(e.right)
        if a is None or b is None:
            return None
        if isinstance(e.op, ast.Add):
            return a + b
        if isinstance(e.op, ast.Sub):
            return a - b
        if isinstance(e.op, ast.Mult):
            return a * b
        if isinstance(e.op, ast.Pow) and 0 <= b <= 300:
            return a ** b
    return None


# -- the engine --------------------------------------------------------------------------------------------------------------
class Engine:
    def __init__(self, ctx, entry, rules_fn, module, style="inplace"):
        self.style = style     # "inplace": entry(records, tstack) mutates both; "returns": entry(records, vars, tstack) -> (records, tstack)
        from .interp import ModuleInterp
        self.ctx = ctx
        self.mi = ModuleInterp(ctx, max_steps=400000)
        self.entry = ctx.func(entry)
        self.rules_fn = ctx.func(rules_fn)
        self.module = module
        self.env = self.mi.module_env(module)
        # globals the interpreted functions declare: numeric accumulators start at 0, the others get neutral values
        self.defaults = {}
        reach = ctx.r.reachable([self.entry], by_name=False)
        for q in sorted(reach):
            f = ctx.p.functions.get(q)
            if f is None or f.module.name != module:
                continue
            gl = {n for st in ast.walk(f.node) if isinstance(st, ast.Global) for n in st.names}
            for st in ast.walk(f.node):
                if isinstance(st, ast.AugAssign) and isinstance(st.target, ast.Name) and st.target.id in gl:
                    self.defaults.setdefault(st.target.id, 0)
            for n in gl:
                self.defaults.setdefault(n, None)
        self.defaults.update({"debug": False, "rule": "", "rule_applied": False})

    def vocabulary(self):
        """Opcodes and integer constants the rule function compares with."""
        ops, ints = set(), set()
        for n in ast.walk(self.rules_fn.node):
            if isinstance(n, ast.Compare):
                for c in [n.left] + n.comparators:
                    for x in ast.walk(c):
                        if isinstance(x, ast.Constant):
                            if isinstance(x.value, str) and x.value.isupper() and x.value in evm.STACK_ARITY:
                                ops.add(x.value)
                            elif isinstance(x.value, int) and not isinstance(x.value, bool) and x.value >= 0:
                                ints.add(x.value)
                        elif isinstance(x, ast.BinOp):
                            v = _fold(x)
                            if v is not None and v >= 0:
                                ints.add(v)
        return ops, ints

    def rule_names(self):
        """Pattern texts of the `msg = ...` literals (a dynamic part <opcode> is instantiated with every comparison opcode)."""
        out = []
        # the local that is copied into the global `rule` (rule = <local>) carries the name of the rule that fired
        carriers = {n.value.id for n in ast.walk(self.rules_fn.node) if isinstance(n, ast.Assign) and len(n.targets) == 1 and isinstance(n.targets[0], ast.Name)
                    and n.targets[0].id == "rule" and isinstance(n.value, ast.Name)}
        for n in ast.walk(self.rules_fn.node):
            if isinstance(n, ast.Assign) and len(n.targets) == 1 and isinstance(n.targets[0], ast.Name) and n.targets[0].id in carriers | {"rule"} \
                    and not isinstance(n.value, ast.Name):
                v = n.value
                if isinstance(v, ast.Constant) and isinstance(v.value, str):
                    out.append(v.value)
                elif isinstance(v, ast.BinOp):
                    parts = []
                    def flat(e):
                        if isinstance(e, ast.BinOp) and isinstance(e.op, ast.Add):
                            flat(e.left)
                            flat(e.right)
                        else:
                            parts.append(e)
                    flat(v)
                    if all(isinstance(p, (ast.Constant, ast.Name)) for p in parts):
                        for op in ("GT", "SGT", "LT", "SLT", "EQ"):
                            out.append("".join(p.value if isinstance(p, ast.Constant) else op for p in parts))
        return out

    def run(self, term, extra_targets=False, reverse=False):
        """-> None if no rule fired, else dict(rules=[...], mismatch=None | {...})."""
        from .minieval import Unsupported, Raised
        recs, tstack, idc = build_spec(term, extra_targets)
        if reverse:
            recs.reverse()
        before = [dict(r, inpt_sk=list(r["inpt_sk"]), outpt_sk=list(r["outpt_sk"])) for r in recs]
        tbefore = list(tstack)
        for k, v in self.defaults.items():
            self.env[k] = v
        self.env["user_def_counter"] = dict(idc)
        self.env["rules_applied"] = []
        try:
            if self.style == "inplace":
                self.mi.call(self.entry, recs, tstack)
            else:
                names = sorted({v for r in recs for v in r["inpt_sk"] + r["outpt_sk"] if isinstance(v, str)} | {v for v in tstack if isinstance(v, str)})
                res = self.mi.call(self.entry, recs, names, tstack)
                if not (isinstance(res, tuple) and len(res) == 2):
                    raise AnalysisError(f"{self.entry.name}: expected (records, target stack), got {type(res).__name__}")
                recs, tstack = res
        except Raised as e:
            return {"rules": list(self.env.get("rules_applied") or []), "mismatch": {"kind": "raises", "what": str(e)}}
        except Unsupported as e:
            if "step" in str(e):
                return {"rules": list(self.env.get("rules_applied") or []), "mismatch": {"kind": "diverges", "what": str(e)}}
            raise AnalysisError(f"context rules: cannot interpret {self.entry.name} on {show(term)}: {e}")
        fired = list(self.env.get("rules_applied") or [])

        def weight(rs, ts):
            # instructions a specification stands for, at the least: one per record its target stack needs (records no result depends on
            # are dropped later) and one PUSH per constant operand of those
            by_out = {r["outpt_sk"][0]: r for r in rs if r.get("outpt_sk")}
            live, work = [], [v for v in ts if isinstance(v, str)]
            while work:
                v = work.pop()
                r = by_out.get(v)
                if r is None or any(r is x for x in live):
                    continue
                live.append(r)
                work += [x for x in r["inpt_sk"] if isinstance(x, str)]
            return sum(1 + sum(1 for v in r["inpt_sk"] if not isinstance(v, str)) for r in live)
        self.last = {"discount": self.env.get("discount_op", 0) - (self.defaults.get("discount_op", 0) or 0), "weight_before": weight(before, tbefore),
                     "weight_after": weight(recs, tstack), "after": _dump(recs, tstack) if fired else None}
        if not fired:
            return None
        if len(tstack) != len(tbefore):
            return {"rules": fired, "mismatch": {"kind": "target-stack-length"}}
        for asg in assignments(term):
            for i, (a, b) in enumerate(zip(tbefore, tstack)):
                va = evaluate(a, before, asg)
                try:
                    vb = evaluate(b, recs, asg)
                except ValueError as e:
                    return {"rules": fired, "mismatch": {"kind": "ill-formed-result", "what": str(e), "after": _dump(recs, tstack)}}
                if va != vb:
                    inv = {v: k for k, v in VARNAME.items()}
                    return {"rules": fired, "mismatch": {"kind": "value", "target": i, "assignment": {inv.get(k, k): hex(v) for k, v in asg.items() if k in inv},
                                                         "before": hex(va), "after": hex(vb), "after_spec": _dump(recs, tstack)}}
        return {"rules": fired, "mismatch": None}


def _dump(recs, tstack):
    return {"user_instrs": [f"{r['outpt_sk'][0]} = {r['disasm']}({', '.join(map(str, r['inpt_sk']))})" for r in recs], "tgt": list(tstack)}


def perturbations(term, ops_by_arity, consts):
    """term and its single-step variants: an operator replaced by another of the same arity, two operands swapped, a constant
    replaced by another constant, a variable replaced by another variable or constant."""
    seen = {term}
    yield term
    for path, t in list(subterms(term)):
        cands = []
        if isinstance(t, tuple):
            for o in ops_by_arity.get(len(t) - 1, ()):
                if o != t[0]:
                    cands.append((o,) + t[1:])
            if len(t) == 3:
                cands.append((t[0], t[2], t[1]))
                for o in ops_by_arity.get(2, ()):
                    if o != t[0]:
                        cands.append((o, t[2], t[1]))
        elif isinstance(t, int):
            cands += [c for c in consts if c != t]
            cands += ["X"]
        else:
            cands += [v for v in VARS[:2] if v != t] + [0, 1]
        for c in cands:
            n = replace(term, path, c)
            if n not in seen:
                seen.add(n)
                yield n


# -- families and drivers ----------------------------------------------------------------------------------------------------
class Family:
    """Pattern families over the rule function's own vocabulary, restricted to type-1 normal forms (what the function can be
    handed: apply_all_simp_rules has run to a fixpoint before, and operations on constants only have been folded)."""

    def __init__(self, ctx, eng, simple_rules, dispatch_fn):
        from .interp import ModuleInterp
        self.eng = eng
        self.ops, ints = eng.vocabulary()
        self.arity = {o: evm.STACK_ARITY[o][0] for o in self.ops}
        self.by_arity = {}
        for o, a in sorted(self.arity.items()):
            self.by_arity.setdefault(a, []).append(o)
        self.consts = sorted(set(ints) | {i - 1 for i in ints if i > 2})
        self.simple = ctx.func(simple_rules)
        disp = ctx.func(dispatch_fn)
        lists = [n for n in ast.walk(disp.node) if isinstance(n, ast.Compare) and isinstance(n.ops[0], ast.In) and isinstance(n.comparators[0], ast.List)
                 and "disasm" in ast.unparse(n.left)]
        if not lists:
            raise AnalysisError(f"{dispatch_fn}: dispatch list of the type-1 rules not found")
        self.dispatched = {e.value for e in lists[0].comparators[0].elts if isinstance(e, ast.Constant)}
        self.mi = ModuleInterp(ctx)
        env = self.mi.module_env(eng.module)
        env["int_not0"] = [evm.M]
        for k in ("saved_push", "gas_saved_op", "discount_op"):
            env[k] = 0
        env.update(rule="", size_flag=False, debug=False)
        self._nf = {}

    def normal(self, term):
        from .minieval import Unsupported, Raised
        for _, t in subterms(term):
            if not isinstance(t, tuple) or len(t) == 1:
                continue
            k = (t[0],) + tuple(c if not isinstance(c, tuple) else "#" + show(c) for c in t[1:])
            if k not in self._nf:
                ins = [VARNAME.get(c, c) if not isinstance(c, tuple) else "v" + str(abs(hash(c)) % 10 ** 8) for c in t[1:]]
                ok = True
                if all(isinstance(x, int) for x in ins) and t[0] != "BALANCE":
                    ok = False
                elif t[0] in self.dispatched:
                    try:
                        ok = self.mi.call(self.simple, {"disasm": t[0], "inpt_sk": ins}) == -1
                    except (Unsupported, Raised):
                        ok = True
                self._nf[k] = ok
            if not self._nf[k]:
                return False
        return True

    def named(self, wrap_all=False):
        """The patterns named by the rule function's own messages, and their one-step perturbations; plus, for the named patterns (for
        every pattern when wrap_all), the rewritten term used twice by one consumer and by two consumers."""
        seen, out, base = set(), [], []
        for txt in self.eng.rule_names():
            p = parse_pattern(txt)
            if p is None or not well_formed(p, self.arity):
                continue
            base.append(p)
            for q in perturbations(p, self.by_arity, self.consts):
                if q not in seen and well_formed(q, self.arity):
                    seen.add(q)
                    out.append(q)
        # the rewritten term used twice by one consumer (the consumer's record names the same variable in two operand positions)
        # and by two consumers: what the rule substitutes must be substituted everywhere
        cons = [o for o in ("MUL", "ADD", "EXP") if self.arity.get(o) == 2][:1]
        for q in (list(out) if wrap_all else [b for b in base if b in seen]):
            inner = []

            def subterms(t):
                for c in t[1:]:
                    if isinstance(c, tuple):
                        inner.append(c)
                        subterms(c)
            subterms(q)
            # ... and an inner term of the pattern used twice elsewhere (the rule may re-wire that one)
            for w in [(o, q, q) for o in cons] + [(o, (o, q, "Z"), q) for o in cons] + [(o, q, (o, t, t)) for o in cons for t in inner]:
                if w not in seen and well_formed(w, self.arity):
                    seen.add(w)
                    out.append(w)
        return out

    def reducible(self, ops2=("ADD", "AND", "EQ", "LT")):
        """Terms in which a type-1 rule has something to do: op(a, b) over the atoms (one operand may be a constant), bare, used twice
        by one consumer, used by two consumers, and nested one level."""
        atoms = ["X", "Y", 0, 1, evm.M]
        disp = sorted(o for o in self.dispatched if o in evm.STACK_ARITY)
        l1 = []
        for o in disp:
            a = evm.STACK_ARITY[o][0]
            for args in itertools.product(atoms, repeat=a):
                if all(isinstance(x, int) for x in args):
                    continue
                l1.append((o,) + args)
        for t in l1:
            yield t
            for o2 in ops2:
                yield (o2, t, t)
                yield (o2, t, "Z")
                yield (o2, "Z", t)
                yield (o2, (o2, t, "Z"), t)
            yield ("ISZERO", t)
            yield ("NOT", t)

    def generic(self):
        """All terms op(a, b) and op(op'(a, b), c) / op(c, op'(a, b)) over the atoms, bare and under ISZERO, ISZERO.ISZERO, EQ(1, .)."""
        atoms = ["X", "Y"] + [c for c in self.consts if c in (0, 1, 2) or c == 2 ** 160 - 1]
        l1 = [(o,) + args for o in sorted(self.ops) for args in itertools.product(atoms, repeat=self.arity[o])]
        fam = list(l1)
        for o in sorted(self.ops):
            a = self.arity[o]
            if a == 1:
                fam += [(o, c) for c in l1]
            elif a == 2:
                for c in l1:
                    for x in atoms + ["Z"]:
                        fam.append((o, c, x))
                        fam.append((o, x, c))
        for t in fam:
            yield t
            yield ("ISZERO", t)
            yield ("ISZERO", ("ISZERO", t))
            yield ("EQ", 1, t)
            yield ("EQ", t, 1)


def examine(eng, fam, terms, variants=((False, False), (True, False), (False, True)), only_normal=True):
    """-> (stats, failures) ; failures: list of (rule, kind, pattern text, variant, mismatch)."""
    stats = {"patterns": 0, "normal": 0, "fired": 0, "by_rule": {}}
    fails = []
    for q in terms:
        stats["patterns"] += 1
        if only_normal and not fam.normal(q):
            continue
        stats["normal"] += 1
        for extra, rev in variants:
            r = eng.run(q, extra, rev)
            if r is None:
                continue
            stats["fired"] += 1
            for name in r["rules"]:
                stats["by_rule"][name] = stats["by_rule"].get(name, 0) + 1
            if r["mismatch"]:
                fails.append((r["rules"][0] if r["rules"] else "?", r["mismatch"]["kind"], show(q),
                              {"intermediate_results_in_target_stack": extra, "records_in_reverse_order": rev}, r["mismatch"], r["rules"]))
    return stats, fails


_W = {}


def _worker(args):
    root, overlay, cfg, lo, hi, step = args
    key = (root, id(overlay) if overlay else None)
    if "eng" not in _W:
        from .ctx import Ctx
        c = Ctx(root, overlay=overlay)
        eng = Engine(c, cfg["entry"], cfg["rules_fn"], cfg["module"])
        fam = Family(c, eng, cfg["simple"], cfg["dispatch"])
        _W["eng"], _W["fam"] = eng, fam
    eng, fam = _W["eng"], _W["fam"]
    terms = itertools.islice(fam.generic(), lo, None, step)
    return examine(eng, fam, terms, variants=((False, False), (True, False)))


def examine_generic_parallel(ctx, cfg, jobs=16):
    from concurrent.futures import ProcessPoolExecutor
    overlay = getattr(ctx.p, "_overlay", None)
    tasks = [(ctx.root, overlay, cfg, i, None, jobs * 4) for i in range(jobs * 4)]
    tot = {"patterns": 0, "normal": 0, "fired": 0, "by_rule": {}}
    fails = []
    with ProcessPoolExecutor(max_workers=jobs) as ex:
        for st, fl in ex.map(_worker, tasks):
            for k in ("patterns", "normal", "fired"):
                tot[k] += st[k]
            for k, v in st["by_rule"].items():
                tot["by_rule"][k] = tot["by_rule"].get(k, 0) + v
            fails += fl
    return tot, fails
