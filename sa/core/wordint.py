"""E3 — interval analysis of constant-folding expressions over the 256-bit word domain.

Operands are abstracted to [0, 2^256-1] and refined by the guards on the path (if-tests and conditional
expressions).  For every return expression the analysis reports:
  * the result interval (must stay inside the word domain),
  * true divisions / math.* calls (floats lose precision beyond 2^53),
  * divisors whose interval contains 0,
  * powers / shifts whose exponent interval is not bounded by 256 (unbounded big-integer computation).
"""
import ast
import math

WMAX = 2 ** 256 - 1
INF = math.inf


class Issue:
    def __init__(self, kind, text, node):
        self.kind = kind
        self.text = text
        self.node = node


def _const(e, consts):
    if isinstance(e, ast.Constant) and isinstance(e.value, int) and not isinstance(e.value, bool):
        return e.value
    if isinstance(e, ast.BinOp) and isinstance(e.op, ast.Pow):
        a, b = _const(e.left, consts), _const(e.right, consts)
        if a is not None and b is not None and 0 <= b <= 4096:
            return a ** b
    if isinstance(e, ast.BinOp) and isinstance(e.op, (ast.Add, ast.Sub, ast.Mult, ast.FloorDiv)):
        a, b = _const(e.left, consts), _const(e.right, consts)
        if a is not None and b is not None:
            if isinstance(e.op, ast.Add):
                return a + b
            if isinstance(e.op, ast.Sub):
                return a - b
            if isinstance(e.op, ast.Mult):
                return a * b
            if b != 0:
                return a // b
    if isinstance(e, ast.UnaryOp) and isinstance(e.op, ast.USub):
        v = _const(e.operand, consts)
        return -v if v is not None else None
    try:
        return consts.get(ast.unparse(e))
    except Exception:
        return None


def refine(env, test, want, consts):
    """Environment after assuming `test` evaluates to `want`."""
    env = dict(env)
    if isinstance(test, ast.UnaryOp) and isinstance(test.op, ast.Not):
        return refine(env, test.operand, not want, consts)
    if isinstance(test, ast.BoolOp):
        if isinstance(test.op, ast.And) and want:
            for v in test.values:
                env = refine(env, v, True, consts)
        elif isinstance(test.op, ast.Or) and not want:
            for v in test.values:
                env = refine(env, v, False, consts)
        return env
    if isinstance(test, ast.Name) and test.id in env:
        lo, hi = env[test.id]
        env[test.id] = (max(lo, 1), hi) if want else (0, 0) if lo <= 0 <= hi else (lo, hi)
        return env
    if isinstance(test, ast.Compare) and len(test.ops) == 1:
        l, r, op = test.left, test.comparators[0], type(test.ops[0])
        neg = {ast.Lt: ast.GtE, ast.LtE: ast.Gt, ast.Gt: ast.LtE, ast.GtE: ast.Lt, ast.Eq: ast.NotEq, ast.NotEq: ast.Eq}
        flip = {ast.Lt: ast.Gt, ast.LtE: ast.GtE, ast.Gt: ast.Lt, ast.GtE: ast.LtE, ast.Eq: ast.Eq, ast.NotEq: ast.NotEq}
        if op not in neg:
            return env
        if not want:
            op = neg[op]
        cl, cr = _const(l, consts), _const(r, consts)
        if isinstance(l, ast.Name) and l.id in env and cr is not None:
            name, c = l.id, cr
        elif isinstance(r, ast.Name) and r.id in env and cl is not None:
            name, c, op = r.id, cl, flip[op]
        else:
            return env
        lo, hi = env[name]
        if op is ast.Lt:
            hi = min(hi, c - 1)
        elif op is ast.LtE:
            hi = min(hi, c)
        elif op is ast.Gt:
            lo = max(lo, c + 1)
        elif op is ast.GtE:
            lo = max(lo, c)
        elif op is ast.Eq:
            lo, hi = max(lo, c), min(hi, c)
        elif op is ast.NotEq:
            if lo == c:
                lo += 1
            if hi == c:
                hi -= 1
        env[name] = (lo, hi)
    return env


def interval(e, env, consts, issues):
    """Interval of expression `e`; records Issues."""
    c = _const(e, consts)
    if c is not None:
        return (c, c)
    if isinstance(e, ast.Name):
        return env.get(e.id, (-INF, INF))
    if isinstance(e, ast.IfExp):
        a = interval(e.body, refine(env, e.test, True, consts), consts, issues)
        b = interval(e.orelse, refine(env, e.test, False, consts), consts, issues)
        return (min(a[0], b[0]), max(a[1], b[1]))
    if isinstance(e, ast.UnaryOp):
        v = interval(e.operand, env, consts, issues)
        if isinstance(e.op, ast.USub):
            return (-v[1], -v[0])
        if isinstance(e.op, ast.Invert):
            return (-v[1] - 1, -v[0] - 1)
        if isinstance(e.op, ast.Not):
            return (0, 1)
        return v
    if isinstance(e, ast.Compare) or isinstance(e, ast.BoolOp):
        for sub in ast.iter_child_nodes(e):
            if isinstance(sub, ast.expr):
                interval(sub, env, consts, issues)
        return (0, 1)
    if isinstance(e, ast.Call):
        fn = e.func.id if isinstance(e.func, ast.Name) else e.func.attr if isinstance(e.func, ast.Attribute) else None
        if isinstance(e.func, ast.Attribute) and isinstance(e.func.value, ast.Name) and e.func.value.id == "math":
            issues.append(Issue("float", f"math.{fn}(...) on word values: floats are exact only below 2^53", e))
            for a in e.args:
                interval(a, env, consts, issues)
            return (-INF, INF)
        if fn == "pow" and len(e.args) == 3:
            m = interval(e.args[2], env, consts, issues)
            interval(e.args[0], env, consts, issues)
            interval(e.args[1], env, consts, issues)
            if m[0] <= 0:
                issues.append(Issue("zero-divisor", "modulus of pow() may be 0", e))
            return (0, m[1] - 1)
        if fn in ("min", "max") and e.args:
            ivs = [interval(a, env, consts, issues) for a in e.args]
            if fn == "min":
                return (min(i[0] for i in ivs), min(i[1] for i in ivs))
            return (max(i[0] for i in ivs), max(i[1] for i in ivs))
        if fn == "int" and len(e.args) == 1:
            return interval(e.args[0], env, consts, issues)
        if fn in FUNCS and isinstance(e.func, ast.Name) and len(_CALL_STACK) < 4:
            callee = FUNCS[fn]
            params = [a.arg for a in callee.args.args]
            sel_param, sel_val, cenv = None, None, {}
            for pname, arg in zip(params, e.args):
                if isinstance(arg, ast.Constant) and isinstance(arg.value, str):
                    sel_param, sel_val = pname, arg.value
                else:
                    cenv[pname] = interval(arg, env, consts, issues)
            _CALL_STACK.append(fn)
            try:
                res = analyse_returns(callee, [], consts, selector=sel_param, base_env=cenv)
            finally:
                _CALL_STACK.pop()
            lo, hi = INF, -INF
            for sel, st, env2, iv, iss, kind in res:
                if sel_param is not None and sel != sel_val:
                    continue
                issues.extend(iss)
                if kind == "return":
                    lo, hi = min(lo, iv[0]), max(hi, iv[1])
            if lo <= hi:
                return (lo, hi)
            return (-INF, INF)
        if fn == "abs" and len(e.args) == 1:
            v = interval(e.args[0], env, consts, issues)
            return (0, max(abs(v[0]), abs(v[1])))
        return (-INF, INF)
    if isinstance(e, ast.BinOp):
        a = interval(e.left, env, consts, issues)
        b = interval(e.right, env, consts, issues)
        op = e.op
        if isinstance(op, ast.Add):
            return (a[0] + b[0], a[1] + b[1])
        if isinstance(op, ast.Sub):
            return (a[0] - b[1], a[1] - b[0])
        if isinstance(op, ast.Mult):
            cands = [x * y for x in a for y in b if not (math.isinf(x) and y == 0) and not (math.isinf(y) and x == 0)]
            return (min(cands), max(cands)) if cands else (-INF, INF)
        if isinstance(op, ast.Div):
            issues.append(Issue("float", "true division `/` on word values: floats are exact only below 2^53", e))
            if b[0] <= 0 <= b[1]:
                issues.append(Issue("zero-divisor", f"divisor `{ast.unparse(e.right)}` may be 0", e))
            return (-INF, INF)
        if isinstance(op, (ast.FloorDiv, ast.Mod)):
            if b[0] <= 0 <= b[1]:
                issues.append(Issue("zero-divisor", f"divisor `{ast.unparse(e.right)}` may be 0", e))
            if isinstance(op, ast.Mod):
                if b[0] == b[1] == WMAX + 1 and a[1] > WMAX:
                    issues.append(Issue("wrap", f"`{ast.unparse(e)}` discards multiples of 2^256 (dividend up to 2^{int(a[1]).bit_length() if not math.isinf(a[1]) else 'inf'})", e))
                if b[0] >= 0 and b[1] > 0:
                    return (0, b[1] - 1)      # the zero divisor, if possible, is reported separately
                return (-INF, INF)
            if b[0] == 0 and b[1] > 0:
                b = (1, b[1])
            if a[0] >= 0 and b[0] > 0:
                return (a[0] // b[1] if not math.isinf(b[1]) else 0, a[1] // b[0] if not math.isinf(a[1]) else INF)
            return (-INF, INF)
        if isinstance(op, ast.Pow):
            if b[1] > 256:
                issues.append(Issue("unbounded", f"`{ast.unparse(e)}`: exponent up to {b[1] if not math.isinf(b[1]) else 'unbounded'} "
                                    f"builds an arbitrarily large integer (use pow(a, b, 2**256))", e))
                return (1 if a[0] >= 1 else 0 if a[0] >= 0 else -INF, INF)
            if a[0] >= 0 and b[0] >= 0:
                return (a[0] ** b[0], a[1] ** b[1] if not math.isinf(a[1]) else INF)
            return (-INF, INF)
        if isinstance(op, ast.LShift):
            if b[1] > 256:
                issues.append(Issue("unbounded", f"`{ast.unparse(e)}`: shift amount up to {b[1] if not math.isinf(b[1]) else 'unbounded'} "
                                    f"builds an arbitrarily large integer", e))
                return (0 if a[0] >= 0 else -INF, INF)
            if a[0] >= 0 and b[0] >= 0:
                return (a[0] << int(b[0]), a[1] << int(b[1]) if not math.isinf(a[1]) else INF)
            return (-INF, INF)
        if isinstance(op, ast.RShift):
            if b[0] < 0:
                issues.append(Issue("unbounded", "negative shift amount possible", e))
            if a[0] >= 0:
                return (0, a[1])
            return (a[0], max(a[1], 0))
        if isinstance(op, (ast.BitAnd, ast.BitOr, ast.BitXor)):
            if a[0] >= 0 and b[0] >= 0:
                if isinstance(op, ast.BitAnd):
                    return (0, min(a[1], b[1]))
                top = max(a[1], b[1])
                if math.isinf(top):
                    return (0, INF)
                return (0, (1 << int(top).bit_length()) - 1)
            return (-INF, INF)
    return (-INF, INF)


FUNCS = {}          # name -> FunctionDef of project functions that folding code may call (set by the rule)
_CALL_STACK = []


def analyse_returns(func_node, params_words, consts, selector=None, base_env=None):
    """Walk a function made of if/elif chains; yield (selector value, return node, env, result interval, issues).
    `selector` is the name of the parameter compared with string literals to dispatch (e.g. 'funct')."""
    results = []
    base = {p: (0, WMAX) for p in params_words}
    if base_env:
        base.update(base_env)

    def walk(stmts, env, sel):
        for st in stmts:
            if isinstance(st, ast.If):
                lit = None
                if selector and isinstance(st.test, ast.Compare) and isinstance(st.test.left, ast.Name) and st.test.left.id == selector \
                        and isinstance(st.test.comparators[0], ast.Constant) and isinstance(st.test.ops[0], ast.Eq):
                    lit = st.test.comparators[0].value
                if lit is not None:
                    walk(st.body, env, lit)
                    walk(st.orelse, env, sel)
                else:
                    issues = []
                    interval(st.test, env, consts, issues)
                    walk(st.body, refine(env, st.test, True, consts), sel)
                    walk(st.orelse, refine(env, st.test, False, consts), sel)
                    # an if without else that returns: the fall-through continues under the negation
                    if not st.orelse and st.body and isinstance(st.body[-1], (ast.Return, ast.Raise)):
                        env = refine(env, st.test, False, consts)
            elif isinstance(st, ast.Assign) and len(st.targets) == 1 and isinstance(st.targets[0], ast.Name):
                issues = []
                iv = interval(st.value, env, consts, issues)
                env = dict(env)
                env[st.targets[0].id] = iv
                for i in issues:
                    results.append((sel, st, env, iv, [i], "assign"))
            elif isinstance(st, ast.Return) and st.value is not None:
                issues = []
                iv = interval(st.value, env, consts, issues)
                results.append((sel, st, env, iv, issues, "return"))
    walk(func_node.body, base, None)
    return results
