"""Interprocedural wrapper around the mini evaluator: abstractly evaluates *pure dispatch code* of the repository
(string tests, table look-ups, concatenations) over representative inputs chosen by the calling rule.

Module-level simple assignments are evaluated on demand to build each module's global environment; a call to a
function defined (or imported) in an analysed module is interpreted recursively from its AST.  Nothing is imported.
"""
import ast

from .loader import AnalysisError
from .minieval import Evaluator, Unsupported, Raised, MODKEY


import copy as _copy
import functools as _ft
import itertools as _it
import operator as _op
import re as _re

# pure functions of the standard library that the interpreted code may call (by dotted name as written with `import m`)
STDLIB_CALLS = {
    "itertools.chain.from_iterable": lambda it: list(_it.chain.from_iterable(it)),
    "itertools.permutations": lambda *a: list(_it.permutations(*a)),
    "itertools.takewhile": lambda f, it: list(_it.takewhile(f, it)), "itertools.dropwhile": lambda f, it: list(_it.dropwhile(f, it)),
    "itertools.chain": lambda *its: list(_it.chain(*its)), "itertools.zip_longest": lambda *a, **k: list(_it.zip_longest(*a, **k)),
    "itertools.product": lambda *a, **k: list(_it.product(*a, **k)), "itertools.count": _it.count, "itertools.repeat": _it.repeat,
    "itertools.combinations": lambda *a: list(_it.combinations(*a)), "itertools.accumulate": lambda *a, **k: list(_it.accumulate(*a, **k)),
    "copy.deepcopy": _copy.deepcopy, "copy.copy": _copy.copy,
    "functools.reduce": _ft.reduce, "traceback.print_exc": (lambda *a, **k: None), "traceback.print_tb": (lambda *a, **k: None),
    **{f"operator.{n}": getattr(_op, n) for n in ("iconcat", "concat", "add", "iadd", "sub", "mul", "and_", "or_", "not_", "eq", "ne", "lt", "le", "gt", "ge",
                                                   "contains", "getitem", "truth", "is_", "is_not", "neg")},
    "re.fullmatch": _re.fullmatch, "re.match": _re.match, "re.search": _re.search, "re.sub": _re.sub, "re.escape": _re.escape, "re.findall": _re.findall,
}
STDLIB_MODELS = {"itertools": {MODKEY: "itertools", "chain": {MODKEY: "itertools.chain"}}, "re": {MODKEY: "re"}, "copy": {MODKEY: "copy"},
                 "functools": {MODKEY: "functools"}, "traceback": {MODKEY: "traceback"}, "sys": {MODKEY: "sys", "stderr": None, "stdout": None},
                 # operator's functions are also passed as values (functools.reduce(operator.iconcat, ...)): the real, pure builtins
                 "operator": {MODKEY: "operator", **{n[len("operator."):]: f for n, f in STDLIB_CALLS.items() if n.startswith("operator.")}}}


class ModuleInterp:
    def __init__(self, ctx, obj_types=(), extern=None, max_steps=200000, inject=None):
        self.ctx = ctx
        self.inject = dict(inject or {})   # name -> value placed in every module environment (stand-ins for repository classes)
        self.env = {}           # modname -> dict
        self.obj_types = tuple(obj_types)
        self.extern = extern or {}   # name -> python callable (models of external functions)
        self.max_steps = max_steps
        self.depth = 0

    def module_env(self, modname):
        if modname in self.env:
            return self.env[modname]
        env = {}
        self.env[modname] = env
        mod = self.ctx.p.module(modname)
        for st in mod.tree.body:
            if isinstance(st, ast.Assign) and all(isinstance(t, ast.Name) for t in st.targets):
                try:
                    v = ast.literal_eval(st.value)
                except Exception:
                    try:
                        ev = Evaluator(ast.FunctionDef(name="_m", args=ast.arguments(posonlyargs=[], args=[], kwonlyargs=[], kw_defaults=[], defaults=[]),
                                                       body=[ast.Return(value=st.value)], decorator_list=[]),
                                       globals_env=env, call_hook=self._hook(modname), obj_types=self.obj_types)
                        v = ev.call()
                    except (Unsupported, Raised):
                        continue
                for t in st.targets:
                    env[t.id] = v
        # imported modules as namespaces
        for local, imp in self.ctx.r.imports.get(modname, {}).items():
            if imp[0] == "module" and imp[1] in self.ctx.p.modules and "." not in local:
                env.setdefault(local, {MODKEY: imp[1]})
            elif imp[0] == "module" and imp[1] in STDLIB_MODELS and "." not in local:
                env.setdefault(local, STDLIB_MODELS[imp[1]])
            elif imp[0] == "symbol" and imp[1] in self.ctx.p.modules and local not in env:
                # `from m import v`: the importing module gets the value v had when the import ran — the module-level initial
                # value, not what a later setter in m assigns (that is exactly what Python does)
                src = self._initial_values(imp[1])
                if imp[2] in src:
                    env[local] = src[imp[2]]
        env.update(self.inject)
        return env

    def _initial_values(self, modname):
        """Module-level literal assignments of modname (import-time values)."""
        out = {}
        mod = self.ctx.p.module(modname)
        for st in mod.tree.body:
            if isinstance(st, ast.Assign) and all(isinstance(t, ast.Name) for t in st.targets):
                try:
                    v = ast.literal_eval(st.value)
                except Exception:
                    continue
                for t in st.targets:
                    out[t.id] = v
        return out

    def _hook(self, modname):
        def hook(name, args, kwargs):
            if name in self.extern:
                return self.extern[name](*args, **kwargs)
            if name in STDLIB_CALLS:
                try:
                    return STDLIB_CALLS[name](*args, **kwargs)
                except (ValueError, TypeError) as ex:
                    raise Raised(type(ex).__name__)
            # module-qualified call  "<module>.<func>"
            if "." in name:
                m, fn = name.rsplit(".", 1)
                if m in self.ctx.p.modules:
                    f = self.ctx.p.functions.get(f"{m}.{fn}")
                    if f is not None:
                        return self.call(f, *args, **kwargs)
                    env = self.module_env(m)
                    if fn in env and callable(env[fn]):
                        return env[fn](*args, **kwargs)
                if fn in self.extern:
                    return self.extern[fn](*args, **kwargs)
                raise Unsupported(f"call {name}")
            kind, qual = self.ctx.r.resolve_name(modname, name)
            if kind == "func" and qual in self.ctx.p.functions:
                return self.call(self.ctx.p.functions[qual], *args, **kwargs)
            if kind == "external" and qual in STDLIB_CALLS:
                try:
                    return STDLIB_CALLS[qual](*args, **kwargs)
                except (ValueError, TypeError) as ex:
                    raise Raised(type(ex).__name__)
            raise Unsupported(f"call {name} in {modname}")
        return hook

    def call(self, finfo, *args, **kwargs):
        self.depth += 1
        if self.depth > 60:
            self.depth -= 1
            raise Unsupported("recursion too deep")
        try:
            env = self.module_env(finfo.module.name)
            hook = self._hook(finfo.module.name)

            def name_hook(name, _mod=finfo.module.name, _hook=hook):
                # a function used as a value (f = g if c else h; f(x)): a proxy that calls it through the same hook
                kind, qual = self.ctx.r.resolve_name(_mod, name)
                if name in self.extern or (kind == "func" and qual in self.ctx.p.functions):
                    return lambda *a, **k: _hook(name, a, k)
                raise Unsupported(f"unknown name {name}")
            ev = Evaluator(finfo.node, globals_env=env, call_hook=hook, max_steps=self.max_steps,
                           obj_types=self.obj_types, attr_hook=lambda m, a: self.read_global(m, a), name_hook=name_hook)
            ev.genv = env      # share (not copy) so that `global` assignments persist in the module environment
            return ev.call(*args, **kwargs)
        finally:
            self.depth -= 1

    def fake_class(self, clsinfo, name=None):
        """A Python stand-in for a repository class: plain attributes are set by the caller, every method / property of the class is
        bridged to the interpretation of its AST (so `self.helper()` inside an interpreted method works).  The returned type must be
        passed in obj_types."""
        ns = {}
        for mname, finfo in clsinfo.methods.items():
            if mname.startswith("__") and mname not in ("__eq__", "__len__"):
                continue
            is_prop = any(isinstance(d, ast.Name) and d.id == "property" for d in finfo.node.decorator_list)
            setter = any(isinstance(d, ast.Attribute) and d.attr == "setter" for d in finfo.node.decorator_list)
            if setter:
                continue

            def make(fi):
                return lambda self_, *a, **k: self.call(fi, self_, *a, **k)
            if any(isinstance(d, ast.Name) and d.id == "staticmethod" for d in finfo.node.decorator_list):
                ns[mname] = staticmethod((lambda fi: (lambda *a, **k: self.call(fi, *a, **k)))(finfo))
                continue
            if is_prop and mname in getattr(clsinfo, "setters", {}):
                def make_set(fi):
                    return lambda self_, v: self.call(fi, self_, v)
                ns[mname] = property(make(finfo), make_set(clsinfo.setters[mname]))
            else:
                ns[mname] = property(make(finfo)) if is_prop else make(finfo)

        def init(self_, **attrs):
            for k, v in attrs.items():
                object.__setattr__(self_, k, v)
        ns["__init__"] = init
        ty = type(name or ("Fake" + clsinfo.name), (), ns)
        if ty not in self.obj_types:
            self.obj_types = self.obj_types + (ty,)
        return ty

    def constructor(self, clsinfo, fake):
        """A callable standing for `Class(...)`: creates the stand-in and interprets the class's own __init__ on it."""
        init = clsinfo.methods.get("__init__")
        if init is None:
            raise AnalysisError(f"{clsinfo.qual} has no __init__ to interpret")

        def make(*a, **k):
            obj = fake()
            self.call(init, obj, *a, **k)
            return obj
        return make

    def read_global(self, modname, name):
        env = self.module_env(modname)
        if name not in env:
            raise AnalysisError(f"global {modname}.{name} is not available to the abstract evaluation")
        return env[name]
