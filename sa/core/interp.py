"""Interprocedural wrapper around the mini evaluator: abstractly evaluates *pure dispatch code* of the repository
(string tests, table look-ups, concatenations) over representative inputs chosen by the calling rule.

Module-level simple assignments are evaluated on demand to build each module's global environment; a call to a
function defined (or imported) in an analysed module is interpreted recursively from its AST.  Nothing is imported.
"""
import ast

from .loader import AnalysisError
from .minieval import Evaluator, Unsupported, Raised, MODKEY


class ModuleInterp:
    def __init__(self, ctx, obj_types=(), extern=None, max_steps=200000):
        self.ctx = ctx
        self.env = {}           # modname -> dict
        self.obj_types = tuple(obj_types)
        self.extern = extern or {}   # name -> python callable (models of external functions)
        self.max_steps = max_steps
        self.depth = 0

    def module_env(self, modname):
        if modname in self.env:
            return self.env[modname]
        env = {}
        self.env[modname] = env
        mod = self.ctx.p.module(modname)
        for st in mod.tree.body:
            if isinstance(st, ast.Assign) and all(isinstance(t, ast.Name) for t in st.targets):
                try:
                    v = ast.literal_eval(st.value)
                except Exception:
                    try:
                        ev = Evaluator(ast.FunctionDef(name="_m", args=ast.arguments(posonlyargs=[], args=[], kwonlyargs=[], kw_defaults=[], defaults=[]),
                                                       body=[ast.Return(value=st.value)], decorator_list=[]),
                                       globals_env=env, call_hook=self._hook(modname), obj_types=self.obj_types)
                        v = ev.call()
                    except (Unsupported, Raised):
                        continue
                for t in st.targets:
                    env[t.id] = v
        # imported modules as namespaces
        for local, imp in self.ctx.r.imports.get(modname, {}).items():
            if imp[0] == "module" and imp[1] in self.ctx.p.modules and "." not in local:
                env.setdefault(local, {MODKEY: imp[1]})
        return env

    def _hook(self, modname):
        def hook(name, args, kwargs):
            if name in self.extern:
                return self.extern[name](*args, **kwargs)
            # module-qualified call  "<module>.<func>"
            if "." in name:
                m, fn = name.rsplit(".", 1)
                if m in self.ctx.p.modules:
                    f = self.ctx.p.functions.get(f"{m}.{fn}")
                    if f is not None:
                        return self.call(f, *args, **kwargs)
                    env = self.module_env(m)
                    if fn in env and callable(env[fn]):
                        return env[fn](*args, **kwargs)
                if fn in self.extern:
                    return self.extern[fn](*args, **kwargs)
                raise Unsupported(f"call {name}")
            kind, qual = self.ctx.r.resolve_name(modname, name)
            if kind == "func" and qual in self.ctx.p.functions:
                return self.call(self.ctx.p.functions[qual], *args, **kwargs)
            raise Unsupported(f"call {name} in {modname}")
        return hook

    def call(self, finfo, *args, **kwargs):
        self.depth += 1
        if self.depth > 60:
            self.depth -= 1
            raise Unsupported("recursion too deep")
        try:
            env = self.module_env(finfo.module.name)
            ev = Evaluator(finfo.node, globals_env=env, call_hook=self._hook(finfo.module.name), max_steps=self.max_steps,
                           obj_types=self.obj_types, attr_hook=lambda m, a: self.read_global(m, a))
            ev.genv = env      # share (not copy) so that `global` assignments persist in the module environment
            return ev.call(*args, **kwargs)
        finally:
            self.depth -= 1

    def read_global(self, modname, name):
        env = self.module_env(modname)
        if name not in env:
            raise AnalysisError(f"global {modname}.{name} is not available to the abstract evaluation")
        return env[name]
