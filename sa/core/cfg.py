"""Statement-level control-flow graph for the statement kinds the repository uses.

Nodes:
  Node(kind='entry'|'exit'|'stmt'|'test'|'iter'|'handler'|'join', ast=<node or None>)
Edges are labelled: None (fall through), 'T'/'F' (branch on a test / loop iterate vs. exhaust),
'exc' (exceptional edge from a statement inside a `try` body to a handler).

Exceptional control flow is modelled only for `try` statements (every statement of a try body
may jump to each handler; an uncaught raise goes to exit via `raise_exit`).  `assert` is a
'test' node whose F edge goes to the innermost enclosing handler (if it can catch
AssertionError/Exception) or to `raise_exit`.
"""
import ast


class Node:
    __slots__ = ("id", "kind", "ast", "succ", "pred", "owner")

    def __init__(self, id, kind, ast_node=None, owner=None):
        self.id = id
        self.kind = kind
        self.ast = ast_node
        self.owner = owner  # for 'test': the If/While/Assert statement; for 'iter': the For
        self.succ = []      # list of (node, label)
        self.pred = []

    def __repr__(self):
        t = ""
        if self.ast is not None:
            try:
                t = ast.unparse(self.ast).split("\n")[0][:60]
            except Exception:
                t = type(self.ast).__name__
        return f"<{self.id}:{self.kind} {t}>"


class CFG:
    def __init__(self, func_node):
        self.func = func_node
        self.nodes = []
        self.entry = self._new("entry")
        self.exit = self._new("exit")            # normal return
        self.raise_exit = self._new("exit")      # uncaught exception
        self.node_of = {}                        # ast stmt/expr id -> Node
        self._loop_stack = []                    # (continue_target, break_target)
        self._handler_stack = []                 # list of lists of handler entry nodes (+catch-all flag)
        self._finally_stack = []
        last = self._seq(func_node.body, [(self.entry, None)])
        for n, lab in last:
            self._edge(n, self.exit, lab)
        self._doms = None
        self._pdoms = None

    # -- construction -----------------------------------------------------
    def _new(self, kind, a=None, owner=None):
        n = Node(len(self.nodes), kind, a, owner)
        self.nodes.append(n)
        if a is not None:
            self.node_of[id(a)] = n
        return n

    def _edge(self, a, b, label=None):
        a.succ.append((b, label))
        b.pred.append((a, label))

    def _connect(self, frontier, node):
        for n, lab in frontier:
            self._edge(n, node, lab)

    def _exc_targets(self):
        """Where an exception raised here may go: handler entries of enclosing trys, else raise_exit."""
        targets = []
        for handlers, catch_all in reversed(self._handler_stack):
            targets.extend(handlers)
            if catch_all:
                return targets
        targets.append(self.raise_exit)
        return targets

    def _add_exc_edges(self, node):
        if self._handler_stack:
            for t in self._exc_targets():
                self._edge(node, t, "exc")

    def _seq(self, stmts, frontier):
        for st in stmts:
            frontier = self._stmt(st, frontier)
        return frontier

    def _stmt(self, st, frontier):
        if isinstance(st, ast.If):
            t = self._new("test", st.test, owner=st)
            self._connect(frontier, t)
            self._add_exc_edges(t)
            out = self._seq(st.body, [(t, "T")])
            out += self._seq(st.orelse, [(t, "F")]) if st.orelse else [(t, "F")]
            return out
        if isinstance(st, ast.While):
            t = self._new("test", st.test, owner=st)
            self._connect(frontier, t)
            self._add_exc_edges(t)
            brk = []
            self._loop_stack.append((t, brk))
            body_out = self._seq(st.body, [(t, "T")])
            self._loop_stack.pop()
            self._connect(body_out, t)
            is_true = isinstance(st.test, ast.Constant) and bool(st.test.value)
            out = [] if is_true else [(t, "F")]
            if st.orelse:
                out = self._seq(st.orelse, out)
            return out + brk
        if isinstance(st, (ast.For, ast.AsyncFor)):
            it = self._new("iter", st, owner=st)
            self._connect(frontier, it)
            self._add_exc_edges(it)
            brk = []
            self._loop_stack.append((it, brk))
            body_out = self._seq(st.body, [(it, "T")])
            self._loop_stack.pop()
            self._connect(body_out, it)
            out = [(it, "F")]
            if st.orelse:
                out = self._seq(st.orelse, out)
            return out + brk
        if isinstance(st, ast.Try) or (hasattr(ast, "TryStar") and isinstance(st, ast.TryStar)):
            handler_nodes = []
            catch_all = False
            for h in st.handlers:
                hn = self._new("handler", h, owner=st)
                handler_nodes.append(hn)
                if h.type is None or (isinstance(h.type, ast.Name) and h.type.id in ("Exception", "BaseException")):
                    catch_all = True
            start = self._new("join", None, owner=st)
            self._connect(frontier, start)
            self._handler_stack.append((handler_nodes, catch_all))
            body_out = self._seq(st.body, [(start, None)])
            self._handler_stack.pop()
            if st.orelse:
                body_out = self._seq(st.orelse, body_out)
            out = list(body_out)
            for hn, h in zip(handler_nodes, st.handlers):
                out += self._seq(h.body, [(hn, None)])
            if st.finalbody:
                out = self._seq(st.finalbody, out)
            return out
        if isinstance(st, (ast.With, ast.AsyncWith)):
            n = self._new("stmt", st, owner=st)
            self._connect(frontier, n)
            self._add_exc_edges(n)
            return self._seq(st.body, [(n, None)])
        if isinstance(st, ast.Return):
            n = self._new("stmt", st)
            self._connect(frontier, n)
            self._add_exc_edges(n)
            self._edge(n, self.exit)
            return []
        if isinstance(st, ast.Raise):
            n = self._new("stmt", st)
            self._connect(frontier, n)
            for t in self._exc_targets():
                self._edge(n, t, "exc")
            return []
        if isinstance(st, ast.Break):
            n = self._new("stmt", st)
            self._connect(frontier, n)
            if self._loop_stack:
                self._loop_stack[-1][1].append((n, None))
            return []
        if isinstance(st, ast.Continue):
            n = self._new("stmt", st)
            self._connect(frontier, n)
            if self._loop_stack:
                self._edge(n, self._loop_stack[-1][0])
            return []
        if isinstance(st, ast.Assert):
            t = self._new("test", st.test, owner=st)
            self._connect(frontier, t)
            for tg in self._exc_targets():
                self._edge(t, tg, "F")
            return [(t, "T")]
        if hasattr(ast, "Match") and isinstance(st, ast.Match):
            n = self._new("stmt", st)
            self._connect(frontier, n)
            out = []
            for case in st.cases:
                out += self._seq(case.body, [(n, None)])
            out.append((n, None))
            return out
        # simple statement (incl. nested def/class, Expr, Assign, ...)
        n = self._new("stmt", st)
        self._connect(frontier, n)
        self._add_exc_edges(n)
        if isinstance(st, ast.Expr) and isinstance(st.value, ast.Call):
            f = st.value.func
            if (isinstance(f, ast.Name) and f.id in ("exit", "quit")) or \
               (isinstance(f, ast.Attribute) and f.attr in ("exit", "_exit") and isinstance(f.value, ast.Name) and f.value.id in ("sys", "os")):
                self._edge(n, self.raise_exit)
                return []
        return [(n, None)]

    # -- queries ----------------------------------------------------------
    def stmt_node(self, ast_node):
        return self.node_of.get(id(ast_node))

    def node_containing(self, inner):
        """CFG node whose ast contains `inner` (walk parents)."""
        cur = inner
        while cur is not None:
            n = self.node_of.get(id(cur))
            if n is not None:
                # a For statement's node is 'iter' and only covers target/iter expressions
                return n
            cur = getattr(cur, "_parent", None)
        return None

    def reachable_nodes(self, start=None, skip_exc=False):
        start = start or self.entry
        seen = {start.id}
        work = [start]
        while work:
            n = work.pop()
            for s, lab in n.succ:
                if skip_exc and lab == "exc":
                    continue
                if s.id not in seen:
                    seen.add(s.id)
                    work.append(s)
        return seen

    def dominators(self):
        if self._doms is not None:
            return self._doms
        reach = self.reachable_nodes()
        nodes = [n for n in self.nodes if n.id in reach]
        allset = set(n.id for n in nodes)
        dom = {n.id: set(allset) for n in nodes}
        dom[self.entry.id] = {self.entry.id}
        changed = True
        while changed:
            changed = False
            for n in nodes:
                if n is self.entry:
                    continue
                preds = [p for p, _ in n.pred if p.id in reach]
                new = set(allset)
                for p in preds:
                    new &= dom[p.id]
                new.add(n.id)
                if new != dom[n.id]:
                    dom[n.id] = new
                    changed = True
        self._doms = dom
        return dom

    def dominates(self, a, b):
        d = self.dominators()
        return b.id in d and a.id in d[b.id]

    def paths_avoiding(self, src, dst, avoid_ids, src_labels=None, skip_exc=False):
        """True iff dst is reachable from src without passing through any node in avoid_ids
        (src itself is allowed).  src_labels restricts which outgoing labels of src are taken."""
        seen = set()
        work = []
        for s, lab in src.succ:
            if src_labels is not None and lab not in src_labels:
                continue
            if skip_exc and lab == "exc":
                continue
            work.append(s)
        while work:
            n = work.pop()
            if n.id in seen or n.id in avoid_ids:
                continue
            if n is dst:
                return True
            seen.add(n.id)
            for s, lab in n.succ:
                if skip_exc and lab == "exc":
                    continue
                work.append(s)
        return False

    def reaches(self, src, dst, src_labels=None, removed_edges=(), skip_exc=True):
        """dst reachable from src (leaving src through src_labels only, if given) when the edges (node, label) in removed_edges are cut."""
        removed = {(n.id, lab) for n, lab in removed_edges}
        seen, work = set(), []
        for s_, lab in src.succ:
            if (src_labels is None or lab in src_labels) and (src.id, lab) not in removed and not (skip_exc and lab == "exc"):
                work.append(s_)
        while work:
            n = work.pop()
            if n is dst:
                return True
            if n.id in seen:
                continue
            seen.add(n.id)
            for s_, lab in n.succ:
                if (n.id, lab) in removed or (skip_exc and lab == "exc"):
                    continue
                work.append(s_)
        return False

    def edge_dominated_by_branch(self, target, test_node, label):
        """True iff every path entry->target passes through edge (test_node --label-->)."""
        # remove that edge; if target still reachable, not dominated
        seen = set()
        work = [self.entry]
        while work:
            n = work.pop()
            if n.id in seen:
                continue
            seen.add(n.id)
            if n is target:
                return False
            for s, lab in n.succ:
                if n is test_node and lab == label:
                    continue
                work.append(s)
        return True
