"""Repository-wide structural idiom checks shared by several properties."""
import ast

from .flow import call_name, calls_in, is_name, reaching_defs, node_binds, node_exprs
from .loader import own_nodes, norm, short
from .absint import MUTATORS


def _empty_container(v):
    if isinstance(v, (ast.List, ast.Set)) and not v.elts:
        return True
    if isinstance(v, ast.Dict) and not v.keys:
        return True
    return isinstance(v, ast.Call) and call_name(v) in ("list", "dict", "set", "OrderedDict", "defaultdict") and not v.args


def _binds_empty_container(a, name):
    """Assign statement `a` binds `name` to a fresh empty container (also inside a tuple unpacking / chained assignment)."""
    if not isinstance(a, ast.Assign):
        return False
    for t in a.targets:
        if is_name(t, name) and _empty_container(a.value):
            return True
        if isinstance(t, (ast.Tuple, ast.List)) and isinstance(a.value, (ast.Tuple, ast.List)) and len(t.elts) == len(a.value.elts):
            for te, ve in zip(t.elts, a.value.elts):
                if is_name(te, name) and _empty_container(ve):
                    return True
    return False


# ------------------------------------------------------------------------------------------------------------
def loop_published_containers(ctx, f):
    """Containers created outside a `for` loop but published once per iteration inside it.

    Published = stored under a key that mentions the loop variable (`out[key] = R`, `out[key] = dict(R)`) or passed to a
    call that also receives the loop variable (`obj.set_x(key, R)`).  Such a container must be fresh in every iteration:
    every reaching definition at the publication point must lie inside the loop body.
    Yields (loop node, publication node, name, outside definition node).
    """
    cfg = ctx.cfg(f)
    for loop in [n for n in own_nodes(f.node) if isinstance(n, ast.For)]:
        lvars = {x.id for x in ast.walk(loop.target) if isinstance(x, ast.Name)}
        body_nodes = {id(x) for st in loop.body for x in ast.walk(st)}
        for st in loop.body:
            for n in ast.walk(st):
                pubs = []
                if isinstance(n, ast.Assign) and len(n.targets) == 1 and isinstance(n.targets[0], ast.Subscript) \
                        and any(isinstance(x, ast.Name) and x.id in lvars for x in ast.walk(n.targets[0].slice)):
                    v = n.value
                    if isinstance(v, ast.Call) and call_name(v) in ("dict", "list", "set", "copy", "deepcopy") and v.args:
                        v = v.args[0]
                    if isinstance(v, ast.Name):
                        pubs.append(v.id)
                elif isinstance(n, ast.Call) and any(isinstance(a, ast.Name) and a.id in lvars for a in n.args):
                    for a in n.args:
                        if isinstance(a, ast.Name) and a.id not in lvars:
                            pubs.append(a.id)
                for name in pubs:
                    at = cfg.node_containing(n)
                    if at is None:
                        continue
                    for d in reaching_defs(cfg, name, at):
                        a = d.ast
                        if d.kind == "entry":
                            continue      # a parameter: not a container created here
                        if not _binds_empty_container(a, name):
                            continue      # only fresh empty containers are accumulators
                        if id(a) not in body_nodes:
                            # is it mutated inside the loop at all?
                            mutated = any(isinstance(c, ast.Call) and isinstance(c.func, ast.Attribute) and c.func.attr in MUTATORS and is_name(c.func.value, name)
                                          for s2 in loop.body for c in ast.walk(s2)) or \
                                any(isinstance(s3, ast.Assign) and isinstance(s3.targets[0], ast.Subscript) and is_name(s3.targets[0].value, name)
                                    for s2 in loop.body for s3 in ast.walk(s2))
                            if mutated:
                                yield loop, n, name, a


# ------------------------------------------------------------------------------------------------------------
def mutates_param_summary(ctx):
    """qualname -> set of parameter positions the function may mutate in place (pop/append/.../subscript store/del),
    transitively through calls that pass the parameter on."""
    key = "mutates_param"
    if key in ctx.cache:
        return ctx.cache[key]
    summ = {q: set() for q in ctx.p.functions}
    changed = True
    rounds = 0
    while changed and rounds < 10:
        changed = False
        rounds += 1
        for q, f in ctx.p.functions.items():
            params = f.params
            rebound = set()
            cur = set(summ[q])
            for n in own_nodes(f.node):
                if isinstance(n, ast.Call) and isinstance(n.func, ast.Attribute) and n.func.attr in MUTATORS and isinstance(n.func.value, ast.Name) \
                        and n.func.value.id in params:
                    cur.add(params.index(n.func.value.id))
                elif isinstance(n, (ast.Assign, ast.AugAssign, ast.Delete)):
                    tgts = n.targets if isinstance(n, (ast.Assign, ast.Delete)) else [n.target]
                    for t in tgts:
                        if isinstance(t, ast.Subscript) and isinstance(t.value, ast.Name) and t.value.id in params:
                            cur.add(params.index(t.value.id))
                elif isinstance(n, ast.Call):
                    for t in ctx.r.resolve_call(f, n):
                        off = 1 if (t.cls is not None and t.params and t.params[0] in ("self", "cls")) else 0
                        for i, a in enumerate(n.args):
                            if isinstance(a, ast.Name) and a.id in params and (i + off) in summ.get(t.qual, ()):
                                cur.add(params.index(a.id))
            if cur != summ[q]:
                summ[q] = cur
                changed = True
    ctx.cache[key] = summ
    return summ


def stuck_while_loops(ctx, f):
    """`while` loops whose condition cannot change: no statement of the body re-binds or mutates any variable of the test,
    no call receives one of them in a position the callee mutates, and the body has no break / return / raise."""
    summ = mutates_param_summary(ctx)
    for loop in [n for n in own_nodes(f.node) if isinstance(n, ast.While)]:
        tv = {x.id for x in ast.walk(loop.test) if isinstance(x, ast.Name)}
        tattr = {norm(x) for x in ast.walk(loop.test) if isinstance(x, ast.Attribute)}
        if not tv and not tattr:
            continue
        if isinstance(loop.test, ast.Constant):
            continue
        progress = False
        for st in loop.body:
            for n in ast.walk(st):
                if isinstance(n, (ast.Break, ast.Return, ast.Raise)):
                    progress = True
                elif isinstance(n, ast.Name) and isinstance(n.ctx, (ast.Store, ast.Del)) and n.id in tv:
                    progress = True
                elif isinstance(n, (ast.Attribute, ast.Subscript)) and isinstance(n.ctx, (ast.Store, ast.Del)):
                    base = n
                    while isinstance(base, (ast.Attribute, ast.Subscript)):
                        base = base.value
                    if (isinstance(base, ast.Name) and base.id in tv) or norm(n) in tattr or any(norm(n.value) == a or a.startswith(norm(n.value)) for a in tattr):
                        progress = True
                elif isinstance(n, ast.Call):
                    if isinstance(n.func, ast.Attribute) and n.func.attr in MUTATORS:
                        base = n.func.value
                        while isinstance(base, (ast.Attribute, ast.Subscript)):
                            base = base.value
                        if isinstance(base, ast.Name) and (base.id in tv or base.id == "self"):
                            progress = True
                    tg = ctx.r.resolve_call(f, n)
                    if not tg:
                        # unknown callee receiving a test variable (or a method on self): assume it may change it
                        if any(isinstance(a, ast.Name) and a.id in tv for a in n.args) or \
                                (isinstance(n.func, ast.Attribute) and isinstance(n.func.value, ast.Name) and (n.func.value.id in tv or n.func.value.id == "self")):
                            progress = True
                    for t in tg:
                        off = 1 if (t.cls is not None and t.params and t.params[0] in ("self", "cls")) else 0
                        for i, a in enumerate(n.args):
                            if isinstance(a, ast.Name) and a.id in tv and (i + off) in summ.get(t.qual, ()):
                                progress = True
                        if t.cls is not None and tattr:
                            progress = True
                elif isinstance(n, ast.Global) and set(n.names) & tv:
                    progress = True
        # module globals in the test may be changed by any call
        if not progress:
            gl = {x for n in own_nodes(f.node) if isinstance(n, ast.Global) for x in n.names}
            if tv & gl and any(isinstance(n, ast.Call) for st in loop.body for n in ast.walk(st)):
                progress = True
        if not progress:
            yield loop


# ------------------------------------------------------------------------------------------------------------
def linear_form(e):
    """{name: coeff, 1: const} for expressions built from names, int constants, + and -; None otherwise."""
    if isinstance(e, ast.Constant) and isinstance(e.value, int) and not isinstance(e.value, bool):
        return {1: e.value}
    if isinstance(e, ast.Name):
        return {e.id: 1}
    if isinstance(e, ast.BinOp) and isinstance(e.op, (ast.Add, ast.Sub)):
        a, b = linear_form(e.left), linear_form(e.right)
        if a is None or b is None:
            return None
        out = dict(a)
        sign = 1 if isinstance(e.op, ast.Add) else -1
        for k, v in b.items():
            out[k] = out.get(k, 0) + sign * v
        return {k: v for k, v in out.items() if v != 0}
    if isinstance(e, ast.UnaryOp) and isinstance(e.op, ast.USub):
        a = linear_form(e.operand)
        return None if a is None else {k: -v for k, v in a.items()}
    return None


# ------------------------------------------------------------------------------------------------------------
PURE_BUILTINS = {"map", "list", "len", "sorted", "filter", "enumerate", "zip", "print", "str", "set", "tuple", "min", "max", "sum", "any", "all",
                 "reversed", "deepcopy", "copy", "dict", "frozenset", "repr", "iter", "range", "isinstance", "check_and_print_debug_info"}


def _emptiness_var(test):
    """Name X if `test` is an emptiness test of X: X != [], X, len(X) > 0, len(X) != 0, len(X) >= 1."""
    if isinstance(test, ast.Compare) and len(test.ops) == 1:
        l, r, op = test.left, test.comparators[0], test.ops[0]
        if isinstance(l, ast.Name) and isinstance(r, (ast.List, ast.Tuple)) and not r.elts and isinstance(op, ast.NotEq):
            return l.id
        if isinstance(l, ast.Call) and call_name(l) == "len" and l.args and isinstance(l.args[0], ast.Name) and isinstance(r, ast.Constant):
            if (isinstance(op, (ast.Gt, ast.NotEq)) and r.value == 0) or (isinstance(op, ast.GtE) and r.value == 1):
                return l.args[0].id
    return None


def _length_preserving(value, name):
    """value is list(map(f, name)) / [e for x in name] (no filter) / list(name) / name.copy() / sorted(name)."""
    if isinstance(value, ast.Call) and call_name(value) in ("list", "tuple", "sorted", "reversed") and value.args:
        return _length_preserving(value.args[0], name) or is_name(value.args[0], name)
    if isinstance(value, ast.Call) and call_name(value) == "map" and len(value.args) == 2:
        return is_name(value.args[1], name)
    if isinstance(value, ast.ListComp) and len(value.generators) == 1 and not value.generators[0].ifs:
        return is_name(value.generators[0].iter, name)
    if isinstance(value, ast.Call) and isinstance(value.func, ast.Attribute) and value.func.attr == "copy":
        return is_name(value.func.value, name)
    return False


def emptiness_loops_without_variant(ctx, f):
    """`while X is not empty` loops with a path through the body on which the length of X cannot decrease."""
    summ = mutates_param_summary(ctx)
    cfg = ctx.cfg(f)
    for t in cfg.nodes:
        if t.kind != "test" or not isinstance(t.owner, ast.While):
            continue
        x = _emptiness_var(t.ast)
        if x is None:
            continue
        body_ids = {id(n) for st in t.owner.body for n in ast.walk(st)}
        progress = set()
        # a body with its own exits (break / return / raise) under conditions that read X: a re-ordering of X may steer the loop to
        # that exit (greedy precompute: each SWAP fixes one more position until `pos_in_stack == 0` breaks) — termination is then an
        # argument about the data, out of reach here; only loops whose sole way out through X is its emptiness are claimed for
        # length-preserving re-bindings
        # (the path `pos_in_stack` neither > 16, == 0 nor > 0 is infeasible as well, and only an interval argument would say so)
        own_exits = any(isinstance(c, (ast.Break, ast.Return, ast.Raise)) for st in t.owner.body for c in ast.walk(st))
        steered = own_exits and any(isinstance(c, (ast.If, ast.IfExp)) and any(is_name(y, x) for y in ast.walk(c.test))
                                    for st in t.owner.body for c in ast.walk(st))
        if steered:
            continue
        for n in cfg.nodes:
            if n.ast is None or n is t:
                continue
            a = n.ast
            inside = any(id(e) in body_ids for e in node_exprs(n)) or id(a) in body_ids
            if not inside:
                continue
            hit = False
            if isinstance(a, (ast.Break, ast.Return, ast.Raise)):
                hit = True
            for e in node_exprs(n):
                for c in ast.walk(e):
                    if isinstance(c, ast.Call) and isinstance(c.func, ast.Attribute) and is_name(c.func.value, x) and c.func.attr in ("pop", "remove", "clear", "popleft"):
                        hit = True
                    elif isinstance(c, ast.Delete) and any(isinstance(tg, ast.Subscript) and is_name(tg.value, x) for tg in c.targets):
                        hit = True
                    elif isinstance(c, ast.Call):
                        tg = ctx.r.resolve_call(f, c)
                        if not tg and any(is_name(arg, x) for arg in c.args) and call_name(c) not in PURE_BUILTINS:
                            hit = True      # unknown callee may consume
                        for callee in tg:
                            off = 1 if (callee.cls is not None and callee.params and callee.params[0] in ("self", "cls")) else 0
                            for i, arg in enumerate(c.args):
                                if is_name(arg, x) and (i + off) in summ.get(callee.qual, ()):
                                    hit = True
            if isinstance(a, ast.Assign) and any(is_name(tg, x) for tg in a.targets):
                if not _length_preserving(a.value, x):
                    hit = True      # slicing, filtering, anything we cannot classify: assume it may shrink
            if isinstance(a, ast.AugAssign) and is_name(a.target, x):
                hit = True
            if x in node_binds(n) and n.kind == "iter":
                hit = True
            if hit:
                progress.add(n.id)
        # is the test reachable from its own T edge without crossing a progress node?
        if cfg.paths_avoiding(t, t, progress, src_labels={"T"}):
            yield t.owner, x


# ------------------------------------------------------------------------------------------------------------
def stale_loop_flags(ctx, f):
    """Boolean flags (only ever assigned True/False literals) that a loop body reads before writing — i.e. that carry a fact
    about the previous iteration — must be re-assigned on every path through the body; otherwise a fact about some earlier
    iteration is mistaken for one about the previous iteration.  Yields (loop node, flag name)."""
    assigns = {}
    for n in own_nodes(f.node):
        if isinstance(n, ast.Assign):
            for t in n.targets:
                if isinstance(t, ast.Name):
                    assigns.setdefault(t.id, []).append(n.value)
        elif isinstance(n, (ast.AugAssign, ast.For)) :
            for x in ast.walk(n.target):
                if isinstance(x, ast.Name):
                    assigns.setdefault(x.id, []).append(None)
    flags = {v for v, vals in assigns.items() if vals and all(isinstance(x, ast.Constant) and isinstance(x.value, bool) for x in vals)
             and {x.value for x in vals} == {True, False}}
    if not flags:
        return
    cfg = ctx.cfg(f)
    for head in cfg.nodes:
        if head.kind not in ("iter", "test") or not isinstance(head.owner, (ast.For, ast.While)):
            continue
        loop = head.owner
        body_ids = {id(x) for st in loop.body for x in ast.walk(st)}
        for v in sorted(flags):
            if isinstance(loop, ast.While) and any(is_name(x, v) for x in ast.walk(loop.test)):
                continue      # the loop's own continuation flag (`while not found`): carried on purpose
            inside = [n for n in cfg.nodes if n.ast is not None and (id(n.ast) in body_ids or any(id(e) in body_ids for e in node_exprs(n)))]
            readers = [n for n in inside if any(isinstance(x, ast.Name) and x.id == v and isinstance(x.ctx, ast.Load) for e in node_exprs(n) for x in ast.walk(e))]
            writers = {n.id for n in inside if v in node_binds(n)}
            if not readers or not writers:
                continue
            # carried: some reader is reachable from the loop head without passing a writer
            carried = any(cfg.paths_avoiding(head, r, writers, src_labels={"T"}) or (head, "T") in [(p, l) for p, l in r.pred] for r in readers)
            if not carried:
                continue
            # then every path head -T-> ... -> head must pass a writer
            if cfg.paths_avoiding(head, head, writers, src_labels={"T"}):
                yield loop, v


# ------------------------------------------------------------------------------------------------------------
STORE_VOCAB = ["MSTORE", "MSTORE8", "SSTORE", "MLOAD", "SLOAD", "KECCAK256", "ADD", "PUSH"]


MULTIPLICITY = {}      # (caller qualname, id(call)) -> {opcode: number of the literals the caller passes that select it} (only > 1)


def store_predicates(ctx, modules):
    """Predicates over a record's "disasm" that select stores.  Yields (finfo, expr, accepted set) for every boolean expression
    (lambda body, comprehension filter, if test) that mentions <x>["disasm"] together with a store opcode literal."""
    from .minieval import Evaluator, Unsupported, Raised
    for f in ctx.p.functions.values():
        if f.module.name not in modules:
            continue
        cands = []
        for n in own_nodes(f.node):
            if isinstance(n, ast.Lambda):
                cands.append((n.body, [a.arg for a in n.args.args]))
            elif isinstance(n, ast.comprehension):
                for c in n.ifs:
                    cands.append((c, [x.id for x in ast.walk(n.target) if isinstance(x, ast.Name)]))
        for expr, params in cands:
            subs = [x for x in ast.walk(expr) if isinstance(x, ast.Subscript) and isinstance(x.slice, ast.Constant) and x.slice.value == "disasm"
                    and isinstance(x.value, ast.Name) and x.value.id in params]
            if not subs:
                continue
            var = subs[0].value.id
            # only predicates that depend on nothing but the record's opcode
            bound = {y.id for c in ast.walk(expr) if isinstance(c, ast.comprehension) for y in ast.walk(c.target) if isinstance(y, ast.Name)}
            names = {x.id for x in ast.walk(expr) if isinstance(x, ast.Name)} - {var} - bound - {"any", "all", "len", "str", "int", "bool", "set", "list", "tuple"}
            genv = {}
            for nm in sorted(names):
                defs = [n for n in own_nodes(f.node) if isinstance(n, ast.Assign) and len(n.targets) == 1 and isinstance(n.targets[0], ast.Name) and n.targets[0].id == nm]
                if len(defs) == 1:
                    try:
                        genv[nm] = ast.literal_eval(defs[0].value)
                    except Exception:
                        pass
            free = names - set(genv)
            if len(free) == 1 and next(iter(free)) in f.params:
                # a selector parameterised by the opcode:  [.. for ins in instructions if op in ins['disasm']]  — decided per caller,
                # for the opcode literals that caller passes (all its calls together are what that caller selects)
                pname = next(iter(free))
                pos = f.params.index(pname) - (1 if f.cls is not None and f.params and f.params[0] in ("self", "cls") else 0)
                fn = ast.FunctionDef(name="_p", args=ast.arguments(posonlyargs=[], args=[ast.arg(arg=var)], kwonlyargs=[], kw_defaults=[], defaults=[]),
                                     body=[ast.Return(value=expr)], decorator_list=[])
                per_caller = {}
                for g in ctx.p.functions.values():
                    for c in calls_in(g.node, f.name):
                        if f not in ctx.r.resolve_call(g, c):
                            continue
                        a = c.args[pos] if len(c.args) > pos else next((k.value for k in c.keywords if k.arg == pname), None)
                        lits_here = []
                        if isinstance(a, ast.Constant) and isinstance(a.value, str):
                            lits_here = [a.value]
                        elif isinstance(a, ast.Name):
                            # the loop / comprehension variable over a constant tuple of opcode names:  for op in STORE_OPS: f(.., op)
                            for it in [x.iter for x in ast.walk(g.node) if isinstance(x, (ast.For, ast.comprehension)) and isinstance(x.target, ast.Name)
                                       and x.target.id == a.id]:
                                tup = it
                                if isinstance(it, ast.Name):
                                    defs = [n.value for n in g.module.tree.body if isinstance(n, ast.Assign) and any(isinstance(t, ast.Name) and t.id == it.id for t in n.targets)]
                                    tup = defs[-1] if defs else None
                                if isinstance(tup, (ast.Tuple, ast.List, ast.Set)):
                                    lits_here += [e.value for e in tup.elts if isinstance(e, ast.Constant) and isinstance(e.value, str)]
                        for lit in lits_here:
                            if lit in STORE_VOCAB:
                                per_caller.setdefault(g.qual, (g, c, []))[2].append(lit)
                for gq, (g, c, passed) in sorted(per_caller.items()):
                    acc = set()
                    times = {}
                    try:
                        for lit in sorted(set(passed)):
                            env2 = dict(genv)
                            env2[pname] = lit
                            for op in STORE_VOCAB:
                                if Evaluator(fn, globals_env=env2).call({"disasm": op, "inpt_sk": [], "outpt_sk": [], "id": op + "_0"}):
                                    acc.add(op)
                                    times[op] = times.get(op, 0) + 1
                    except (Unsupported, Raised):
                        continue
                    MULTIPLICITY[(g.qual, id(c))] = {op: k for op, k in times.items() if k > 1}
                    yield g, c, acc
                continue
            if free:
                continue
            lits = {x.value for x in ast.walk(expr) if isinstance(x, ast.Constant) and isinstance(x.value, str)}
            for v in genv.values():
                if isinstance(v, (tuple, list, set)):
                    lits |= {x for x in v if isinstance(x, str)}
                elif isinstance(v, str):
                    lits.add(v)
            # a literal that names a store opcode, or a fragment of one ("STORE")
            if not any(l and (l in st or st in l) for l in lits for st in ("MSTORE", "SSTORE", "MSTORE8")):
                continue
            fn = ast.FunctionDef(name="_p", args=ast.arguments(posonlyargs=[], args=[ast.arg(arg=var)], kwonlyargs=[], kw_defaults=[], defaults=[]),
                                 body=[ast.Return(value=expr)], decorator_list=[])
            acc = set()
            try:
                for op in STORE_VOCAB:
                    if Evaluator(fn, globals_env=genv).call({"disasm": op, "inpt_sk": [], "outpt_sk": [], "id": op + "_0"}):
                        acc.add(op)
            except (Unsupported, Raised):
                continue
            yield f, expr, acc


# ------------------------------------------------------------------------------------------------------------
STR_METHODS = {"strip", "lstrip", "rstrip", "replace", "lower", "upper", "format", "join"}


def _scalar_type(e, env, f, depth=0):
    if isinstance(e, ast.Constant):
        return "str" if isinstance(e.value, str) else "int" if isinstance(e.value, (int, float)) else None
    if isinstance(e, ast.JoinedStr):
        return "str"
    if isinstance(e, ast.Name):
        return env.get(e.id)
    if isinstance(e, ast.Call):
        n = call_name(e)
        if n in ("int", "len", "float", "abs", "round"):
            return "int"
        if n == "str":
            return "str"
        if isinstance(e.func, ast.Attribute) and e.func.attr in STR_METHODS and (_scalar_type(e.func.value, env, f, depth) == "str" or e.func.attr in ("strip", "lstrip", "rstrip")):
            return "str"
        if n in ("max", "min") and len(e.args) == 1:
            return _elem_type(e.args[0], env, f, depth + 1)
        return None
    if isinstance(e, ast.Subscript):
        if isinstance(e.slice, ast.Slice):
            return "str" if _scalar_type(e.value, env, f, depth) == "str" else None
        return _elem_type(e.value, env, f, depth + 1)
    if isinstance(e, ast.BinOp):
        a, b = _scalar_type(e.left, env, f, depth), _scalar_type(e.right, env, f, depth)
        if isinstance(e.op, ast.Add) and "str" in (a, b):
            return "str"
        if a == b == "int":
            return "int"
    return None


def _elem_type(e, env, f, depth=0):
    """Element type ('str' / 'int' / None = unknown) of the sequence denoted by e inside function f."""
    if depth > 6:
        return None
    if isinstance(e, ast.Call):
        n = call_name(e)
        if isinstance(e.func, ast.Attribute) and e.func.attr in ("split", "splitlines", "rsplit"):
            return "str"
        if n in ("list", "sorted", "set", "tuple", "reversed") and len(e.args) == 1:
            return _elem_type(e.args[0], env, f, depth + 1)
        if n == "filter" and len(e.args) == 2:
            return _elem_type(e.args[1], env, f, depth + 1)
        if n == "map" and len(e.args) == 2 and isinstance(e.args[0], ast.Lambda) and len(e.args[0].args.args) == 1:
            inner = dict(env)
            inner[e.args[0].args.args[0].arg] = _elem_type(e.args[1], env, f, depth + 1)
            return _scalar_type(e.args[0].body, inner, f, depth + 1)
        if n == "map" and len(e.args) == 2 and isinstance(e.args[0], ast.Name) and e.args[0].id in ("int", "len", "str"):
            return "str" if e.args[0].id == "str" else "int"
        return None
    if isinstance(e, (ast.ListComp, ast.GeneratorExp, ast.SetComp)):
        inner = dict(env)
        for g in e.generators:
            if isinstance(g.target, ast.Name):
                inner[g.target.id] = _elem_type(g.iter, inner, f, depth + 1)
        return _scalar_type(e.elt, inner, f, depth + 1)
    if isinstance(e, (ast.List, ast.Tuple, ast.Set)):
        ts = {_scalar_type(x, env, f, depth + 1) for x in e.elts}
        return ts.pop() if len(ts) == 1 else None
    if isinstance(e, ast.Name):
        defs = [n for n in own_nodes(f.node) if isinstance(n, ast.Assign) and any(isinstance(t, ast.Name) and t.id == e.id for t in n.targets)]
        other = [n for n in own_nodes(f.node) if (isinstance(n, (ast.AugAssign, ast.AnnAssign)) and isinstance(n.target, ast.Name) and n.target.id == e.id)
                 or (isinstance(n, (ast.For, ast.comprehension)) and any(isinstance(x, ast.Name) and x.id == e.id for x in ast.walk(n.target)))]
        if not defs or other or e.id in f.params:
            return None
        ts = {_elem_type(d.value, env, f, depth + 1) for d in defs}
        return ts.pop() if len(ts) == 1 else None
    return None


def extremes(ctx, modules=None):
    """Every max/min over ONE iterable without key= (and sorted(..)[i]) in the project, with the element type inferred locally.
    An extreme over strings is lexicographic: 's(10)' < 's(9)'."""
    for f in ctx.p.functions.values():
        if modules is not None and f.module.name not in modules:
            continue
        for n in own_nodes(f.node):
            if isinstance(n, ast.Call) and call_name(n) in ("max", "min") and len(n.args) == 1 and not isinstance(n.args[0], ast.Starred) \
                    and not any(k.arg == "key" for k in n.keywords):
                yield f, n, _elem_type(n.args[0], {}, f)


# ------------------------------------------------------------------------------------------------------------
def identity_comparisons(ctx, module_prefixes):
    """(finfo, compare node, ok) for every `is` / `is not`: identity is a sound test only against the singletons None/True/False/...
    or between type objects (`type(x) is T`); between two values (ints beyond CPython's small-int cache, strings, formulas) it
    answers whether they are the same *object*."""
    for f in ctx.p.functions.values():
        if not f.module.name.startswith(tuple(module_prefixes)):
            continue
        for c in own_nodes(f.node):
            if not (isinstance(c, ast.Compare) and any(isinstance(o, (ast.Is, ast.IsNot)) for o in c.ops)):
                continue
            sides = [c.left] + list(c.comparators)
            singleton = any(isinstance(x, ast.Constant) and (x.value is None or isinstance(x.value, bool) or x.value is Ellipsis) for x in sides)
            types = any(isinstance(x, ast.Call) and call_name(x) == "type" for x in sides)
            yield f, c, singleton or types


# ------------------------------------------------------------------------------------------------------------
def extremum_loops(ctx, module_prefixes):
    """Loops that accumulate an extreme:  acc = max(acc, E) / min(acc, E)  (also  if E > acc: acc = E).  Yields
    (finfo, loop, accumulator name, [early exits inside the loop]).  The extreme over *all* elements needs the whole iteration:
    a break / return inside such a loop makes the result depend on the order of the elements."""
    for f in ctx.p.functions.values():
        if not f.module.name.startswith(tuple(module_prefixes)):
            continue
        for loop in own_nodes(f.node):
            if not isinstance(loop, (ast.For, ast.While)):
                continue
            accs = set()
            for st in ast.walk(ast.Module(body=loop.body, type_ignores=[])):
                if isinstance(st, ast.Assign) and len(st.targets) == 1 and isinstance(st.targets[0], ast.Name) and isinstance(st.value, ast.Call) \
                        and call_name(st.value) in ("max", "min") and any(isinstance(a, ast.Name) and a.id == st.targets[0].id for a in st.value.args):
                    accs.add(st.targets[0].id)
            if not accs:
                continue
            exits = []

            def scan(stmts, inner_loop):
                for st in stmts:
                    if isinstance(st, (ast.FunctionDef, ast.Lambda, ast.ClassDef)):
                        continue
                    if isinstance(st, ast.Break) and not inner_loop:
                        exits.append(st)
                    elif isinstance(st, ast.Return):
                        exits.append(st)
                    for fld in ("body", "orelse", "finalbody", "handlers"):
                        sub = getattr(st, fld, None)
                        if isinstance(sub, list):
                            scan([x for x in sub if isinstance(x, ast.stmt)] + [y for x in sub if isinstance(x, ast.ExceptHandler) for y in x.body],
                                 inner_loop or isinstance(st, (ast.For, ast.While)))
            scan(loop.body, False)
            yield f, loop, sorted(accs), exits


# ------------------------------------------------------------------------------------------------------------
def _fresh_value(v, ctx=None, depth=0):
    if isinstance(v, (ast.List, ast.Dict, ast.Set)) and not (getattr(v, "elts", None) or getattr(v, "keys", None)):
        return True
    if isinstance(v, ast.Call) and isinstance(v.func, ast.Name):
        if v.func.id in ("dict", "list", "set", "OrderedDict", "defaultdict") and not v.args:
            return True
        if v.func.id[:1].isupper():
            return True          # constructor
        if ctx is not None and depth < 2:
            # a factory: a project function all of whose returns hand out an object it has just created
            cands = [g for g in ctx.p.functions.values() if g.name == v.func.id and g.cls is None]
            if len(cands) == 1:
                g = cands[0]
                rets = [r for r in own_nodes(g.node) if isinstance(r, ast.Return)]
                if rets and all(r.value is not None and _factory_result(r.value, g, ctx, depth + 1) for r in rets):
                    return True
    return False


def _factory_result(e, g, ctx, depth):
    if _fresh_value(e, ctx, depth):
        return True
    if isinstance(e, ast.Name):
        defs = [n for n in own_nodes(g.node) if isinstance(n, ast.Assign) and len(n.targets) == 1 and isinstance(n.targets[0], ast.Name) and n.targets[0].id == e.id]
        return bool(defs) and all(_fresh_value(d.value, ctx, depth) for d in defs) and e.id not in g.params
    return False


def co_renewed_state(ctx, module_prefixes):
    """Per-segment state machines: names bound to fresh objects before a loop and re-bound to fresh objects inside it (a new segment /
    block starts).  Yields (finfo, loop, group, [(statement list owner, renewed names, missing names)]): at every place where one
    member of the group is renewed, all must be — otherwise the new segment inherits the old segment's table."""
    for f in ctx.p.functions.values():
        if not f.module.name.startswith(tuple(module_prefixes)):
            continue
        body = f.node.body
        for li, loop in enumerate(body):
            if not isinstance(loop, (ast.While, ast.For)):
                continue
            pre = {}
            for st in body[:li]:
                if isinstance(st, ast.Assign) and len(st.targets) == 1 and isinstance(st.targets[0], ast.Name) and _fresh_value(st.value, ctx):
                    pre[st.targets[0].id] = st
            if len(pre) < 2:
                continue
            places = []

            def scan(stmts):
                renewed = {}
                for st in stmts:
                    if isinstance(st, ast.Assign) and len(st.targets) == 1 and isinstance(st.targets[0], ast.Name) and st.targets[0].id in pre and _fresh_value(st.value, ctx):
                        renewed[st.targets[0].id] = st
                    for fld in ("body", "orelse", "finalbody"):
                        sub = getattr(st, fld, None)
                        if isinstance(sub, list) and sub and isinstance(sub[0], ast.stmt):
                            scan(sub)
                if renewed:
                    places.append((stmts, renewed))
            scan(loop.body)
            group = sorted({n for _, r in places for n in r})
            if len(group) < 2:
                continue
            yield f, loop, group, [(stmts, sorted(r), sorted(set(group) - set(r))) for stmts, r in places]


# ------------------------------------------------------------------------------------------------------------
def aliased_accumulators(ctx, module_prefixes=None):
    """`a = b = set()` binds ONE object to both names.  Yields (finfo, assign node, names) for every chained assignment of a fresh
    mutable container (display or constructor call) to several plain names of which at least two are afterwards mutated in place in
    the same function: what goes into one accumulator shows up in the other."""
    for f in ctx.p.functions.values():
        if module_prefixes and not f.module.name.startswith(tuple(module_prefixes)):
            continue
        for n in own_nodes(f.node):
            if not (isinstance(n, ast.Assign) and len(n.targets) >= 2 and all(isinstance(t, ast.Name) for t in n.targets)):
                continue
            v = n.value
            fresh = isinstance(v, (ast.List, ast.Dict, ast.Set, ast.ListComp, ast.DictComp, ast.SetComp)) or \
                (isinstance(v, ast.Call) and isinstance(v.func, ast.Name) and v.func.id in ("set", "list", "dict", "defaultdict", "OrderedDict", "Counter", "deque"))
            if not fresh:
                continue
            names = [t.id for t in n.targets]
            mutated = set()
            for m in own_nodes(f.node):
                if isinstance(m, ast.Call) and isinstance(m.func, ast.Attribute) and isinstance(m.func.value, ast.Name) and m.func.value.id in names \
                        and m.func.attr in MUTATORS:
                    mutated.add(m.func.value.id)
                elif isinstance(m, ast.Subscript) and isinstance(m.ctx, (ast.Store, ast.Del)) and isinstance(m.value, ast.Name) and m.value.id in names:
                    mutated.add(m.value.id)
                elif isinstance(m, ast.AugAssign) and isinstance(m.target, ast.Name) and m.target.id in names:
                    mutated.add(m.target.id)
            if len(mutated) >= 2:
                yield f, n, sorted(mutated)


# ------------------------------------------------------------------------------------------------------------
def misplaced_named_arguments(ctx):
    """A positional argument that is a plain name equal to the name of *another* parameter of the callee (and not of the one it is
    bound to) — the call site and the signature disagree about the order.  Yields (caller finfo, call, position, argument name,
    parameter it is bound to, position the callee has that name at).  Only precisely resolved calls."""
    for f in ctx.p.functions.values():
        for c in calls_in(f.node):
            if any(isinstance(a, ast.Starred) for a in c.args):
                continue
            targets = ctx.r.resolve_call(f, c)
            if len(targets) != 1:
                continue
            t = targets[0]
            params = list(t.params)
            if t.cls is not None and params and params[0] in ("self", "cls"):
                if t.name == "__init__" or isinstance(c.func, ast.Attribute):
                    params = params[1:]
            for i, a in enumerate(c.args):
                if not isinstance(a, ast.Name) or i >= len(params):
                    continue
                if a.id in params and params.index(a.id) != i and params[i] != a.id:
                    j = params.index(a.id)
                    # not a deliberate swap of two names (f(b, a) for params (a, b) IS the suspicious case) — but skip when the name at
                    # the callee's position is passed there as well (the caller simply has its own variable of that name)
                    other = c.args[j] if j < len(c.args) else next((k.value for k in c.keywords if k.arg == a.id), None)
                    if isinstance(other, ast.Name) and other.id == a.id:
                        continue
                    yield f, c, i, a.id, params[i], j


# ------------------------------------------------------------------------------------------------------------
def iterations_without_progress(ctx, f):
    """`while` loops over plain local counters / lists in which some path through the body returns to the test without passing any
    statement that writes or mutates a variable of the test (typically a `continue` placed before the `i += 1`).  The test has the same
    value again, and — when the statements on that path do not change anything else the path's own branch conditions read — the loop
    never ends.  Yields (loop, witness statement on the path).  Only loops whose test mentions names alone (no calls, no attributes)."""
    from .cfg import CFG
    whiles = [n for n in own_nodes(f.node) if isinstance(n, ast.While)]
    if not whiles:
        return
    cfg = ctx.cfg(f)
    for loop in whiles:
        if any(isinstance(x, (ast.Call, ast.Attribute)) for x in ast.walk(loop.test)) or isinstance(loop.test, ast.Constant):
            continue
        tv = {x.id for x in ast.walk(loop.test) if isinstance(x, ast.Name)}
        if not tv:
            continue
        inner = {id(x) for st in loop.body for x in ast.walk(st)}
        test = next((n for n in cfg.nodes if n.kind == "test" and n.owner is loop), None)
        if test is None:
            continue
        # whatever the branch conditions of the body read counts as state of the iteration as well (fixpoint loops:
        #   while not done: new = step(cur); if new != cur: cur = new else: done = True)
        for st in loop.body:
            for x in ast.walk(st):
                if isinstance(x, (ast.If, ast.While, ast.IfExp)):
                    tv |= {y.id for y in ast.walk(x.test) if isinstance(y, ast.Name)}
        progress = set()
        for n in cfg.nodes:
            a = n.ast
            if a is None or id(a) not in inner and not (n.kind in ("test", "iter") and id(getattr(n, "owner", None)) in inner):
                continue
            if n.kind == "stmt":
                wrote = False
                for x in ast.walk(a):
                    if isinstance(x, ast.Name) and isinstance(x.ctx, (ast.Store, ast.Del)) and x.id in tv:
                        wrote = True
                    elif isinstance(x, ast.Call) and isinstance(x.func, ast.Attribute) and x.func.attr in MUTATORS and isinstance(x.func.value, ast.Name) and x.func.value.id in tv:
                        wrote = True
                    elif isinstance(x, ast.Subscript) and isinstance(x.ctx, (ast.Store, ast.Del)) and isinstance(x.value, ast.Name) and x.value.id in tv:
                        wrote = True
                    elif isinstance(x, ast.Call) and any(isinstance(g, ast.Name) and g.id in tv for g in x.args):
                        wrote = True          # handed to a call: may be mutated
                if wrote or isinstance(a, (ast.Return, ast.Raise, ast.Break)):
                    progress.add(n.id)
        if cfg.paths_avoiding(test, test, progress, src_labels={"T"}, skip_exc=True):
            conts = [x for st in loop.body for x in ast.walk(st) if isinstance(x, ast.Continue)]
            yield loop, (conts[0] if conts else loop)


# ------------------------------------------------------------------------------------------------------------
_READ_ONLY_METHODS = {"values", "keys", "items", "get", "copy", "index", "count", "__contains__", "__len__"}


def never_filled_registries(ctx, module_prefixes):
    """Instance attributes `self.X` that a class initialises to an empty container, that some method of the class reads as a collection
    (iterates, takes .values() / .items() / .keys() of, indexes, tests membership in, measures) — and that nothing can ever fill: no
    subscript / augmented store, no mutating method, never re-bound to something else, and never handed out (assigned to a name, passed
    to a call, returned, stored elsewhere), so no alias can fill it either.  Such a reader answers 'nothing' for ever: whatever is derived
    from it (a distinctness constraint over the registered terms, a declaration list) silently disappears.
    Yields (class info, attribute, reader FuncInfo, read node, total attributes examined)."""
    for cq, c in sorted(ctx.p.classes.items()):
        if not c.module.name.startswith(tuple(module_prefixes)):
            continue
        meths = list(c.methods.values()) + list(c.setters.values())
        empties, other_binds = {}, set()
        for m in meths:
            for n in own_nodes(m.node):
                tg = []
                if isinstance(n, ast.Assign):
                    tg = [(t, n.value) for t in n.targets]
                elif isinstance(n, ast.AnnAssign) and n.value is not None:
                    tg = [(n.target, n.value)]
                for t, v in tg:
                    if isinstance(t, ast.Attribute) and is_name(t.value, "self"):
                        if _empty_container(v):
                            empties.setdefault(t.attr, []).append(n)
                        else:
                            other_binds.add(t.attr)
                    elif isinstance(t, (ast.Tuple, ast.List)):
                        for x in ast.walk(t):
                            if isinstance(x, ast.Attribute) and is_name(x.value, "self"):
                                other_binds.add(x.attr)
        cands = {a for a in empties if a not in other_binds}
        if not cands:
            continue
        # subclasses or other modules touching the attribute through another receiver: the name is then not private to the class
        foreign = set()
        for q, f in ctx.p.functions.items():
            if f.cls is c:
                continue
            for n in own_nodes(f.node):
                if isinstance(n, ast.Attribute) and n.attr in cands:
                    foreign.add(n.attr)
        filled, escaped, reads = set(), set(), {}
        for m in meths:
            for n in own_nodes(m.node):
                if not (isinstance(n, ast.Attribute) and is_name(n.value, "self") and n.attr in cands):
                    continue
                a, p = n.attr, getattr(n, "_parent", None)
                if isinstance(n.ctx, (ast.Store, ast.Del)):
                    continue        # the (empty) bindings themselves
                if isinstance(p, ast.Subscript) and p.value is n:
                    if isinstance(p.ctx, (ast.Store, ast.Del)):
                        filled.add(a)
                    else:
                        reads.setdefault(a, []).append((m, n))
                elif isinstance(p, ast.AugAssign) and p.target is n:
                    filled.add(a)
                elif isinstance(p, ast.Attribute) and p.value is n and isinstance(getattr(p, "_parent", None), ast.Call) and p._parent.func is p:
                    if p.attr in _READ_ONLY_METHODS:
                        reads.setdefault(a, []).append((m, n))
                    else:
                        filled.add(a)       # append / add / update / setdefault / extend / insert / pop ... or anything unknown
                elif isinstance(p, ast.Compare) and n in p.comparators and all(isinstance(o, (ast.In, ast.NotIn)) for o in p.ops):
                    reads.setdefault(a, []).append((m, n))
                elif isinstance(p, (ast.For, ast.comprehension)) and p.iter is n:
                    reads.setdefault(a, []).append((m, n))
                elif isinstance(p, ast.Call) and n in p.args and call_name(p) in ("len", "list", "sorted", "set", "tuple", "any", "all", "sum", "enumerate", "bool", "dict", "iter"):
                    reads.setdefault(a, []).append((m, n))
                else:
                    escaped.add(a)          # returned, assigned, passed on: an alias may fill it
        for a in sorted(cands):
            if a in filled or a in escaped or a in foreign or a not in reads:
                yield c, a, None, None
            else:
                m, n = reads[a][0]
                yield c, a, m, n


# ------------------------------------------------------------------------------------------------------------
_LAZY_CALLS = {"map", "filter", "zip", "iter", "reversed", "enumerate"}


def _is_lazy(v):
    """The expression evaluates to a one-shot iterator (Python 3): map / filter / zip / iter / reversed / enumerate(...), a generator expression."""
    return isinstance(v, ast.GeneratorExp) or (isinstance(v, ast.Call) and isinstance(v.func, ast.Name) and v.func.id in _LAZY_CALLS)


def one_shot_iterators_reused(ctx, module_prefixes):
    """A one-shot iterator that is consulted more than once.  `t = map(...)` (filter, zip, a generator expression) can be walked exactly
    once; a second membership test, a second loop, or a use in a later call of the function sees an empty sequence — `x in t` then answers
    False for an element that is there.  Two shapes:
      (global)  a module global (module level, or assigned under `global`) bound to a one-shot iterator and read by name anywhere;
      (local)   a local bound once, to a one-shot iterator, and loaded at two or more places, or at one place inside a loop that does
                not contain the binding.
    Yields (FuncInfo or None, name, binding node, use node, number of bindings examined)."""
    for mn, mod in sorted(ctx.p.modules.items()):
        if not mn.startswith(tuple(module_prefixes)):
            continue
        funcs = [f for f in ctx.p.functions.values() if f.module is mod]
        lazy_globals = {}
        for st in mod.tree.body:
            if isinstance(st, ast.Assign) and _is_lazy(st.value):
                for t in st.targets:
                    if isinstance(t, ast.Name):
                        lazy_globals[t.id] = (None, st)
        for f in funcs:
            gl = {x for n in own_nodes(f.node) if isinstance(n, ast.Global) for x in n.names}
            binds = {}
            for n in own_nodes(f.node):
                if isinstance(n, ast.Assign) and len(n.targets) == 1 and isinstance(n.targets[0], ast.Name):
                    binds.setdefault(n.targets[0].id, []).append(n)
                elif isinstance(n, (ast.AugAssign, ast.AnnAssign)) and isinstance(n.target, ast.Name):
                    binds.setdefault(n.target.id, []).append(n)
                elif isinstance(n, (ast.For, ast.comprehension)):
                    for x in ast.walk(n.target):
                        if isinstance(x, ast.Name):
                            binds.setdefault(x.id, []).append(n)
            for name, bs in sorted(binds.items()):
                lazy = [b for b in bs if isinstance(b, ast.Assign) and _is_lazy(b.value)]
                if not lazy:
                    yield f, name, None, None
                    continue
                if name in gl:
                    lazy_globals[name] = (f, lazy[0])
                    continue
                if len(bs) != 1:
                    yield f, name, None, None        # re-bound (typically `x = list(x)`): not decided here
                    continue
                loads = [x for x in own_nodes(f.node) if isinstance(x, ast.Name) and x.id == name and isinstance(x.ctx, ast.Load)]
                hit = None
                if len(loads) >= 2:
                    hit = loads[1]
                elif len(loads) == 1:
                    cur = getattr(loads[0], "_parent", None)
                    while cur is not None and cur is not f.node:
                        if isinstance(cur, (ast.For, ast.While)) and not any(x is lazy[0] for x in ast.walk(cur)) and not (isinstance(cur, ast.For) and any(x is loads[0] for x in ast.walk(cur.iter))):
                            hit = loads[0]
                            break
                        cur = getattr(cur, "_parent", None)
                yield f, name, (lazy[0] if hit is not None else None), hit
        for name, (bf, bnode) in sorted(lazy_globals.items()):
            use = None
            for f in funcs:
                for x in own_nodes(f.node):
                    if isinstance(x, ast.Name) and x.id == name and isinstance(x.ctx, ast.Load):
                        use = (f, x)
                        break
                if use:
                    break
            if use:
                yield use[0], name, bnode, use[1]
            else:
                yield bf, name, None, None
