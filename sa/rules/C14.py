"""C14 — splitting partitions the block; rebuilding with nothing optimized is identity (scoped claim, weak).

C14.a one naming expression for sub-blocks: writer (generate_json) and reader (rebuild_optimized_asm_block) build the
      key as <block name> + "_" + str(<index>), both indices count sub-blocks from 0 in steps of 1
C14.b every splitting / store instruction has a stack arity and a translation (the splitter reads both)
C14.c the rebuild never fabricates instructions (shared with C09.b)
C14.d variable numbers are compared as numbers
C14.e partition cuts: relative positions are re-based by the offset of the cut
C14.f numeric partition: pieces, overlaps and re-assembly
"""
import ast

from ..core.flow import call_name, calls_in, is_name
from ..core.loader import AnalysisError, short, own_nodes, norm, canon, function_locals
from ..core.report import where
from . import C09

TECHNIQUE = ("expression-shape agreement between the writer and the reader of sub-block names; induction-variable check of "
             "the sub-block counters; table/handler coverage of the split vocabulary by abstract evaluation")
LEVEL_TEXT = ("Decides the sentence 'every specification key corresponds to one reported sub-block' as far as naming goes: "
              'keys are written and looked up with the same expression over indices that both enumerate sub-blocks from 0; '
              'and that every instruction the splitter can cut at has the arity and translation it reads. The partition and '
              'identity statements are decided on bounded families by abstract evaluation: split_blocks on every opcode '
              'sequence of length <= 4 over {ordinary, split, store, terminating} (C14.g), the numeric partition on every '
              'cut set of small lists (C14.f), rebuild(B, nothing replaced) = B on the block family of C09.f (C14.h), and '
              'the helpers that receive the sub-block list leave it intact (C14.i).'
              ' Added in seeding rounds 8-9: the reported sub-block list is the translated one on every path (C14.k, reaching definitions) and the sub-block after a result-bearing split instruction starts from its result in every spelling the translator uses (C14.l).')
EXPLANATION = ("Writer: generate_json stores blocks_json_dict[block_name + '_' + str(subblock)] (or + '_0' when unsplit); reader: "
               "rebuild_optimized_asm_block looks up previous_block.block_name + '_' + str(enumerate index).")
NOT_DECIDED = ('the same statements for blocks outside the evaluated families; where the numeric heuristic chooses to cut')
ASSUMPTIONS = ["the block name handed to the front-end is AsmBlock.block_name (checked in compute_original_sfs_with_simplifications)"]

GO = "sfs_generator.gasol_optimization"


def _name_shape(e):
    """('name-expr', 'index-expr') if e is <x> + "_" + str(<y>) ; ('name-expr', '0') for <x> + "_0"; else None."""
    if isinstance(e, ast.BinOp) and isinstance(e.op, ast.Add):
        if isinstance(e.right, ast.Call) and call_name(e.right) == "str" and isinstance(e.left, ast.BinOp) and isinstance(e.left.op, ast.Add) \
                and isinstance(e.left.right, ast.Constant) and e.left.right.value == "_":
            return norm(e.left.left), norm(e.right.args[0])
        if isinstance(e.right, ast.Constant) and e.right.value == "_0":
            return norm(e.left), "0"
    if isinstance(e, ast.JoinedStr) and len(e.values) == 3 and isinstance(e.values[1], ast.Constant) and e.values[1].value == "_":
        return norm(e.values[0].value), norm(e.values[2].value)
    return None


def rule_a(ctx, out):
    gj = ctx.func(f"{GO}.generate_json")
    # writer: the key under which the specification is stored
    stores = [n for n in own_nodes(gj.node) if isinstance(n, ast.Assign) and isinstance(n.targets[0], ast.Subscript)
              and is_name(n.targets[0].value, "blocks_json_dict")]
    if not stores:
        raise AnalysisError("generate_json: store into blocks_json_dict not found")
    key = stores[0].targets[0].slice
    defs = [n for n in own_nodes(gj.node) if isinstance(n, ast.Assign) and isinstance(key, ast.Name) and is_name(n.targets[0], key.id)]
    shapes = [_name_shape(d.value) for d in defs]
    by_helper = False
    if len(defs) == 1 and shapes[0] is None and isinstance(defs[0].value, ast.Call):
        # the key comes from a naming helper: decided by evaluation — helper(<name>, None) = <name>_0, helper(<name>, k) = <name>_<k>
        from ..core.interp import ModuleInterp
        from ..core.minieval import Unsupported, Raised
        c = defs[0].value
        tg = ctx.r.resolve_call(gj, c)
        if len(tg) == 1 and len(c.args) == 2 and not c.keywords and is_name(c.args[0], gj.params[0]) and is_name(c.args[1], "subblock"):
            mi = ModuleInterp(ctx, max_steps=20000)
            try:
                got = [mi.call(tg[0], "Blk", k) for k in (None, 0, 3, 12)]
            except (Unsupported, Raised) as e:
                raise AnalysisError(f"{tg[0].name}: the naming helper cannot be evaluated: {e}")
            if got == ["Blk_0", "Blk_0", "Blk_3", "Blk_12"]:
                by_helper = True
                for k_, g_ in zip((None, 0, 3, 12), got):
                    out.ok({"writer": short(c), "sub_block": k_, "key": g_})
            else:
                out.bad("generate_json:key-parts:helper", f"the naming helper {tg[0].name} yields {got} for sub-blocks None, 0, 3, 12 of `Blk`", where(tg[0]))
                return
    if by_helper:
        shapes, defs = [], []
    elif not shapes or any(s is None for s in shapes):
        out.bad("generate_json:key-shape", f"specification key is built as {[short(d.value) for d in defs]}, not <name> + '_' + str(<index>)", where(gj))
        return
    pname, pidx = gj.params[0], "subblock"
    for s, d in zip(shapes, defs):
        if s[0] == pname and s[1] in (pidx, "0"):
            out.ok({"writer": short(d.value), "name": s[0], "index": s[1]})
        else:
            out.bad(f"generate_json:key-parts:{s[0]}+{s[1]}", f"specification key uses {s}, expected ({pname}, {pidx})", where(gj, d))
    # '_0' only when subblock is None
    for d in defs:
        if _name_shape(d.value)[1] == "0":
            from ..core.flow import established_by_enclosing_ifs, compare_atom
            if established_by_enclosing_ifs(d, gj.node, compare_atom(pidx, None)):
                out.ok({"unsplit_key": "<name>_0 iff subblock is None"})
            else:
                out.bad("generate_json:unsplit-key-condition", "the '_0' key is not restricted to subblock is None", where(gj, d))
    # reader
    rb = ctx.func(C09.REBUILD)
    rdefs = [n for n in own_nodes(rb.node) if isinstance(n, ast.Assign) and _name_shape(n.value) is not None]
    if not rdefs:
        out.bad("rebuild:key-shape", "rebuild_optimized_asm_block does not build the sub-block name as <name> + '_' + str(<index>)", where(rb))
        return
    for d in rdefs:
        nm, idx = _name_shape(d.value)
        if nm == f"{rb.params[0]}.block_name":
            out.ok({"reader": short(d.value)})
        else:
            out.bad("rebuild:name-part", f"reader uses {nm} as block name, expected {rb.params[0]}.block_name", where(rb, d))
        # index is the enumerate variable over the sub-block list, starting at 0
        loops = [l for l in own_nodes(rb.node) if isinstance(l, ast.For) and isinstance(l.iter, ast.Call) and call_name(l.iter) == "enumerate"
                 and isinstance(l.target, ast.Tuple) and is_name(l.target.elts[0], idx)]
        if loops and len(loops[0].iter.args) == 1 and not loops[0].iter.keywords and is_name(loops[0].iter.args[0], rb.params[1]):
            out.ok({"reader_index": f"enumerate({rb.params[1]}) from 0"})
        else:
            out.bad("rebuild:index-not-enumeration-from-0", f"reader index {idx} is not the position in {rb.params[1]} counted from 0", where(rb, d))
        # looked up in the replacement map with that very name
        uses = [s for s in own_nodes(rb.node) if isinstance(s, ast.Subscript) and is_name(s.value, rb.params[2]) and is_name(s.slice, d.targets[0].id)]
        uses += [s for s in own_nodes(rb.node) if isinstance(s, ast.Call) and isinstance(s.func, ast.Attribute) and s.func.attr == "get" and is_name(s.func.value, rb.params[2])
                 and s.args and is_name(s.args[0], d.targets[0].id)]
        if uses:
            out.ok({"reader_lookup": f"{rb.params[2]}[{d.targets[0].id}]"})
        else:
            out.bad("rebuild:lookup-with-other-key", "the replacement map is not indexed with the computed sub-block name", where(rb))
    # writer index: generate_subblocks counts i from 0 by 1 and passes it as idx to both translators
    gs = ctx.func(f"{GO}.generate_subblocks")
    # the index handed to translate_subblock is the position of the sub-block in the list; the last sub-block gets len(list) - 1
    def idx_arg(callee):
        t = ctx.func(f"{GO}.{callee}")
        if "idx" not in t.params:
            raise AnalysisError(f"{callee}: idx parameter not found")
        cs = calls_in(gs.node, callee)
        if len(cs) != 1 or len(cs[0].args) <= t.params.index("idx"):
            raise AnalysisError(f"generate_subblocks: call of {callee} with an idx argument not found")
        return cs[0], cs[0].args[t.params.index("idx")]
    c_mid, a_mid = idx_arg("translate_subblock")
    c_last, a_last = idx_arg("translate_last_subblock")
    L = gs.params[1]
    if not isinstance(a_mid, ast.Name):
        raise AnalysisError("generate_subblocks: translate_subblock is not given a variable as idx")
    I = a_mid.id
    from ..core.flow import single_assignments
    sa_ = single_assignments(gs.node)

    def is_last_index(e, depth=0):
        """e denotes len(L) - 1"""
        if norm(e).replace(" ", "") == f"len({L})-1":
            return True
        if isinstance(e, ast.Name) and depth < 3:
            defs = sa_.get(e.id, [])
            return len(defs) == 1 and defs[0][2] is None and is_last_index(defs[0][1], depth + 1)
        return False
    loop = getattr(c_mid, "_parent", None)
    while loop is not None and not isinstance(loop, (ast.While, ast.For)):
        loop = getattr(loop, "_parent", None)
    counter_ok, last_ok = False, False
    if isinstance(loop, ast.While):
        init = [n for n in gs.node.body if isinstance(n, ast.Assign) and is_name(n.targets[0], I) and isinstance(n.value, ast.Constant) and n.value.value == 0]
        inc = [n for n in loop.body if isinstance(n, ast.AugAssign) and is_name(n.target, I) and isinstance(n.op, ast.Add) and isinstance(n.value, ast.Constant) and n.value.value == 1]
        other_writes = [n for n in own_nodes(gs.node) if isinstance(n, (ast.Assign, ast.AugAssign))
                        and any(is_name(t_, I) for t_ in (n.targets if isinstance(n, ast.Assign) else [n.target])) and n not in init and n not in inc]
        bound = isinstance(loop.test, ast.Compare) and len(loop.test.ops) == 1 and isinstance(loop.test.ops[0], ast.Lt) and is_name(loop.test.left, I) \
            and is_last_index(loop.test.comparators[0])
        counter_ok = bool(init) and len(inc) == 1 and not other_writes and loop.body[-1] is inc[0]
        # after `while I < len(L) - 1` with I advanced by one, I == len(L) - 1
        last_ok = (is_name(a_last, I) and bound and counter_ok) or is_last_index(a_last)
        how = f"{I} = 0; one `{I} += 1` as last statement of each iteration"
    elif isinstance(loop, ast.For):
        rng = loop.iter
        counter_ok = is_name(loop.target, I) and isinstance(rng, ast.Call) and call_name(rng) == "range" and len(rng.args) == 1 and is_last_index(rng.args[0]) \
            and not any(isinstance(n, (ast.Assign, ast.AugAssign)) and any(is_name(t_, I) for t_ in (n.targets if isinstance(n, ast.Assign) else [n.target]))
                        for n in own_nodes(gs.node))
        last_ok = is_last_index(a_last)
        how = f"for {I} in range(len({L}) - 1)"
    if counter_ok:
        out.ok({"writer_index": how})
    else:
        out.bad("generate_subblocks:index-not-a-counter", "the sub-block index is not a counter from 0 advanced once per sub-block", where(gs))
    # the sub-block translated in an iteration is the one at that index
    fetched = [n for n in (loop.body if loop is not None else []) if isinstance(n, ast.Assign) and isinstance(n.value, ast.Subscript) and is_name(n.value.value, L)]
    if fetched and all(is_name(n.value.slice, I) for n in fetched):
        out.ok({"call": "translate_subblock", "idx": I, "sub_block": f"{L}[{I}]"})
    else:
        out.bad("generate_subblocks:translate_subblock:index-argument", f"translate_subblock is not given the position of the sub-block it translates ({L}[{I}])", where(gs, c_mid))
    if last_ok:
        out.ok({"call": "translate_last_subblock", "idx": f"len({L}) - 1"})
    else:
        out.bad("generate_subblocks:translate_last_subblock:index-argument", "translate_last_subblock is not given the index of the last sub-block", where(gs, c_last))
    for callee in ("translate_subblock", "translate_last_subblock"):
        t = ctx.func(f"{GO}.{callee}")
        pos = t.params.index("idx") if "idx" in t.params else None
        cs = calls_in(gs.node, callee)
        if pos is None or not cs:
            raise AnalysisError(f"{callee}: idx parameter / call site not found")
        # and hands it on as subblock=idx with the sub-block name
        gcalls = calls_in(t.node, "generate_json")
        for c in gcalls:
            kw = {k.arg: k.value for k in c.keywords}
            namepar = "sub_block_name" if "sub_block_name" in t.params else "block_name"
            if "subblock" in kw and is_name(kw["subblock"], "idx") and c.args and is_name(c.args[0], namepar):
                out.ok({"function": callee, "generate_json": f"({namepar}, ..., subblock=idx)"})
            else:
                out.bad(f"{callee}:generate_json-arguments", f"{callee} does not call generate_json({namepar}, ..., subblock=idx)", where(t, c))
    # name at the entry: AsmBlock.block_name
    co = ctx.func("gasol_asm.compute_original_sfs_with_simplifications")
    kws = {k.arg: norm(k.value) for c in calls_in(co.node, "evm2rbr_compiler") for k in c.keywords}
    src = {n.targets[0].id: norm(n.value) for n in own_nodes(co.node) if isinstance(n, ast.Assign) and isinstance(n.targets[0], ast.Name)}
    if src.get(kws.get("block_name", ""), kws.get("block_name")) == f"{co.params[0]}.block_name":
        out.ok({"entry": "block_name = block.block_name"})
    else:
        out.bad("entry:block-name-source", "the front-end is not given AsmBlock.block_name as block name", where(co))


def rule_b(ctx, out):
    from . import roundtrip as rt
    rows, info, own, _ = rt.table(ctx)
    voc = sorted(set(info["split_block"]) | set(info["store_instructions"]))
    if len(voc) < 15:
        raise AnalysisError(f"split vocabulary has only {len(voc)} members")
    from ..specs.evm import STACK_ARITY
    for o in voc:
        ar = own.get(o)
        row = rows.get(o)
        if ar is None:
            out.bad(f"split-instruction-without-arity:{o}", f"{o} splits blocks but opcodes.get_opcode has no entry: compute_target_stack_subblock cannot "
                    f"compute the stack of the next sub-block", "sfs_generator/opcodes.py")
            continue
        if row is None or row.get("error_line") or "raises" in row:
            out.bad(f"split-instruction-without-translation:{o}", f"{o} splits blocks but ir_block has no translation for it ({row})", rt.IR)
            continue
        ref = STACK_ARITY.get(o)
        if ref is not None and tuple(ar) != tuple(ref):
            out.bad(f"split-instruction-arity:{o}", f"{o}: table says {ar}, EVM says {ref}", "sfs_generator/opcodes.py")
            continue
        if row["delta"] != ar[1] - ar[0]:
            out.bad(f"split-instruction-delta:{o}", f"{o}: translation changes the stack by {row['delta']}, the arity table by {ar[1] - ar[0]}: the source "
                    f"stack of the following sub-block is misaligned", rt.IR)
            continue
        out.ok({"split_instruction": o, "arity": list(ar), "translation": row["lines"]})


def rule_c(ctx, out):
    C09.rule_b(ctx, out)


def rule_e(ctx, out):
    """split_by_numbers keeps the store positions *relative to the last cut* and the cuts absolute: each round records the cut
    `E + last` and re-bases the remaining positions by the same relative offset E.  Subtracting anything else (the absolute cut,
    the previous offset) moves every later cut off its store."""
    f = ctx.func(f"{GO}.split_by_numbers")
    loops = [n for n in own_nodes(f.node) if isinstance(n, ast.While)]
    if not loops:
        raise AnalysisError("split_by_numbers: loop not found")
    stores = f.params[0]
    result_lists = {r.value.id for r in own_nodes(f.node) if isinstance(r, ast.Return) and isinstance(r.value, ast.Name)}
    # the running absolute cut: assigned from <list>[-1] after an append, or accumulated as  last = E + last
    lasts = {st.targets[0].id for st in ast.walk(loops[0]) if isinstance(st, ast.Assign) and len(st.targets) == 1 and isinstance(st.targets[0], ast.Name)
             and ((isinstance(st.value, ast.Subscript) and norm(st.value.slice) == "-1" and isinstance(st.value.value, ast.Name) and st.value.value.id in result_lists)
                  or (isinstance(st.value, ast.BinOp) and isinstance(st.value.op, ast.Add) and any(is_name(x, st.targets[0].id) for x in (st.value.left, st.value.right))))}
    if len(lasts) != 1:
        raise AnalysisError("split_by_numbers: the running absolute cut was not identified")
    last = lasts.pop()

    def offset_added(stmts):
        """relative offsets E such that a cut E + last is recorded in this statement list"""
        res = []
        for st in stmts:
            e = None
            if isinstance(st, ast.Expr) and isinstance(st.value, ast.Call) and call_name(st.value) == "append" and st.value.args:
                e = st.value.args[0]
            elif isinstance(st, ast.Assign) and len(st.targets) == 1 and is_name(st.targets[0], last):
                e = st.value
            if isinstance(e, ast.BinOp) and isinstance(e.op, ast.Add):
                rel = [p for p in (e.left, e.right) if not is_name(p, last)]
                if len(rel) == 1 and any(is_name(p, last) for p in (e.left, e.right)):
                    res.append((st, rel[0]))
        return res

    def offset_subtracted(stmts):
        res = []
        for st in stmts:
            if isinstance(st, ast.Assign) and len(st.targets) == 1 and is_name(st.targets[0], stores):
                for l in ast.walk(st.value):
                    body, var = None, None
                    if isinstance(l, ast.Lambda) and l.args.args:
                        body, var = l.body, l.args.args[0].arg
                    elif isinstance(l, (ast.ListComp, ast.GeneratorExp)) and isinstance(l.generators[0].target, ast.Name):
                        body, var = l.elt, l.generators[0].target.id
                    if isinstance(body, ast.BinOp) and isinstance(body.op, ast.Sub) and is_name(body.left, var):
                        res.append((st, body.right))
        return res

    def lists(stmts):
        yield stmts
        for st in stmts:
            if isinstance(st, ast.If):
                yield from lists(st.body)
                yield from lists(st.orelse)
    n = 0
    for stmts in lists(loops[0].body):
        adds, subs = offset_added(stmts), offset_subtracted(stmts)
        if not adds and not subs:
            continue
        if not adds or not subs:
            out.bad("split_by_numbers:cut-and-rebase-apart", "a cut is recorded and the remaining positions are re-based in different branches: the two offsets "
                    "cannot be matched", where(f, (adds or subs)[0][0]))
            continue
        n += 1
        E = norm(adds[0][1])
        if all(norm(x[1]) == E for x in adds) and all(norm(x[1]) == E for x in subs):
            out.ok({"function": "split_by_numbers", "cut": f"{E} + {last}", "remaining_positions_rebased_by": E})
        else:
            got = norm(subs[0][1])
            out.bad(f"split_by_numbers:rebase-offset-differs:{canon(E, function_locals(f.node))}", f"the cut is recorded as {E} + {last} but the remaining store positions "
                    f"are re-based by {got}", where(f, subs[0][0]))
    if n < 1:
        raise AnalysisError("split_by_numbers: no cut / re-base pair found")


def rule_d(ctx, out):
    """Stack variables are numbered, and their numbers are compared as numbers: the greatest variable of a sub-block's last
    instruction fixes the source stack of the next sub-block.  max/min over strings is lexicographic ('s(9)' > 's(10)')."""
    from ..core.idioms import extremes
    n = 0
    for f, call, t in extremes(ctx):
        n += 1
        if t == "str":
            out.bad(f"lexicographic-extreme:{f.name}:{norm(call)[:40]}", f"{f.name}: `{short(call, 60)}` takes the extreme of strings — lexicographic, "
                    f"not numeric, order ('s(9)' > 's(10)')", where(f, call), {"element_type": t})
        else:
            out.ok({"function": f.name, "call": short(call, 50), "element_type": t or "not a string list (unknown or numeric)"})
    if n < 6:
        raise AnalysisError(f"only {n} max/min-over-iterable calls found")


def rule_f(ctx, out):
    """split_blocks_by_number cuts the rbr instruction list after the k-th opcode annotation for every k in where2split.  Its consumer
    (generate_subblocks) relies on: one more piece than cuts; every piece after the first starts with the two lines that end the
    piece before it (the cut instruction and its annotation); the pieces re-assemble to the input.  Evaluated abstractly on every cut
    set of small instruction lists — in particular a cut at the very last opcode, which leaves a last piece of just the two shared lines."""
    import itertools
    from ..core.interp import ModuleInterp
    from ..core.minieval import Unsupported, Raised
    f = ctx.func(f"{GO}.split_blocks_by_number")
    mi = ModuleInterp(ctx, max_steps=100000)
    n = 0
    for n_ops in (2, 3, 4):
        instrs = []
        for k in range(n_ops):
            instrs += [f"s({k}) = op{k}(s({k + 1}))", f"nop(OP{k})"]
        for r in range(0, n_ops + 1):
            for cuts in itertools.combinations(range(n_ops), r):
                try:
                    pieces = mi.call(f, list(instrs), list(cuts))
                except Raised as e:
                    out.bad("split_blocks_by_number:raises", f"split_blocks_by_number raises {e.what} for cuts {cuts} on {n_ops} opcodes", where(f))
                    continue
                except Unsupported as e:
                    raise AnalysisError(f"split_blocks_by_number: cannot evaluate abstractly: {e}")
                n += 1
                problem = None
                if not isinstance(pieces, list) or len(pieces) != len(cuts) + 1:
                    problem = f"{len(pieces) if isinstance(pieces, list) else pieces!r} pieces for {len(cuts)} cut(s)"
                else:
                    rebuilt = list(pieces[0])
                    for prev, cur in zip(pieces, pieces[1:]):
                        if cur[:2] != prev[-2:]:
                            problem = "a piece does not start with the two lines that end the piece before it"
                            break
                        rebuilt += cur[2:]
                    if problem is None and rebuilt != instrs:
                        problem = "the pieces do not re-assemble to the input"
                if problem is None:
                    out.ok()
                else:
                    last = bool(cuts) and cuts[-1] == n_ops - 1
                    out.bad(f"split_blocks_by_number:{'cut-at-last-opcode' if last else 'cuts'}:{problem.split(' for ')[0].split(' ')[-1] if 'pieces for' in problem else 'shape'}",
                            f"split_blocks_by_number on {n_ops} opcodes with cuts {list(cuts)}: {problem}", where(f), {"pieces": repr(pieces)[:300]})
    out.samples.append({"cut_sets_evaluated": n})
    if n < 25:
        raise AnalysisError(f"only {n} cut sets evaluated")


def rule_g(ctx, out):
    """split_blocks cuts the rbr instruction list after every splitting / terminating opcode.  Contract its consumers rely on: the
    pieces re-assemble to the input when the two shared lines (the split instruction and its annotation) of every later piece are
    dropped; every later piece starts with exactly those two lines; every piece but the last ends with a split annotation and no
    piece has one in its interior.  Evaluated abstractly on every opcode sequence of length 1..4 over {ordinary, split, store,
    terminating} opcodes, with and without stores being split instructions (-storage)."""
    import itertools
    from ..core.interp import ModuleInterp
    from ..core.minieval import Unsupported, Raised
    f = ctx.func(f"{GO}.split_blocks")

    class Rule:
        def __init__(self, ins):
            self._ins = ins

        def get_instructions(self):
            return self._ins
    mi = ModuleInterp(ctx, max_steps=100000, obj_types=(Rule,))
    consts = mi.module_env("global_params.constants")
    base_split = consts.get("split_block")
    stores = consts.get("store_instructions")
    term = mi.module_env(GO).get("terminate_block")
    if not isinstance(base_split, (set, frozenset)) or not isinstance(stores, (set, frozenset)) or not term:
        raise AnalysisError("constants.split_block / store_instructions / terminate_block are not available to the abstract evaluation")
    n = 0
    for with_storage in (False, True):
        split_now = set(base_split) | (set(stores) if with_storage else set())
        consts["split_block"] = split_now
        alphabet = ["ADD", sorted(base_split)[0], "SSTORE", list(term)[0]]
        for length in (1, 2, 3, 4):
            for ops in itertools.product(alphabet, repeat=length):
                instrs = []
                for k, o in enumerate(ops):
                    instrs += [f"s({k}) = f{k}(s({k + 1}))", f"nop({o})"]
                try:
                    pieces = mi.call(f, Rule(list(instrs)), False, [])
                except Raised as e:
                    out.bad("split_blocks:raises", f"split_blocks raises {e.what} on {list(ops)}", where(f))
                    continue
                except Unsupported as e:
                    raise AnalysisError(f"split_blocks: cannot evaluate abstractly: {e}")
                n += 1
                is_split = lambda line: line.startswith("nop(") and (line[4:-1] in split_now or line[4:-1] in term)
                problem = None
                if not isinstance(pieces, list) or not pieces or not all(isinstance(p, list) for p in pieces):
                    problem = "result-shape"
                else:
                    rebuilt = list(pieces[0])
                    for prev, cur in zip(pieces, pieces[1:]):
                        if cur[:2] != prev[-2:]:
                            problem = "piece-does-not-start-with-the-shared-split-instruction"
                            break
                        rebuilt += cur[2:]
                    if problem is None and rebuilt != instrs:
                        problem = "pieces-do-not-re-assemble"
                    if problem is None and len(pieces) != 1 + sum(1 for x in instrs if is_split(x)):
                        problem = "number-of-pieces"
                    if problem is None:
                        for i, pc in enumerate(pieces):
                            interior = pc[2:-1] if i > 0 else pc[:-1]
                            if any(is_split(x) for x in interior) or (i < len(pieces) - 1 and not is_split(pc[-1])):
                                problem = "split-instruction-inside-a-piece"
                                break
                if problem is None:
                    out.ok()
                else:
                    out.bad(f"split_blocks:{problem}{':storage' if with_storage else ''}", f"split_blocks on the opcodes {list(ops)} "
                            f"({'stores split' if with_storage else 'stores not split'}): {problem.replace('-', ' ')}", where(f), {"pieces": repr(pieces)[:300]})
    consts["split_block"] = base_split
    out.samples.append({"opcode_sequences_evaluated": n})
    if n < 600:
        raise AnalysisError(f"only {n} opcode sequences evaluated")


def rule_h(ctx, out):
    """rebuild(B, nothing replaced) = B, and a replaced sub-block changes its own segment only: decided by abstract evaluation of the
    stitching on the bounded block family of C09.f (14 of its 56 members replace nothing)."""
    from . import C09
    C09.rule_f(ctx, out)


def rule_i(ctx, out):
    """The sub-block list a block was split into is what the rebuild walks over afterwards, so whatever else receives that list in
    between must leave it as it is.  Every repository function that is called with a variable which the same caller also hands to
    rebuild_optimized_asm_block is interpreted on lists of sub-blocks (1..3 sub-blocks with shared split instructions); the argument
    must be unchanged after the call, nested lists included."""
    import copy
    from ..core.interp import ModuleInterp
    from ..core.minieval import Unsupported, Raised
    REBUILD_NAME = "rebuild_optimized_asm_block"
    consumers = {}
    n_callers = 0
    for f in ctx.p.functions.values():
        handed = set()
        for c in calls_in(f.node, REBUILD_NAME):
            for a in c.args[1:2]:
                if isinstance(a, ast.Name):
                    handed.add(a.id)
        if not handed:
            continue
        n_callers += 1
        for c in calls_in(f.node):
            if call_name(c) == REBUILD_NAME:
                continue
            for pos, a in enumerate(c.args):
                if isinstance(a, ast.Name) and a.id in handed:
                    for t in ctx.r.resolve_call(f, c):
                        consumers[(t.qual, pos)] = (t, f)
    if not n_callers:
        raise AnalysisError("no caller hands a sub-block list variable to rebuild_optimized_asm_block")
    mi = ModuleInterp(ctx, max_steps=100000)
    families = [[["PUSH 1", "ADD"]],
                [["PUSH 1", "LOG0"], ["LOG0", "ADD", "POP"]],
                [["PUSH 1", "LOG0"], ["LOG0", "SSTORE"], ["SSTORE", "ADD"]],
                [["CALL"], ["CALL", "POP"]],
                [["PUSH 1", "SSTORE"], ["SSTORE"]]]
    n = 0
    for (qual, pos), (t, caller) in sorted(consumers.items()):
        if len(t.params) <= pos:
            continue
        for fam in families:
            arg = copy.deepcopy(fam)
            args = [None] * len([p_ for p_ in t.params])
            args = args[:pos] + [arg]
            try:
                mi.call(t, *args)
            except Raised:
                pass
            except Unsupported as e:
                raise AnalysisError(f"{t.name} (receives the sub-block list in {caller.name}) cannot be evaluated abstractly: {e}")
            n += 1
            if arg == fam:
                out.ok({"function": t.qual, "sub_blocks": len(fam), "argument": "unchanged"})
            else:
                out.bad(f"sub-block-list-mutated-by:{t.name}", f"{t.name} changes the sub-block list it is given ({fam} becomes {arg}); {caller.name} hands the same "
                        f"list to {REBUILD_NAME} afterwards, which then walks over the wrong instructions", where(t))
    out.samples.append({"functions_receiving_the_sub_block_list": sorted(q for q, _ in consumers)})
    if n < 5:
        raise AnalysisError(f"only {n} calls evaluated: no function receiving the sub-block list was found")


# call sites where a caller's local happens to carry the name of another parameter of the callee; read one by one
ARG_ORDER_TRIAGED = {
    "needed_nostores->computed:v->od": "computed(v, od) asks whether `od` needs `v`; the caller asks whether the final-stack element (its local `v`) needs the load's "
                                       "result `op`: roles match, only the local's name coincides with the callee's first parameter",
    "compute_binary->check_size:expression->exp_without": "the caller's `expression` is the unfolded pair, i.e. the callee's exp_without; the folded value goes to the "
                                                          "callee's `expression`: roles match (decided behaviourally by C03.d)",
    "build_userdef_instructions->modified_svariable:new_uvar->old_uvar": "the caller's freshly created variable is the one being replaced by the existing "
                                                                         "instruction's output: it is the callee's old_uvar",
}


def rule_j(ctx, out):
    """Call sites and signatures agree on the order of arguments.  The splitting policies are passed as adjacent boolean flags
    (storage / partition); a signature whose parameters are re-ordered while a caller still passes them positionally exchanges the two
    policies without any error.  Project-wide: a positional argument that is a plain name equal to the name of *another* parameter of
    the (precisely resolved) callee is reported unless the site was read and recorded."""
    from ..core.idioms import misplaced_named_arguments
    n_calls = 0
    for f in ctx.p.functions.values():
        n_calls += sum(1 for c in calls_in(f.node) if len(ctx.r.resolve_call(f, c)) == 1)
    seen = set()
    for f, c, i, a, p_, j in misplaced_named_arguments(ctx):
        callee = ctx.r.resolve_call(f, c)[0]
        key = f"{f.name}->{callee.name}:{a}->{p_}"
        if key in seen:
            continue
        seen.add(key)
        if key in ARG_ORDER_TRIAGED:
            out.unproven.append({"site": key, "reason": ARG_ORDER_TRIAGED[key]})
            out.ok()
        else:
            out.bad(f"argument-order:{key}", f"{f.name} passes `{a}` as argument {i + 1} of {callee.name}{tuple(callee.params)}, where the callee has `{p_}`; the "
                    f"callee's own `{a}` is parameter {j + 1}: the call site and the signature disagree about the order", where(f, c))
    out.ok({"precisely_resolved_calls_examined": n_calls})
    if n_calls < 500:
        raise AnalysisError(f"only {n_calls} precisely resolved calls")


def rule_k(ctx, out):
    """The sub-blocks smt_translate_block reports are the ones it wrote specifications for.  The function hands a list to generate_subblocks
    (or one block to translate_block), which stores one specification per element under `<block>_<index>`; afterwards it returns the
    instructions of `subblocks`, and callers replace sub-block k by what was synthesised for key k.  On every path, the list that reaches
    the reporting loop must be the very list (or `[block]`) that was handed to the translation: a refined list that is translated while
    the coarse one is reported makes key k describe other instructions than reported sub-block k."""
    from ..core.flow import reaching_defs, node_binds
    f = ctx.func(f"{GO}.smt_translate_block")
    cfg = ctx.cfg(f)
    rets = [n for n in own_nodes(f.node) if isinstance(n, ast.Return) and isinstance(n.value, ast.Name)]
    if not rets:
        raise AnalysisError("smt_translate_block: no `return <name>` found")
    rname = rets[-1].value.id
    loops = [l for l in own_nodes(f.node) if isinstance(l, ast.For) and isinstance(l.iter, ast.Name)
             and any(isinstance(c.func, ast.Attribute) and c.func.attr == "append" and is_name(c.func.value, rname) for st in l.body for c in calls_in(st))]
    if len(loops) != 1:
        raise AnalysisError(f"smt_translate_block: the loop that builds the reported list `{rname}` was not found")
    X = loops[0].iter.id
    head = next((n for n in cfg.nodes if n.kind == "iter" and n.owner is loops[0]), None)
    if head is None:
        raise AnalysisError("smt_translate_block: flow-graph node of the reporting loop not found")
    binders = lambda v: [n for n in cfg.nodes if v in node_binds(n)]
    bx = binders(X)
    sites = [(c, "list", 1) for c in calls_in(f.node, "generate_subblocks")] + [(c, "block", 2) for c in calls_in(f.node, "translate_block")]
    n = 0
    for c, kind, pos in sites:
        if len(c.args) <= pos or not isinstance(c.args[pos], ast.Name):
            out.bad(f"smt_translate_block:translated-argument-not-a-name:{call_name(c)}", f"`{short(c, 60)}`: the translated {kind} is not a plain name", where(f, c))
            continue
        A = c.args[pos].id
        cn = cfg.node_containing(c)
        if not cfg.reaches(cn, head):
            continue
        n += 1
        last = []       # bindings of X that can be the last one before the reporting loop on a path through this call
        if cfg.paths_avoiding(cn, head, {b.id for b in bx}):
            last += [(d, "before") for d in reaching_defs(cfg, X, cn)]
        for b in bx:
            if b is not cn and cfg.reaches(cn, b) and (b is head or cfg.paths_avoiding(b, head, {o.id for o in bx if o is not b})):
                last.append((b, "after"))
        ba = binders(A)
        bad = None
        for d, when in last:
            val = d.ast.value if d.kind == "stmt" and isinstance(d.ast, ast.Assign) and len(d.ast.targets) == 1 and is_name(d.ast.targets[0], X) else None
            if kind == "list" and A == X and when == "before":
                continue                                    # the reported name itself was handed over and not re-bound since
            want = (isinstance(val, ast.Name) and val.id == A) if kind == "list" else \
                (isinstance(val, ast.List) and len(val.elts) == 1 and is_name(val.elts[0], A))
            if not want:
                bad = (d, f"`{X}` is bound by `{short(d.ast, 50) if d.ast is not None else 'the parameter'}`")
                break
            # the translated name must not be re-bound between the call and that binding (either order)
            a, b = (d, cn) if when == "before" else (cn, d)
            if any(o is not a and o is not b and cfg.reaches(a, o) and cfg.reaches(o, b) for o in ba if A != X):
                bad = (d, f"`{A}` is re-bound between `{short(c, 40)}` and `{short(d.ast, 40)}`")
                break
        if bad is None and last:
            out.ok({"translated": f"{call_name(c)}(… {A} …)", "reported": X, "line": c.lineno})
        else:
            why = bad[1] if bad else f"no binding of `{X}` reaches the reporting loop"
            out.bad(f"smt_translate_block:reported-list-is-not-the-translated-one:{call_name(c)}:{A}", f"smt_translate_block writes the specifications of "
                    f"`{A}` (`{short(c, 60)}`) but reports `{X}`, and on a path through that call {why}: specification key k and reported sub-block k "
                    f"describe different instructions", where(f, c))
    # (a tidy function needs three sites: one block unsplit, split by number, split at split instructions)
    if n < 2 or not calls_in(f.node, "generate_subblocks"):
        raise AnalysisError(f"smt_translate_block: only {n} translation sites found")


def rule_l(ctx, out):
    """The sub-block after a split instruction starts from the stack that instruction leaves: get_new_source_stack puts the variable the
    split instruction assigns on top.  The function is interpreted on the lines the translation emits for result-bearing split
    instructions, in the spellings the translator really uses (taken from the string constants of ir_block: ` = call(`, and the doubled
    `s(k) =  = create2(` of CREATE2): whatever the spelling of the assignment, the new source stack is s(k) ... s(0) with k the index of the
    assigned variable."""
    from ..core.interp import ModuleInterp
    from ..core.minieval import Unsupported, Raised
    f = ctx.func(f"{GO}.get_new_source_stack")
    tr = ctx.p.module("sfs_generator.ir_block")
    # right-hand sides as the translator writes them: constants that start an assignment of a call-like result
    heads = sorted({c.value.split("(")[0] for c in ast.walk(tr.tree) if isinstance(c, ast.Constant) and isinstance(c.value, str)
                    and c.value.lstrip().startswith("=") and c.value.rstrip().endswith("(") and any(k in c.value for k in ("call", "create", "static"))})
    if len(heads) < 4:
        raise AnalysisError(f"only {len(heads)} result-bearing split instructions found in the translator's string constants")
    # CREATE2 is written `v1 + " = " + <" = create2(...">`: every head is tried with one and with two assignment signs
    mi = ModuleInterp(ctx, max_steps=20000)
    n = 0
    seen = set()
    for head in heads:
        for lhs_idx in (0, 3, 12):
            for line in (f"s({lhs_idx}){head}(s(9), s(8))", f"s({lhs_idx}) = {head.lstrip()}(s(9), s(8))"):
                n += 1
                try:
                    got = mi.call(f, line, "nop(CALL)", 20)
                except (Raised, Unsupported) as e:
                    key = f"source-stack-after-split:raises:{head.strip('= ')}"
                    if key not in seen:
                        seen.add(key)
                        out.bad(key, f"get_new_source_stack fails on the line `{line}`: {e}", where(f))
                    continue
                want = ([f"s({k})" for k in range(lhs_idx, -1, -1)], lhs_idx)
                if (list(got[0]), got[1]) == want:
                    out.ok()
                else:
                    key = "source-stack-after-split:result-not-on-top" + (":doubled-sign" if "=  =" in line or "= =" in line else "")
                    if key in seen:
                        out.instances += 1
                        continue
                    seen.add(key)
                    out.bad(key, f"get_new_source_stack(`{line}`) = {got}: the next sub-block must start from {want[0][:3]}… (the variable the split "
                            f"instruction assigns on top)", where(f))


RULES = [
    ("C14.l", "the sub-block after a result-bearing split instruction starts from its result", 24, rule_l),
    ("C14.k", "the reported sub-blocks are the ones the specifications were written for", 2, rule_k),
    ("C14.j", "call sites and signatures agree on the order of arguments", 1, rule_j),
    ("C14.i", "functions handed the sub-block list leave it intact (by evaluation)", 5, rule_i),
    ("C14.g", "splitting at split instructions: pieces, shared lines and re-assembly (by evaluation)", 600, rule_g),
    ("C14.h", "rebuild on a bounded block family: identity when nothing is replaced, own segment otherwise (by evaluation)", 90, rule_h),
    ("C14.f", "numeric partition: pieces, overlaps and re-assembly", 25, rule_f),
    ("C14.e", "partition cuts: relative positions are re-based by the offset of the cut", 1, rule_e),
    ("C14.d", "variable numbers are compared as numbers", 6, rule_d),
    ("C14.a", "sub-block names: one expression for writer and reader", 12, rule_a),
    ("C14.b", "split vocabulary has arities and translations", 15, rule_b),
    ("C14.c", "the rebuild never fabricates instructions", 9, rule_c),
]
