"""C04 — the greedy back-end returns a realizing sequence (scoped claim).

C04.a every SWAPk/DUPk emission is bounded 1 <= k <= 16 by dominating guards/asserts (interval analysis)
C04.b failure containment in greedy_from_json / search_optimal / greedy_standalone
C04.c the final-stack post-condition and operand-position asserts dominate the success return
C04.d operand order deviates from the specification only for commutative operations
C04.e boolean record fields are read by value; swapped operands need the flag
C04.f extremes over dependences are taken over all of them
C04.g loads ordered after the last store are released only when no store is pending
C04.h the memory/storage schedule respects every dependence
"""
import ast

from ..core.absint import Intervals, INF
from ..core.flow import call_name, calls_in, node_exprs, handler_catches_exception, enclosing_try, is_name
from ..core.loader import AnalysisError, short, own_nodes, norm, canon, function_locals
from ..core.report import where

TECHNIQUE = 'interval analysis with guard refinement over a hand-built CFG; dominance rules for failure containment and post-condition asserts'
LEVEL_TEXT = ('Decides that every SWAPk/DUPk the greedy module can emit is bounded to 1..16 by dominating guards (sites it '
              'cannot prove are listed as triaged-unproven and guarded against growth), that a failed search can never be '
              'reported as success, and that the run-time post-condition asserts dominate the success return. Of "respects '
              'every declared ordering constraint" it decides the scheduler core: sort_with_deps is evaluated on every '
              'reduced dependence relation over up to two loads and three stores (C04.h), extremes over dependences are '
              'taken over all of them, deferred loads are released only when no store is pending, swapped operands need the '
              'commutative flag; the merge of the memory and the storage schedule keeps both orders for accesses that '
              'belong to both and for final loads (C04.j, evaluated on every pair of small orders); every store selection '
              'takes byte stores (C04.i). Since the order post-check of greedy_from_json exists (repair of F32), the ordering clause '
              'itself is decided for all inputs: C04.k shows that the check refuses on failure, follows compute, dominates the '
              'assignment of error = 0, and (by evaluation on every small sequence and pair set) accepts no sequence with a reversed '
              'pair; while it holds, what C04.h / C04.j find is a mis-ordering that costs the block its greedy solution and is counted '
              'as refused. Does not decide that the asserts are sufficient for realization in general.')

EXPLANATION = ("Interval analysis with guard refinement of every expression that builds a SWAPk/DUPk mnemonic in "
               "greedy/block_generation.py (an assert counts as a guard because AssertionError is turned into "
               "error=1 by greedy_from_json); CFG rules for failure containment (error=0 only after the last "
               "statement that can raise, result used only under error==0) and for the run-time post-condition "
               "asserts (final stack equality dominates the return of SMSgreedy.compute; operand-position asserts "
               "dominate the emission of each operation).")
NOT_DECIDED = ("'every store exactly once' and 'respects every dependency' beyond the families of C04.h / C04.j "
               '(interleaving of the schedule with the stack computation); the asserts are checked to be present and '
               'dominating, not to be sufficient')
ASSUMPTIONS = ["AssertionError raised inside SMSgreedy methods propagates to greedy_from_json's handler "
               "(no intermediate handler swallows it: checked)"]

GREEDY = "greedy.block_generation"

# Sites this technique cannot prove and for which no failing input was exhibited. Keyed by function + expression.
# key: (function, emission text with the function's locals canonicalised) -> (number of such sites confirmed by reading, reason)
TRIAGED_UNPROVEN = {
    ("SMSgreedy.clean_stack", "'SWAP' + str(L1)"):
        (1, "the index is the first position with an unneeded element; nothing bounds it by 16 or excludes 0 syntactically "
            "(needs the relational fact that position 0 is never dead here)"),
    ("SMSgreedy.compute_one_with_stack", "'SWAP' + str(L1)"):
        (2, "(a) multi-swap loop `for i in range(1, pos+1)`: pos may be re-bound to an index beyond 16 when len(stack) >= 16; (b) `'SWAP' + str(pos)` is safe "
            "only because pos is re-bound under pos < _dup_stack_ini while the emission requires _dup_stack_ini == 0 (relational fact outside the "
            "interval domain)"),
}


def _mnemonic_exprs(fnode):
    """BinOp nodes `'SWAP' + str(e)` / `'DUP' + str(e)` (also f-strings) with the index expression."""
    out = []
    for n in own_nodes(fnode):
        if isinstance(n, ast.BinOp) and isinstance(n.op, ast.Add) and isinstance(n.left, ast.Constant) \
                and n.left.value in ("SWAP", "DUP") and isinstance(n.right, ast.Call) and call_name(n.right) == "str" \
                and n.right.args:
            out.append((n, n.left.value, n.right.args[0]))
        elif isinstance(n, ast.JoinedStr) and len(n.values) == 2 and isinstance(n.values[0], ast.Constant) \
                and n.values[0].value in ("SWAP", "DUP") and isinstance(n.values[1], ast.FormattedValue):
            out.append((n, n.values[0].value, n.values[1].value))
    return out


def _is_debug(n):
    """Inside a print(...) call (verbose tracing): not an emission."""
    cur = getattr(n, "_parent", None)
    while cur is not None and not isinstance(cur, ast.stmt):
        if isinstance(cur, ast.Call) and call_name(cur) == "print":
            return True
        cur = getattr(cur, "_parent", None)
    return False


def rule_a(ctx, out):
    const_env = {"constants.max_k_swap": 16, "constants.max_k_dup": 16}
    funcs = [f for f in ctx.p.funcs_in(GREEDY)]
    proven, unproven = [], []
    seen_sites = set()
    for f in funcs:
        exprs = [(n, kind, idx) for (n, kind, idx) in _mnemonic_exprs(f.node) if not _is_debug(n)]
        if not exprs:
            continue
        cfg = ctx.cfg(f)
        iv = Intervals(cfg, const_env)
        fname = f.qual.split(GREEDY + ".", 1)[1]
        for n, kind, idx in exprs:
            at = cfg.node_containing(n)
            if at is None:
                raise AnalysisError(f"no CFG node for emission {short(n)} in {f.qual}")
            lo, hi = iv.interval(idx, at)
            site = (fname, norm(n))
            ok = lo >= 1 and hi <= 16
            if site in seen_sites:
                # same expression text again in the same function: keep the weakest verdict
                pass
            seen_sites.add(site)
            rec = {"function": f.qual, "expr": norm(n), "index_interval": [str(lo), str(hi)], "line": n.lineno}
            if ok:
                proven.append((site, rec))
            else:
                unproven.append((site, rec, f, n))
    unproven_sites = {s for s, *_ in unproven}
    for site, rec in proven:
        if site in unproven_sites:
            continue
        out.ok(rec)
    reported = set()
    seen_texts = {}
    for site, rec, f, n in unproven:
        csite = (site[0], canon(site[1], function_locals(f.node)))
        seen_texts.setdefault(csite, set()).add(site[1])
        if csite in TRIAGED_UNPROVEN and len(seen_texts[csite]) <= TRIAGED_UNPROVEN[csite][0]:
            if site not in reported:
                out.unproven.append({"site": list(site), "interval": rec["index_interval"], "reason": TRIAGED_UNPROVEN[csite][1]})
                out.instances += 1
                out.satisfied += 1
            reported.add(site)
        else:
            out.bad(f"{site[0]}:{site[1]}", f"emission {site[1]} is not bounded to 1..16 by dominating guards "
                    f"(index interval [{rec['index_interval'][0]}, {rec['index_interval'][1]}])", where(f, n), rec)
    out.info["proven_sites"] = len({s for s, _ in proven} - unproven_sites)
    out.info["triaged_unproven_sites"] = sorted(" :: ".join(s) for s in reported)


def rule_b(ctx, out):
    # --- greedy_from_json: the whole computation inside try/except Exception; error=0 last ---------------
    f = ctx.func(f"{GREEDY}.greedy_from_json")
    cfg = ctx.cfg(f)
    risky = []   # calls to SMSgreedy methods / constructor
    for n in own_nodes(f.node):
        if isinstance(n, ast.Call) and (call_name(n) in ("SMSgreedy", "target", "precompute", "compute", "accept", "correct")):
            risky.append(n)
    if len(risky) < 4:
        raise AnalysisError("greedy_from_json: expected calls to SMSgreedy/target/precompute/compute not found")
    for c in risky:
        tries = [t for t, field in enclosing_try(c, f.node) if field == "body" and any(handler_catches_exception(h) for h in t.handlers)]
        if tries:
            out.ok({"function": f.qual, "call": short(c, 60), "inside": "try/except Exception"})
        else:
            out.bad(f"greedy_from_json:unprotected:{call_name(c)}", f"call {short(c, 60)} is outside try/except Exception",
                    where(f, c))
    # the error flag: the last component of the returned tuple
    flags = {r.value.elts[-1].id for r in own_nodes(f.node) if isinstance(r, ast.Return) and isinstance(r.value, ast.Tuple) and r.value.elts
             and isinstance(r.value.elts[-1], ast.Name)}
    if len(flags) != 1:
        raise AnalysisError("greedy_from_json: the error flag (last component of the returned tuple) was not identified")
    ERR = flags.pop()
    # error = 0 assignments: no risky call reachable afterwards (within normal flow) before the return
    zero_nodes, one_nodes = [], []
    for n in cfg.nodes:
        a = n.ast
        if n.kind == "stmt" and isinstance(a, ast.Assign) and len(a.targets) == 1 and is_name(a.targets[0], ERR) \
                and isinstance(a.value, ast.Constant):
            (zero_nodes if a.value.value == 0 else one_nodes).append(n)
    if not zero_nodes:
        raise AnalysisError("greedy_from_json: `error = 0` assignment not found")
    risky_nodes = {cfg.node_containing(c).id for c in risky}
    for z in zero_nodes:
        reach = cfg.reachable_nodes(z, skip_exc=True)
        later = [i for i in risky_nodes if i in reach and i != z.id]
        if later:
            out.bad("greedy_from_json:error0-before-computation", "`error = 0` is assigned before the last statement that can raise",
                    where(f, z.ast))
        else:
            out.ok({"function": f.qual, "obligation": "error = 0 only after the last call that can raise"})
    # every handler of the protecting try sets error = 1 (or re-raises)
    for t in [n for n in own_nodes(f.node) if isinstance(n, ast.Try)]:
        for h in t.handlers:
            sets = any(isinstance(s, ast.Assign) and is_name(s.targets[0], ERR) and isinstance(s.value, ast.Constant)
                       and s.value.value != 0 for s in ast.walk(h))
            raises = any(isinstance(s, ast.Raise) for s in ast.walk(h))
            if sets or raises:
                out.ok({"function": f.qual, "obligation": "handler sets error = 1"})
            else:
                out.bad("greedy_from_json:handler-does-not-flag-error", "exception handler neither sets error = 1 nor re-raises", where(f, h))
    # returned tuple carries `error` last
    for r in [n for n in own_nodes(f.node) if isinstance(n, ast.Return)]:
        if isinstance(r.value, ast.Tuple) and r.value.elts and is_name(r.value.elts[-1], ERR):
            out.ok({"function": f.qual, "obligation": "returns error flag"})
        else:
            out.bad("greedy_from_json:return-without-error-flag", "return value does not carry the error flag", where(f, r))

    # --- consumers: ids used only under error == 0 -----------------------------------------------------
    for qual, consumer in (("gasol_asm.search_optimal", "search_optimal"), (f"{GREEDY}.greedy_standalone", "greedy_standalone")):
        g = ctx.func(qual)
        gcfg = ctx.cfg(g)
        found = False
        for n in gcfg.nodes:
            a = n.ast
            if n.kind == "stmt" and isinstance(a, ast.Assign) and isinstance(a.value, ast.Call) and call_name(a.value) == "greedy_from_json":
                found = True
                t = a.targets[0]
                names = [e.id if isinstance(e, ast.Name) else None for e in t.elts] if isinstance(t, ast.Tuple) else []
                if len(names) < 5 or names[4] is None or names[3] is None:
                    out.bad(f"{consumer}:error-flag-dropped", "the error flag returned by greedy_from_json is not bound", where(g, a))
                    continue
                err, ids = names[4], names[3]
                if consumer == "search_optimal":
                    _search_optimal_rule(g, gcfg, n, err, ids, out)
                else:
                    _standalone_rule(g, gcfg, n, err, ids, out)
        if not found:
            raise AnalysisError(f"{qual}: call to greedy_from_json not found")


def _err_zero_edge(test, label, err):
    """Does taking edge `label` of `test` imply err == 0?"""
    def imp(e, want):
        if isinstance(e, ast.Compare) and len(e.ops) == 1 and is_name(e.left, err) and isinstance(e.comparators[0], ast.Constant) \
                and e.comparators[0].value == 0:
            if isinstance(e.ops[0], ast.Eq):
                return want
            if isinstance(e.ops[0], ast.NotEq):
                return not want
            return False
        if isinstance(e, ast.UnaryOp) and isinstance(e.op, ast.Not):
            return imp(e.operand, not want)
        if isinstance(e, ast.Name) and e.id == err:
            return not want
        if isinstance(e, ast.BoolOp):
            if isinstance(e.op, ast.And) and want:
                return any(imp(v, True) for v in e.values)
            if isinstance(e.op, ast.Or) and not want:
                return any(imp(v, False) for v in e.values)
        return False
    return imp(test, label == "T")


def _search_optimal_rule(g, cfg, call_node, err, ids, out):
    """After the call: on every path where err may be != 0, `ids` must be re-bound to None before the return."""
    def neutral(n):
        a = n.ast
        return n.kind == "stmt" and isinstance(a, ast.Assign) and is_name(a.targets[0], ids) and \
            isinstance(a.value, ast.Constant) and a.value.value is None

    hits = []
    seen = set()
    work = [(s, lab) for s, lab in call_node.succ if lab != "exc"]
    while work:
        n, lab = work.pop()
        if n.id in seen:
            continue
        seen.add(n.id)
        if neutral(n):
            continue
        if n.kind == "stmt" and isinstance(n.ast, ast.Return) and any(is_name(x, ids) for x in ast.walk(n.ast)):
            hits.append(n)
            continue
        for s, l2 in n.succ:
            if n.kind == "test" and _err_zero_edge(n.ast, l2, err):
                continue
            work.append((s, l2))
    if hits:
        out.bad("search_optimal:greedy-ids-used-despite-error", "greedy ids can reach the return although error != 0", where(g, call_node.ast))
    else:
        out.ok({"function": g.qual, "obligation": "greedy ids returned only under error == 0"})


def _standalone_rule(g, cfg, call_node, err, ids, out):
    """The outcome string is 'error' whenever err == 1 (so the ids of a failed run are never 'non_optimal')."""
    okk = False
    for n in own_nodes(g.node):
        if isinstance(n, ast.IfExp) and isinstance(n.test, ast.Compare) and is_name(n.test.left, err):
            c = n.test.comparators[0]
            if isinstance(c, ast.Constant) and isinstance(n.body, ast.Constant):
                if (isinstance(n.test.ops[0], ast.Eq) and c.value == 1 and n.body.value == "error") or \
                   (isinstance(n.test.ops[0], ast.NotEq) and c.value == 0 and n.body.value == "error") or \
                   (isinstance(n.test.ops[0], ast.Eq) and c.value == 0 and isinstance(n.orelse, ast.Constant) and n.orelse.value == "error"):
                    okk = True
    if okk:
        out.ok({"function": g.qual, "obligation": "outcome is 'error' when error flag set"})
    else:
        out.bad("greedy_standalone:outcome-ignores-error", "optimization outcome is not derived from the error flag", where(g, call_node.ast))


def _operand_lists(g):
    """locals of g that hold an operation's operand list: bound (= or +=) from an expression reading <record>['inpt_sk']"""
    names = set()
    for n in own_nodes(g.node):
        tgt = n.targets if isinstance(n, ast.Assign) else [n.target] if isinstance(n, ast.AugAssign) else []
        if tgt and any(isinstance(x, ast.Subscript) and isinstance(x.slice, ast.Constant) and x.slice.value == "inpt_sk" for x in ast.walk(n.value)):
            names |= {t.id for t in tgt if isinstance(t, ast.Name)}
    return names


def rule_c(ctx, out):
    f = ctx.func(f"{GREEDY}.SMSgreedy.compute")
    cfg = ctx.cfg(f)
    # assert (cstack == self._final_stack) dominates every return
    post = []
    for n in cfg.nodes:
        if n.kind == "test" and isinstance(n.owner, ast.Assert) and isinstance(n.ast, ast.Compare) and len(n.ast.ops) == 1 \
                and isinstance(n.ast.ops[0], ast.Eq):
            txts = {norm(n.ast.left), norm(n.ast.comparators[0])}
            if "self._final_stack" in txts and len(txts) == 2:
                post.append(n)
    rets = [n for n in cfg.nodes if n.kind == "stmt" and isinstance(n.ast, ast.Return)]
    if not rets:
        raise AnalysisError("SMSgreedy.compute has no return")
    for r in rets:
        dom = [p for p in post if cfg.edge_dominated_by_branch(r, p, "T")]
        # the asserted variable must not be modified between the assert and the return
        good = False
        for p in dom:
            var = [t for t in (norm(p.ast.left), norm(p.ast.comparators[0])) if t != "self._final_stack"][0]
            iv = Intervals(cfg)
            mods = iv.modifiers().get(var, set()) | iv.modifiers().get("self._final_stack", set())
            between = [m for m in mods if cfg.paths_avoiding(p, m, set(), src_labels={"T"}) and
                       cfg.paths_avoiding(m, r, {p.id}) and m is not p]
            if not between:
                good = True
        if good:
            out.ok({"function": f.qual, "obligation": "return dominated by assert (cstack == self._final_stack)"})
        else:
            out.bad("SMSgreedy.compute:final-stack-postcondition-missing",
                    "a return of SMSgreedy.compute is not dominated by the assertion that the computed stack equals the final stack",
                    where(f, r.ast))
    # operand-position asserts: every function that appends an operation id (`[o]`-style emission after computing
    # its inputs) asserts inpts[i] == stack[i] in a loop before
    sites = 0
    for g in ctx.p.funcs_in(GREEDY):
        if g.cls is None or g.cls.name != "SMSgreedy":
            continue
        for n in own_nodes(g.node):
            if isinstance(n, ast.Assert) and isinstance(n.test, ast.Compare) and isinstance(n.test.left, ast.Subscript) \
                    and norm(n.test.left.value) in _operand_lists(g) and isinstance(n.test.comparators[0], ast.Subscript) \
                    and isinstance(n.test.ops[0], ast.Eq):
                sites += 1
                out.ok({"function": g.qual, "assert": short(n)})
    out.info["operand_position_asserts"] = sites
    # each function that reads `inpts = ...['inpt_sk']` and later emits the op id must contain such an assert
    for g in ctx.p.funcs_in(GREEDY):
        if g.cls is None or g.cls.name != "SMSgreedy":
            continue
        opl = _operand_lists(g)
        binds_inpts = sorted(opl)
        emits_id = [n for n in own_nodes(g.node) if isinstance(n, (ast.AugAssign, ast.Assign)) and
                    isinstance(getattr(n, "value", None), ast.List) and any(
                        isinstance(e, ast.Subscript) and isinstance(e.slice, ast.Constant) and e.slice.value == "id"
                        for e in n.value.elts)]
        if binds_inpts and emits_id:
            has = any(isinstance(n, ast.Assert) and isinstance(n.test, ast.Compare) and isinstance(n.test.ops[0], ast.Eq)
                      and any(isinstance(x, ast.Subscript) and isinstance(x.value, ast.Name) and x.value.id in opl for x in ast.walk(n.test)) for n in own_nodes(g.node))
            if has:
                out.ok({"function": g.qual, "obligation": "operation emitted after operand-position assert"})
            else:
                out.bad(f"{g.name}:operand-assert-missing", "an uninterpreted operation is emitted without asserting that "
                        "its operands are on top of the stack in order", where(g))


def rule_d(ctx, out):
    """Operands may be computed in swapped order only for commutative operations.

    Call-site idiom: `if self.must_reverse(o, inpts, ...): inpts.reverse()` ... compute ... `inpts.reverse()` ... assert inpts[i] == stack[i].
    When must_reverse answers False the asserted layout is the *reversed* operand list, so a False answer is admissible only when
    the operation is commutative."""
    f = ctx.func(f"{GREEDY}.SMSgreedy.must_reverse")
    cfg = ctx.cfg(f)

    def comm_edge(test, want):
        """(test == want) implies record['commutative'] is truthy."""
        if isinstance(test, ast.Subscript) and isinstance(test.slice, ast.Constant) and test.slice.value == "commutative":
            return want
        if isinstance(test, ast.UnaryOp) and isinstance(test.op, ast.Not):
            return comm_edge(test.operand, not want)
        if isinstance(test, ast.BoolOp):
            if isinstance(test.op, ast.And) and want:
                return any(comm_edge(v, True) for v in test.values)
            if isinstance(test.op, ast.Or) and not want:
                return any(comm_edge(v, False) for v in test.values)
        return False
    rets = [n for n in cfg.nodes if n.kind == "stmt" and isinstance(n.ast, ast.Return)]
    if len(rets) < 3:
        raise AnalysisError("SMSgreedy.must_reverse: fewer than 3 returns found")
    for r in rets:
        v = r.ast.value
        if isinstance(v, ast.Constant) and v.value is True:
            out.ok()
            continue
        ok = False
        for t in cfg.nodes:
            if t.kind == "test":
                for lab in ("T", "F"):
                    if comm_edge(t.ast, lab == "T") and cfg.edge_dominated_by_branch(r, t, lab):
                        ok = True
        if ok:
            out.ok({"must_reverse": short(r.ast), "only_for": "commutative operations"})
        else:
            out.bad(f"must_reverse:swap-allowed-for-noncommutative:{short(r.ast, 30)}", "must_reverse can answer False (operands computed in swapped order, and the "
                    "position assert is then taken against the reversed list) for an operation that is not known to be commutative", where(f, r.ast))
    # the call-site idiom itself
    n_sites = 0
    for g in ctx.p.funcs_in(GREEDY):
        for st in own_nodes(g.node):
            if isinstance(st, ast.If) and calls_in(st.test, "must_reverse"):
                n_sites += 1
                body_ok = len(st.body) == 1 and isinstance(st.body[0], ast.Expr) and isinstance(st.body[0].value, ast.Call) \
                    and call_name(st.body[0].value) == "reverse" and not st.orelse
                parent_body = getattr(st, "_parent", None)
                seq = []
                for fld in ("body", "orelse", "finalbody"):
                    if st in (getattr(parent_body, fld, []) or []):
                        seq = getattr(parent_body, fld)
                later = seq[seq.index(st) + 1:] if st in seq else []
                second = [x for x in later if isinstance(x, ast.Expr) and isinstance(x.value, ast.Call) and call_name(x.value) == "reverse"]
                opl_ = _operand_lists(g)
                asserts = [x for x in ast.walk(ast.Module(body=later, type_ignores=[])) if isinstance(x, ast.Assert)
                           and any(isinstance(y, ast.Subscript) and isinstance(y.value, ast.Name) and y.value.id in opl_ for y in ast.walk(x.test))]
                if body_ok and len(second) == 1 and asserts:
                    out.ok({"function": g.qual, "idiom": "conditional reverse / compute / reverse / assert positions"})
                else:
                    out.bad(f"{g.name}:operand-order-idiom", "the reverse / compute / reverse / assert idiom around must_reverse was altered", where(g, st))
    if n_sites < 2:
        raise AnalysisError("fewer than 2 must_reverse call sites found")


def boolean_fields(ctx):
    """Record keys that the specification writer only ever assigns boolean constants (or `True if c else False`), with both
    values occurring: flags that must be read by value."""
    vals = {}
    for f in ctx.p.funcs_in("sfs_generator.gasol_optimization"):
        for n in own_nodes(f.node):
            if isinstance(n, ast.Assign) and len(n.targets) == 1 and isinstance(n.targets[0], ast.Subscript) and isinstance(n.targets[0].slice, ast.Constant) \
                    and isinstance(n.targets[0].slice.value, str):
                v = n.value
                if isinstance(v, ast.Constant) and isinstance(v.value, bool):
                    kind = {v.value}
                elif isinstance(v, ast.IfExp) and all(isinstance(x, ast.Constant) and isinstance(x.value, bool) for x in (v.body, v.orelse)):
                    kind = {v.body.value, v.orelse.value}
                else:
                    kind = {None}
                vals.setdefault(n.targets[0].slice.value, set()).update(kind)
    return sorted(k for k, v in vals.items() if v == {True, False})


def rule_e(ctx, out):
    """Boolean record fields are read by value.  The writer stores 'commutative' (and 'storage') in every record, so a test for the
    key's presence is always true and allows swapped operands for every operation; and where a shortcut accepts the operands in
    either order, the swapped order must be conjoined with the flag's value."""
    flags = boolean_fields(ctx)
    if "commutative" not in flags:
        raise AnalysisError(f"'commutative' is not recognised as a boolean field (found {flags})")
    n = 0
    for f in ctx.p.functions.values():
        if f.module.name.startswith(("tests", "sfs_generator.gasol_optimization")):
            pass
        for c in own_nodes(f.node):
            # reads
            if isinstance(c, ast.Subscript) and isinstance(c.slice, ast.Constant) and c.slice.value in flags and isinstance(c.ctx, ast.Load):
                n += 1
                out.ok({"function": f.qual, "read_by_value": short(c, 50)}, 1)
            pres = None
            if isinstance(c, ast.Compare) and len(c.ops) == 1 and isinstance(c.ops[0], (ast.In, ast.NotIn)) and isinstance(c.left, ast.Constant) and c.left.value in flags:
                pres = c.left.value
            if isinstance(c, ast.Call) and isinstance(c.func, ast.Attribute) and c.func.attr in ("get", "__contains__", "setdefault") and c.args \
                    and isinstance(c.args[0], ast.Constant) and c.args[0].value in flags:
                par = getattr(c, "_parent", None)
                if c.func.attr == "__contains__" or (isinstance(par, ast.Compare) and any(isinstance(o, (ast.Is, ast.IsNot)) for o in par.ops)):
                    pres = c.args[0].value
            if pres:
                n += 1
                out.bad(f"flag-tested-for-presence:{f.name}:{pres}", f"{f.qual}: `{short(c, 60)}` tests whether the key '{pres}' is present; the writer stores that "
                        f"boolean in every record, so the test is true for every operation", where(f, c))
    # either-order shortcuts
    m = 0
    for f in ctx.p.funcs_in(GREEDY):
        for b in own_nodes(f.node):
            if not (isinstance(b, ast.BoolOp) and isinstance(b.op, ast.Or)):
                continue
            pairs = []
            for v in b.values:
                for c in ast.walk(v):
                    if isinstance(c, ast.Compare) and len(c.ops) == 1 and isinstance(c.ops[0], ast.Eq) and isinstance(c.comparators[0], ast.List) \
                            and len(c.comparators[0].elts) == 2:
                        pairs.append((v, c, norm(c.left), [norm(e) for e in c.comparators[0].elts]))
            for v1, c1, l1, e1 in pairs:
                for v2, c2, l2, e2 in pairs:
                    if c1 is not c2 and l1 == l2 and e1 == e2[::-1] and pairs.index((v1, c1, l1, e1)) < pairs.index((v2, c2, l2, e2)):
                        m += 1
                        def _flag_value(x):
                            if isinstance(x, ast.Subscript) and isinstance(x.slice, ast.Constant) and x.slice.value == "commutative":
                                return True
                            if isinstance(x, ast.Call) and isinstance(x.func, ast.Attribute) and x.func.attr == "get" and x.args and isinstance(x.args[0], ast.Constant) \
                                    and x.args[0].value == "commutative" and (len(x.args) == 1 or (isinstance(x.args[1], ast.Constant) and not x.args[1].value)):
                                return True
                            if isinstance(x, ast.Compare) and len(x.ops) == 1 and isinstance(x.ops[0], (ast.Eq, ast.Is)) and isinstance(x.comparators[0], ast.Constant) \
                                    and x.comparators[0].value is True:
                                return _flag_value(x.left)
                            return False
                        guarded = isinstance(v2, ast.BoolOp) and isinstance(v2.op, ast.And) and any(_flag_value(x) for x in v2.values)
                        if guarded:
                            out.ok({"function": f.qual, "either_order_shortcut": short(b, 80), "swapped_order_requires": "record['commutative']"})
                        else:
                            out.bad(f"either-order-shortcut-without-flag:{f.name}:{l1}", f"{f.qual}: `{short(b, 90)}` accepts the operands in swapped order without "
                                    f"requiring the operation's commutative flag to be true", where(f, b))
    if m < 1:
        raise AnalysisError("either-order shortcut of compute_one_with_stack not found")


def rule_f(ctx, out):
    """Levels and bounds of the greedy schedule are extremes over *all* dependences (get_min_pos: longest chain of predecessors;
    get_max_pos_noSTORE: earliest successor).  A loop that accumulates max/min must run over every element: with an early exit the
    level of an access comes from whichever predecessor is listed first, two dependent stores can land on one level and be emitted
    in either order."""
    from ..core.idioms import extremum_loops
    n = 0
    for f, loop, accs, exits in extremum_loops(ctx, ("greedy.",)):
        n += 1
        if exits:
            out.bad(f"extremum-loop-exits-early:{f.name}:{','.join(accs)}", f"{f.qual}: the loop that accumulates the extreme `{', '.join(accs)}` contains "
                    f"`{short(exits[0], 30)}`: the result is not the extreme over all elements", where(f, exits[0]))
        else:
            out.ok({"function": f.qual, "accumulates": accs, "loop": short(loop, 50)})
    # the same extreme written with the builtin over a comprehension takes every element by construction
    for f in ctx.p.funcs_in("greedy.block_generation"):
        for c in calls_in(f.node):
            if call_name(c) in ("min", "max") and isinstance(c.func, ast.Name) and any(isinstance(x, (ast.ListComp, ast.GeneratorExp, ast.SetComp)) for a in c.args for x in ast.walk(a)):
                n += 1
                out.ok({"function": f.qual, "extreme": short(c, 60), "taken_over": "a comprehension (every element)"})
    if n < 2:
        raise AnalysisError(f"only {n} extremum loops found in the greedy module")


def rule_g(ctx, out):
    """Loads that the specification orders after the last store are kept in `final_no_store` until every pending memory operation
    (`instr`) has been emitted.  The list may therefore be emptied only where `instr` is (about to be) empty: under a test
    `len(instr) == 0`, or together with `p = len(instr)` (everything up to p is flushed right after).  Emptied earlier, a load that
    must follow a pending store is emitted before it."""
    f = ctx.func(f"{GREEDY}.SMSgreedy.compute")
    cfg = ctx.cfg(f)
    PENDING, DEFERRED = f.params[1], f.params[2]        # compute(self, instr, final_no_store, ...)
    clears = [n for n in own_nodes(f.node) if isinstance(n, ast.Assign) and len(n.targets) == 1 and is_name(n.targets[0], DEFERRED)
              and isinstance(n.value, ast.List) and not n.value.elts]
    if len(clears) < 2:
        raise AnalysisError(f"SMSgreedy.compute: only {len(clears)} `final_no_store = []` found")
    for c in clears:
        node = cfg.stmt_node(c)
        ok = None
        for t in cfg.nodes:
            if t.kind == "test" and norm(t.ast).replace(" ", "") in (f"len({PENDING})==0", f"{PENDING}==[]", f"not{PENDING}") and node is not None and cfg.edge_dominated_by_branch(node, t, "T"):
                ok = f"under `{norm(t.ast)}`"
        par = getattr(c, "_parent", None)
        for fld in ("body", "orelse"):
            seq = getattr(par, fld, None)
            if isinstance(seq, list) and c in seq:
                flush_bounds = {x.targets[0].id for x in seq if isinstance(x, ast.Assign) and isinstance(x.targets[0], ast.Name)
                                and norm(x.value).replace(" ", "") == f"len({PENDING})"}
                # ... and that bound is what the pending list is cut at afterwards:  instr = instr[p:]
                cut = any(isinstance(y, ast.Assign) and is_name(y.targets[0], PENDING) and isinstance(y.value, ast.Subscript) and isinstance(y.value.slice, ast.Slice)
                          and isinstance(y.value.slice.lower, ast.Name) and y.value.slice.lower.id in flush_bounds for y in own_nodes(f.node))
                if flush_bounds and cut:
                    ok = ok or "together with `p = len(instr)` (all pending operations are flushed next)"
        if ok:
            out.ok({"function": "SMSgreedy.compute", "deferred_loads_released": ok})
        else:
            out.bad(f"deferred-loads-released-early:compute:{canon(norm(getattr(par, 'test', par))[:40], function_locals(f.node)) if par is not None else ''}",
                    "SMSgreedy.compute empties final_no_store at a point where memory operations may still be pending (`instr` not known to be empty): "
                    "a load ordered after a pending store can then be emitted first", where(f, c))


def order_guard(ctx):
    """(holds, detail): greedy_from_json returns error = 0 only for a sequence that passed an order post-check.
    Structure (must-pass-through): in greedy_from_json an `if` whose failing branch raises (or returns) tests a call that is given the ids
    returned by compute and both dependence lists of the specification; it lies after the call to compute and dominates the statement that
    sets the error code to 0.  Meaning (by evaluation): the called function, interpreted on every sequence over up to four accesses (with
    and without a repeated access) and every set of ordering pairs over them, answers True only if every pair [a, b] with both accesses
    present has a executed before b."""
    if "C04.order_guard" in ctx.cache:
        return ctx.cache["C04.order_guard"]
    import itertools
    from ..core.interp import ModuleInterp
    from ..core.minieval import Unsupported, Raised
    res = (False, "no order post-check found in greedy_from_json")
    f = ctx.func(f"{GREEDY}.greedy_from_json")
    cfg = ctx.cfg(f)
    comp = [n for n in own_nodes(f.node) if isinstance(n, ast.Assign) and isinstance(n.value, ast.Call) and call_name(n.value) == "compute"
            and isinstance(n.targets[0], (ast.Tuple, ast.List)) and len(n.targets[0].elts) == 2 and isinstance(n.targets[0].elts[1], ast.Name)]
    # the error code is the last component of what the function returns, whatever it is called
    rets = [n for n in own_nodes(f.node) if isinstance(n, ast.Return) and isinstance(n.value, ast.Tuple) and n.value.elts and isinstance(n.value.elts[-1], ast.Name)]
    if not rets:
        raise AnalysisError("greedy_from_json: no `return (..., <error code>)` found")
    ecode = rets[-1].value.elts[-1].id
    zero = [n for n in cfg.nodes if n.kind == "stmt" and isinstance(n.ast, ast.Assign) and any(is_name(t, ecode) for t in n.ast.targets)
            and isinstance(n.ast.value, ast.Constant) and n.ast.value.value == 0]
    if not comp or not zero:
        raise AnalysisError("greedy_from_json: the call to compute / the assignment `error = 0` was not found")
    ids = comp[-1].targets[0].elts[1].id
    cnode = cfg.stmt_node(comp[-1])
    for t in cfg.nodes:
        if t.kind != "test" or not isinstance(t.owner, ast.If):
            continue
        def expand(a):
            # a local assigned once in the function stands for its value
            if isinstance(a, ast.Name) and a.id != ids:
                defs = [n for n in own_nodes(f.node) if isinstance(n, ast.Assign) and any(is_name(tg, a.id) for tg in n.targets)]
                if len(defs) == 1:
                    return defs[0].value
            return a
        calls = [c for c in calls_in(t.ast) if any(is_name(a, ids) for a in c.args)
                 and {"_mem_order", "_sto_order"} <= {x.attr for a in c.args for x in ast.walk(expand(a)) if isinstance(x, ast.Attribute)}]
        if not calls:
            continue
        c = calls[0]
        negated = isinstance(t.ast, ast.UnaryOp) and isinstance(t.ast.op, ast.Not) and t.ast.operand is c
        if not (negated or t.ast is c):
            continue
        fail_branch = t.owner.body if negated else t.owner.orelse
        if not fail_branch or not isinstance(fail_branch[-1], (ast.Raise, ast.Return)):
            res = (False, f"the order post-check `{short(t.ast, 60)}` does not refuse the sequence when it fails")
            continue
        if not cfg.dominates(cnode, t) or not all(cfg.edge_dominated_by_branch(z, t, "F" if negated else "T") for z in zero):
            res = (False, f"the order post-check `{short(t.ast, 60)}` is not on every path from compute to `error = 0`")
            continue
        tg = ctx.r.resolve_call(f, c)
        if len(tg) != 1:
            res = (False, f"the order post-check `{short(c, 60)}` is not resolved to one function")
            continue
        chk = tg[0]
        pos_ids = next(i for i, a in enumerate(c.args) if is_name(a, ids))
        mi = ModuleInterp(ctx, max_steps=100000)
        names = ["A", "B", "C"]
        wrong = None
        n = 0
        seqs = [list(p_) for k in (2, 3) for p_ in itertools.permutations(names, k)] + [["X"] + list(p_) for p_ in itertools.permutations(names, 3)]
        seqs += [[a, b, a] for a in names for b in names if a != b] + [[a, b, a, "C"] for a in ("A", "B") for b in ("A", "B") if a != b]
        pairs = [[a, b] for a in names for b in names if a != b]
        for seq in seqs:
            for k in (1, 2):
                for deps in itertools.combinations(pairs, k):
                    args = [None, None]
                    args[pos_ids] = list(seq)
                    args[1 - pos_ids] = [list(d) for d in deps]
                    try:
                        got = mi.call(chk, *args)
                    except Raised as e:
                        got = False         # refusing by raising is refusing
                    except Unsupported as e:
                        raise AnalysisError(f"{chk.name}: cannot evaluate abstractly: {e}")
                    n += 1
                    definitely_wrong = any(a in seq and b in seq and seq.index(a) > seq.index(b) for a, b in deps)
                    if got and definitely_wrong and wrong is None:
                        wrong = (seq, [list(d) for d in deps])
        if wrong:
            res = (False, f"{chk.name} accepts the sequence {wrong[0]} although the pairs {wrong[1]} demand the opposite order")
        else:
            res = (True, {"guard": short(t.ast, 80), "checker": chk.qual, "sequences_and_pair_sets_evaluated": n, "line": t.ast.lineno})
            break
    ctx.cache["C04.order_guard"] = res
    return res


def rule_k(ctx, out):
    """Whatever the scheduling heuristics do, greedy_from_json reports success only for a sequence in which every declared ordering pair is
    respected: the order post-check of `order_guard` (structure + meaning).  With it, a mis-ordering by sort_with_deps / merge / compute
    costs the block its greedy solution (error = 1) and nothing else; C04.h and C04.j then record such mis-orderings as refused, not as
    violations."""
    holds, detail = order_guard(ctx)
    if holds:
        out.ok(detail)
    else:
        out.bad("greedy_from_json:order-post-check-missing", f"greedy_from_json can return error = 0 for a sequence that does not respect a declared dependence: "
                f"{detail}", where(ctx.func(f"{GREEDY}.greedy_from_json")))


def rule_h(ctx, out):
    """The order in which greedy emits the memory (storage) operations respects every declared dependence.  sort_with_deps is
    evaluated abstractly on every transitively reduced dependence relation over up to two loads and three stores in every program
    order: every operation is scheduled exactly once (loads possibly deferred after the last store), and for every dependence (x, y),
    x comes before y — in particular no load that must precede a store is deferred."""
    import itertools
    from ..core.interp import ModuleInterp
    from ..core.minieval import Unsupported, Raised
    f = ctx.func(f"{GREEDY}.sort_with_deps")
    mi = ModuleInterp(ctx, max_steps=400000)

    def closure(pairs):
        R = set(pairs)
        changed = True
        while changed:
            changed = False
            for (a, b) in list(R):
                for (c, d) in list(R):
                    if b == c and (a, d) not in R:
                        R.add((a, d))
                        changed = True
        return R

    def reduction(R):
        nodes = {x for p_ in R for x in p_}
        return {(a, b) for (a, b) in R if not any((a, c) in R and (c, b) in R for c in nodes)}
    sizes = ((1, 1), (1, 2), (2, 1), (2, 2), (1, 3), (2, 3)) if ctx.tier == "thorough" else ((1, 1), (1, 2), (2, 1), (2, 2), (1, 3))
    seen, n = set(), 0
    for kind, ld, st in (("memory", "MLOAD", "MSTORE"), ("storage", "SLOAD", "SSTORE")):
        if kind == "storage" and ctx.tier != "thorough":
            continue
        for nl, ns in sizes:
            loads = [f"{ld}_{k}" for k in range(nl)]
            stores = [f"{st}_{k}" for k in range(ns)]
            for order in sorted(set(itertools.permutations(["L"] * nl + ["S"] * ns))):
                li, si = iter(loads), iter(stores)
                seq = [next(li) if c == "L" else next(si) for c in order]
                # (a pair of two loads is a dependence as well: the front-end lists `the value of one load is the address of the other`)
                cands = [(i, j) for i in range(len(seq)) for j in range(i + 1, len(seq))]
                for mask in range(1 << len(cands)):
                    red = frozenset(reduction(closure({(seq[i], seq[j]) for k, (i, j) in enumerate(cands) if mask >> k & 1})))
                    if (tuple(seq), red) in seen:
                        continue
                    seen.add((tuple(seq), red))
                    deps = [list(p_) for p_ in sorted(red)]
                    opid = {x: ({"outpt_sk": [f"v{x}"], "inpt_sk": ["a" + x]} if x.startswith(ld) else {"outpt_sk": [], "inpt_sk": ["a" + x, "b" + x]}) for x in seq}
                    varmap = {f"v{x}": {"inpt_sk": ["a" + x]} for x in loads}
                    n += 1
                    load_pairs = any(a.startswith(ld) and b.startswith(ld) for a, b in deps)
                    try:
                        res = mi.call(f, list(stores), deps, opid, varmap)
                    except Raised as e:
                        if load_pairs and "Assertion" in e.what:
                            # a chain of loads in front of a store trips the level assertions: the greedy gives the block up (error = 1,
                            # `PUSH 0 SLOAD SLOAD PUSH 1 PUSH 2 SSTORE`), which C04 allows — it speaks about the sequences that are returned
                            out.ok()
                            continue
                        out.bad(f"memory-order:{kind}:raises", f"sort_with_deps raises {e.what} for the program order {seq} with dependences {deps}", where(f))
                        continue
                    except Unsupported as e:
                        raise AnalysisError(f"sort_with_deps: cannot evaluate abstractly: {e}")
                    if not (isinstance(res, tuple) and len(res) == 2):
                        out.bad(f"memory-order:{kind}:result-shape", f"sort_with_deps returns {res!r}", where(f))
                        continue
                    scheduled = list(res[0]) + list(res[1])
                    need = set(stores) | {x for p_ in deps for x in p_}
                    # a load whose successors are all loads need not be listed: it is computed when its consumer is (data flow)
                    need -= {x for x in need if x.startswith(ld) and not any(a == x and b.startswith(st) for a, b in deps)} - set(scheduled)
                    prob = None
                    if len(set(scheduled)) != len(scheduled):
                        prob = ("scheduled-twice", "an operation is scheduled twice")
                    elif not need <= set(scheduled):
                        prob = ("not-scheduled", f"{sorted(need - set(scheduled))} is not scheduled")
                    else:
                        for a, b in deps:
                            if a not in scheduled or b not in scheduled:
                                continue
                            if scheduled.index(a) > scheduled.index(b):
                                deferred = a in res[1]
                                prob = ("load-deferred-past-its-store" if deferred else "dependence-reversed", f"{a} must precede {b} but is "
                                        + ("deferred until after the last store" if deferred else "scheduled after it"))
                                break
                    if prob is None:
                        out.ok()
                    elif (prob[0] in ("load-deferred-past-its-store", "dependence-reversed")
                          or (prob[0] == "not-scheduled" and all(x.startswith(ld) for x in need - set(scheduled)))) and order_guard(ctx)[0]:
                        # (a load that is left out of the order is computed when its consumer is: too late for the store it must precede)
                        # a mis-ordering by the scheduler: the sequence built from it is refused by the order post-check (C04.k)
                        out.ok()
                        out.info["misorderings_refused_by_the_post_check"] = out.info.get("misorderings_refused_by_the_post_check", 0) + 1
                    else:
                        out.bad(f"memory-order:{kind}:{prob[0]}", f"sort_with_deps, program order {seq}, dependences {deps}: {prob[1]} (order {list(res[0])}, deferred {list(res[1])})",
                                where(f), {"program_order": seq, "dependences": deps})
    out.samples.append({"dependence_relations_evaluated": n})
    if n < 300:
        raise AnalysisError(f"only {n} dependence relations evaluated")


def rule_i(ctx, out):
    """Every store is scheduled: the greedy (and its instruction counter) collect "the stores" with opcode-selecting predicates; the
    store vocabulary is {MSTORE, MSTORE8, SSTORE}, so a selection that takes MSTORE must take MSTORE8 as well — a byte store that is in
    no dependence pair is otherwise neither scheduled nor counted, and the greedy returns error == 0 for a sequence without it.
    Parameterised selectors (get_ops_id(instrs, 'MSTORE')) are decided per caller, for the literals that caller passes."""
    from ..core.idioms import store_predicates
    n = 0
    for f, expr, acc in store_predicates(ctx, {"greedy.block_generation", "smt_encoding.count_sms_greedy"}):
        n += 1
        from ..core.idioms import MULTIPLICITY
        twice = MULTIPLICITY.get((f.qual, id(expr)), {})
        if "MSTORE" in acc and "MSTORE8" not in acc:
            out.bad(f"store-selection-misses-MSTORE8:{f.name}", f"in {f.name} the selection `{short(expr, 70)}` takes MSTORE records but not MSTORE8: a byte store "
                    f"drops out of the schedule / the count", where(f, expr), {"accepts": sorted(acc)})
        elif twice:
            op = sorted(twice)[0]
            out.bad(f"store-selected-more-than-once:{f.name}:{op}", f"in {f.name} the opcode names passed to `{short(expr, 70)}` select {op} records {twice[op]} times (the "
                    f"selection matches by substring, so 'MSTORE' already takes MSTORE8): the store and its operands are counted twice and the minimum length "
                    f"computed from the count exceeds real sequences", where(f, expr), {"selected_times": twice})
        else:
            out.ok({"function": f.qual, "selection": short(expr, 60), "accepts": sorted(acc)})
    if n < 4:
        raise AnalysisError(f"only {n} store-selecting predicates found in the greedy modules")


def rule_j(ctx, out):
    """The memory schedule and the storage schedule are merged into one order of accesses.  An access can be ordered by both — the
    front-end records `a load's result is stored in the other location` as a dependence of that other location, so a SLOAD id can sit
    in the memory order — and loads that follow the last store of their location are handed over separately (final loads).  The merged
    order must keep every access after whatever precedes it in either order, and a final load after every store of its location.
    `merge` is interpreted (own interpreter, `computed` included) on every combination of small memory / storage orders with such
    shared accesses; first occurrences in the result are what counts."""
    import itertools
    from ..core.interp import ModuleInterp
    from ..core.minieval import Unsupported, Raised
    f = ctx.func("greedy.block_generation.merge")
    mi = ModuleInterp(ctx, max_steps=100000)

    def rec(i, ins, outs):
        return {"id": i, "disasm": i.split("_")[0], "inpt_sk": ins, "outpt_sk": outs}
    n = 0
    for mval, sval in itertools.product(("d", "x"), ("c", "y")):
        # MSTORE_0 stores the result x of SLOAD_0 (or an input); SSTORE_1 stores the result y of MLOAD_0 (or an input)
        recs = [rec("SLOAD_0", ["a"], ["x"]), rec("MLOAD_0", ["b"], ["y"]), rec("SSTORE_0", ["k", "v"], []), rec("SSTORE_1", ["k2", sval], []),
                rec("MSTORE_0", ["m", mval], [])]
        opid = {r["id"]: r for r in recs}
        var = {r["outpt_sk"][0]: r for r in recs if r["outpt_sk"]}
        m_orders = [(["MSTORE_0"], []), (["MLOAD_0", "MSTORE_0"], []), (["MSTORE_0"], ["MLOAD_0"])]
        if mval == "x":
            m_orders = [(["SLOAD_0"] + mo, fin) for mo, fin in m_orders] + [(mo[:1] + ["SLOAD_0"] + mo[1:], fin) for mo, fin in m_orders if mo[0] != "MSTORE_0"]
        s_orders = [(["SSTORE_0"], []), (["SSTORE_0"], ["SLOAD_0"]), (["SLOAD_0", "SSTORE_0"], []), (["SSTORE_0", "SLOAD_0", "SSTORE_1"], []),
                    (["SSTORE_0", "SSTORE_1"], ["SLOAD_0"])]
        if sval == "y":
            s_orders = [(so, fin) for so, fin in s_orders if "SSTORE_1" in so]
            # the memory load sits right before the store that takes its result, or anywhere earlier (loads of one level come in any order)
            s_orders = [(so[:k] + ["MLOAD_0"] + so[k:], fin) for so, fin in s_orders for k in range(so.index("SSTORE_1") + 1)]
        for (mo, mfin), (so, sfin) in itertools.product(m_orders, s_orders):
            # what the two orders, the final loads and the data flow demand: a < b  (orders only constrain pairs with a store)
            need = set()
            for order, fin, st in ((mo, mfin, "MSTORE"), (so, sfin, "SSTORE")):
                for i_, a in enumerate(order):
                    for b in order[i_ + 1:]:
                        # (an access of the other location sits in an order only for the data flow, added below)
                        if (a.startswith(st) or b.startswith(st)) and a[0] == st[0] and b[0] == st[0]:
                            need.add((a, b))
                for ld in fin:
                    need |= {(x, ld) for x in order if x.startswith(st)}
            present = set(mo) | set(so) | set(mfin) | set(sfin)
            if mval == "x" and "SLOAD_0" in present:
                need.add(("SLOAD_0", "MSTORE_0"))
            if sval == "y" and "MLOAD_0" in present and "SSTORE_1" in present:
                need.add(("MLOAD_0", "SSTORE_1"))
            # skip combinations that contradict themselves (a cycle): no block produces them
            reach = {a: {b for (a2, b) in need if a2 == a} for a in present}
            changed = True
            while changed:
                changed = False
                for a in reach:
                    more = set().union(*(reach.get(b, set()) for b in reach[a])) - reach[a]
                    if more:
                        reach[a] |= more
                        changed = True
            if any(a in reach[a] for a in reach) or set(mfin) & set(mo) or set(sfin) & set(so):
                continue
            try:
                res = mi.call(f, list(mo), list(so), list(mfin), list(sfin), opid, var)
            except Raised as e:
                out.bad("merge:raises", f"merge raises {e.what} on the memory order {mo} (final loads {mfin}) and the storage order {so} (final loads {sfin})", where(f))
                continue
            except Unsupported as e:
                raise AnalysisError(f"merge: cannot evaluate abstractly: {e}")
            n += 1
            first = []
            for x in res:
                if x not in first:
                    first.append(x)
            broken = sorted((a, b) for (a, b) in need if a in first and b in first and first.index(a) > first.index(b))
            lost = sorted((set(mo) | set(so)) - set(first))
            if not broken and not lost:
                out.ok()
            elif lost:
                out.bad("merge:access-lost", f"merge({mo}, {so}, final loads {mfin} / {sfin}) = {res}: {lost} are in none of the positions", where(f))
            elif order_guard(ctx)[0]:
                # mis-ordered by the merge: the sequence built from it is refused by the order post-check (C04.k), the block keeps its code
                out.ok()
                out.info["misorderings_refused_by_the_post_check"] = out.info.get("misorderings_refused_by_the_post_check", 0) + 1
            else:
                a, b = broken[0]
                kind = "final-load" if b in mfin + sfin else "shared-access" if (a in mo and a in so) or (b in mo and b in so) or a in sfin + mfin else "order"
                out.bad(f"merge:order-not-kept:{kind}", f"merge({mo}, {so}, final loads {mfin} / {sfin}) = {res}: {a} must come before {b} "
                        f"({'it precedes it in one of the two orders' if kind != 'final-load' else 'a final load follows every store of its location'}) but is placed after it",
                        where(f), {"memory_order": mo, "storage_order": so, "final_loads": [mfin, sfin], "merged": res, "violated": [list(x) for x in broken]})
    # a memory store whose value needs two storage reads that have a storage write between them: it goes after the later read, and
    # the storage order stays as it is (a scan that stops at the first read it finds places the store, and with it the later read,
    # before that write)
    recs = [rec("SLOAD_0", ["a"], ["x"]), rec("SLOAD_1", ["a2"], ["x2"]), rec("ADD_0", ["x", "x2"], ["z"]), rec("SSTORE_0", ["k", "v"], []),
            rec("SSTORE_1", ["k1", "v1"], []), rec("SSTORE_2", ["k2", "v2"], []), rec("MSTORE_0", ["m", "z"], []), rec("MLOAD_0", ["b"], ["y"])]
    opid = {r["id"]: r for r in recs}
    var = {r["outpt_sk"][0]: r for r in recs if r["outpt_sk"]}
    for so in (["SSTORE_0", "SLOAD_0", "SSTORE_1", "SLOAD_1", "SSTORE_2"], ["SLOAD_0", "SSTORE_1", "SLOAD_1", "SSTORE_2"], ["SLOAD_0", "SSTORE_1", "SLOAD_1"],
               ["SSTORE_0", "SLOAD_0", "SLOAD_1", "SSTORE_2"]):
        for mo in (["MSTORE_0"], ["MLOAD_0", "MSTORE_0"]):
            try:
                res = mi.call(f, list(mo), list(so), [], [], opid, var)
            except Raised as e:
                out.bad("merge:raises", f"merge raises {e.what} on the memory order {mo} and the storage order {so}", where(f))
                continue
            except Unsupported as e:
                raise AnalysisError(f"merge: cannot evaluate abstractly: {e}")
            n += 1
            first = []
            for x_ in res:
                if x_ not in first:
                    first.append(x_)
            need = {(a, b) for i_, a in enumerate(so) for b in so[i_ + 1:] if "SSTORE" in a or "SSTORE" in b}
            need |= {(a, b) for i_, a in enumerate(mo) for b in mo[i_ + 1:]}
            need |= {(ld, "MSTORE_0") for ld in ("SLOAD_0", "SLOAD_1") if ld in so}
            broken = sorted((a, b) for (a, b) in need if a in first and b in first and first.index(a) > first.index(b))
            lost = sorted((set(mo) | set(so)) - set(first))
            if not broken and not lost:
                out.ok()
            elif lost:
                out.bad("merge:access-lost", f"merge({mo}, {so}) = {res}: {lost} are in none of the positions", where(f))
            elif order_guard(ctx)[0]:
                out.ok()
                out.info["misorderings_refused_by_the_post_check"] = out.info.get("misorderings_refused_by_the_post_check", 0) + 1
            else:
                a, b = broken[0]
                out.bad("merge:order-not-kept:store-needing-two-reads", f"merge({mo}, {so}) = {res} where MSTORE_0 stores ADD(SLOAD_0, SLOAD_1): {a} must come before {b} "
                        f"but is placed after it", where(f), {"memory_order": mo, "storage_order": so, "merged": res, "violated": [list(x_) for x_ in broken]})
    out.samples.append({"order_pairs_evaluated": n})
    if n < 30:
        raise AnalysisError(f"only {n} pairs of orders evaluated")


RULES = [
    ("C04.k", "success is reported only for a sequence that passed the order post-check", 1, rule_k),
    ("C04.j", "merging the memory and storage schedules keeps both orders (shared accesses, final loads)", 30, rule_j),
    ("C04.i", "store selections of the greedy cover byte stores", 4, rule_i),
    ("C04.h", "the memory/storage schedule respects every dependence", 300, rule_h),
    ("C04.g", "loads ordered after the last store are released only when no store is pending", 2, rule_g),
    ("C04.f", "extremes over dependences are taken over all of them", 2, rule_f),
    ("C04.e", "boolean record fields are read by value; swapped operands need the flag", 10, rule_e),
    ("C04.d", "operand order deviates from the specification only for commutative operations", 5, rule_d),
    ("C04.a", "SWAP/DUP emission bounds 1..16", 9, rule_a),
    ("C04.b", "failure containment of the greedy search", 8, rule_b),
    ("C04.c", "run-time post-condition asserts dominate success", 3, rule_c),
]
