"""C17 — instruction-set restrictions chosen by the user are honoured (structural claim).

C17.a flag discipline: who writes push0_enabled, set before first use, never imported by value
C17.b who may introduce the PUSH0 spelling: only under a test of the flag (or when propagating an existing PUSH0)
C17.c both internal spellings of a zero push use the same predicate and the same price
C17.d contract filter: a contract that is not selected is passed through as the parsed object
"""
import ast

from ..core.flow import call_name, calls_in, node_calls, node_exprs, is_name, same_expr
from ..core.loader import AnalysisError, short, own_nodes, norm
from ..core.minieval import Evaluator, Unsupported, Raised
from ..core.report import where

TECHNIQUE = ("who-may-write / who-may-produce rules over the whole project; CFG dominance of the flag setter; "
             "control-dependence of every produced 'PUSH0' literal on the flag; constant folding of the price tables")
LEVEL_TEXT = ("Decides that the PUSH0 switch is written in exactly one place, before any parsing or optimisation on "
              "every path, is always read through the module attribute, that no code can produce the PUSH0 spelling "
              "except under a test of that switch, that both internal spellings of a zero push are priced identically "
              "(size and gas, in the block accounting and in the specification records), and that a contract that "
              "was not selected is appended untouched.")
EXPLANATION = ("Enumerates every string literal 'PUSH0' (and id prefix 'PUSH0_') in the analysed modules and classifies "
               "it as table entry, comparison/lookup, or production; each production must be control-dependent on "
               "constants.push0_enabled / is_push0(...) / an equality test with an existing PUSH0. The literal prices "
               "returned under is_push0 are compared with the values obtained by abstractly evaluating "
               "utils.get_ins_size('PUSH0') and opcodes.get_ins_cost('PUSH0') on the extracted tables.")
NOT_DECIDED = "nothing of C17 is left to run time except that the flag's value itself comes from argparse"
ASSUMPTIONS = ["strings are not assembled character by character to spell PUSH0 (no such construct exists; 'PUSH' + '0' "
               "concatenations are searched for and would be reported)"]

CONST_MOD = "global_params.constants"
FLAG = "push0_enabled"


# --------------------------------------------------------------------------------------------------- helpers
def _is_flag_expr(e):
    return (isinstance(e, ast.Attribute) and e.attr == FLAG) or (isinstance(e, ast.Name) and e.id == FLAG)


def _implies_flag(test, want):
    """(test == want) implies PUSH0 is allowed here: flag truthy, is_push0(...) truthy, or something already is PUSH0."""
    if _is_flag_expr(test):
        return want
    if isinstance(test, ast.Call) and call_name(test) == "is_push0":
        return want
    if isinstance(test, ast.Compare) and len(test.ops) == 1:
        sides = [test.left, test.comparators[0]]
        lits = [s for s in sides if isinstance(s, ast.Constant) and isinstance(s.value, str) and s.value.startswith("PUSH0")]
        if lits and isinstance(test.ops[0], ast.Eq):
            return want
        if lits and isinstance(test.ops[0], ast.NotEq):
            return not want
    if isinstance(test, ast.Call) and isinstance(test.func, ast.Attribute) and test.func.attr == "startswith" and test.args \
            and isinstance(test.args[0], ast.Constant) and str(test.args[0].value).startswith("PUSH0"):
        return want
    if isinstance(test, ast.UnaryOp) and isinstance(test.op, ast.Not):
        return _implies_flag(test.operand, not want)
    if isinstance(test, ast.BoolOp):
        if isinstance(test.op, ast.And) and want:
            return any(_implies_flag(v, True) for v in test.values)
        if isinstance(test.op, ast.Or) and not want:
            return any(_implies_flag(v, False) for v in test.values)
    return False


def _push0_literals(tree):
    for n in ast.walk(tree):
        if isinstance(n, ast.Constant) and isinstance(n.value, str) and (n.value == "PUSH0" or n.value.startswith("PUSH0_")):
            yield n


def _classify(lit):
    """'read' | 'table' | 'produce' for a literal occurrence, by its syntactic context."""
    p = getattr(lit, "_parent", None)
    if isinstance(p, ast.Compare):
        return "read"
    if isinstance(p, ast.Call):
        fn = call_name(p)
        if fn in ("startswith", "find", "endswith", "get_ins_cost", "get_ins_size", "get_opcode", "count", "index", "get"):
            return "read"
        return "produce"
    if isinstance(p, (ast.Tuple, ast.List, ast.Set, ast.Dict)):
        # module-level table?
        cur = p
        while cur is not None and not isinstance(cur, (ast.FunctionDef, ast.AsyncFunctionDef, ast.Module)):
            cur = getattr(cur, "_parent", None)
        if isinstance(cur, ast.Module):
            return "table"
        gp = getattr(p, "_parent", None)
        if isinstance(gp, ast.Compare):
            return "read"
        return "produce"
    if isinstance(p, ast.Subscript) and p.slice is lit:
        return "read"
    if isinstance(p, ast.Expr):
        return "read"   # docstring
    return "produce"


def _guarded(ctx, f, lit):
    """Is the literal control-dependent on the flag?  IfExp arms first, then statement-level branches (CFG)."""
    cur, child = getattr(lit, "_parent", None), lit
    while cur is not None and not isinstance(cur, ast.stmt):
        if isinstance(cur, ast.IfExp):
            if child is cur.body and _implies_flag(cur.test, True):
                return True
            if child is cur.orelse and _implies_flag(cur.test, False):
                return True
        if isinstance(cur, ast.BoolOp) and isinstance(cur.op, ast.And):
            idx = cur.values.index(child) if child in cur.values else -1
            if idx > 0 and any(_implies_flag(v, True) for v in cur.values[:idx]):
                return True
        child, cur = cur, getattr(cur, "_parent", None)
    cfg = ctx.cfg(f)
    node = cfg.node_containing(lit)
    if node is None:
        return False
    for t in cfg.nodes:
        if t.kind != "test":
            continue
        for lab in ("T", "F"):
            if _implies_flag(t.ast, lab == "T") and t is not node and cfg.edge_dominated_by_branch(node, t, lab):
                return True
    return False


# --------------------------------------------------------------------------------------------------- C17.a
def rule_a(ctx, out):
    cm = ctx.p.module(CONST_MOD)
    # writers of the flag anywhere in the project
    writers = []
    for f in ctx.p.functions.values():
        declares = any(isinstance(n, ast.Global) and FLAG in n.names for n in own_nodes(f.node))
        for n in own_nodes(f.node):
            tgts = []
            if isinstance(n, ast.Assign):
                tgts = n.targets
            elif isinstance(n, (ast.AugAssign, ast.AnnAssign)):
                tgts = [n.target]
            for t in tgts:
                if (isinstance(t, ast.Name) and t.id == FLAG and declares and f.module.name == CONST_MOD) or \
                        (isinstance(t, ast.Attribute) and t.attr == FLAG):
                    writers.append((f, n))
            if isinstance(n, ast.Call) and call_name(n) == "setattr" and len(n.args) >= 2 and isinstance(n.args[1], ast.Constant) \
                    and n.args[1].value == FLAG:
                writers.append((f, n))
    for f, n in writers:
        if f.qual == f"{CONST_MOD}._set_push0":
            out.ok({"writer": f.qual, "stmt": short(n)})
        else:
            out.bad(f"flag-writer:{f.qual}", f"{FLAG} is written outside its setter: {short(n)}", where(f, n))
    if not any(f.qual == f"{CONST_MOD}._set_push0" for f, _ in writers):
        raise AnalysisError("setter _set_push0 does not assign the flag")
    # no by-value import of the flag
    n_imports = 0
    for m in ctx.p.modules.values():
        for n in ast.walk(m.tree):
            if isinstance(n, ast.ImportFrom) and n.module and n.module.endswith("constants"):
                n_imports += 1
                for a in n.names:
                    if a.name == FLAG or a.name == "*":
                        out.bad(f"flag-imported-by-value:{m.name}", f"`from {n.module} import {a.name}` snapshots {FLAG} at import time; "
                                f"later calls of _set_push0 are not seen by this module", f"{m.rel}:{n.lineno}")
    # every read is an attribute read on the constants module (or inside constants itself)
    reads = 0
    for m in ctx.p.modules.values():
        for n in ast.walk(m.tree):
            if isinstance(n, ast.Attribute) and n.attr == FLAG and isinstance(n.ctx, ast.Load):
                reads += 1
                kind, q = ctx.r.resolve_attr_chain(m.name, n.value) if isinstance(n.value, ast.Attribute) else \
                    ctx.r.resolve_name(m.name, n.value.id) if isinstance(n.value, ast.Name) else (None, None)
                if kind == "module" and q == CONST_MOD:
                    out.ok()
                elif kind == "module":
                    out.bad(f"flag-read-from-other-module:{m.name}", f"{norm(n)} resolves to module {q}, not {CONST_MOD}", f"{m.rel}:{n.lineno}")
                else:
                    reads -= 1   # an attribute of some object (e.g. the argparse namespace), not the module flag
    out.samples.append({"flag_reads": reads})
    if reads < 4:
        raise AnalysisError(f"only {reads} reads of constants.{FLAG} found; expected the parser, is_push0 and the push generator")
    # setter called before any parse / optimise call in execute_gasol on every path
    f = ctx.func("gasol_asm.execute_gasol")
    cfg = ctx.cfg(f)
    setters = [n for n in cfg.nodes if node_calls(n, "_set_push0")]
    if not setters:
        out.bad("execute_gasol:flag-never-set", "execute_gasol does not call constants._set_push0", where(f))
        return
    users = [n for n in cfg.nodes for c in node_calls(n) if (call_name(c) or "").startswith(("optimize_", "parse_"))]
    if len(users) < 4:
        raise AnalysisError("execute_gasol: fewer than 4 optimize_*/parse_* calls found")
    for u in users:
        if any(cfg.dominates(s, u) for s in setters):
            out.ok({"call": short(u.ast, 50), "after": "_set_push0"})
        else:
            out.bad(f"execute_gasol:use-before-flag-set:{short(u.ast, 40)}", "a parse/optimise call is reachable before _set_push0 was called",
                    where(f, u.ast))
    # the value passed is the user's option
    for s in setters:
        c = node_calls(s, "_set_push0")[0]
        if c.args and isinstance(c.args[0], ast.Attribute) and c.args[0].attr == "push0":
            out.ok({"setter_argument": norm(c.args[0])})
        else:
            out.bad("execute_gasol:flag-not-from-options", f"_set_push0 is called with {norm(c.args[0]) if c.args else 'nothing'}, not params.push0", where(f, c))
    # options: params.push0 comes from the parsed -push0 argument
    opt = ctx.p.cls("global_params.options.OptimizationParams")
    pa = opt.methods.get("parse_args")
    if pa is None:
        raise AnalysisError("OptimizationParams.parse_args not found")
    srcs = [n for n in own_nodes(pa.node) if isinstance(n, ast.Assign) and isinstance(n.targets[0], ast.Attribute) and n.targets[0].attr == "push0"]
    if srcs and all(isinstance(n.value, ast.Attribute) and n.value.attr == "push0_enabled" for n in srcs):
        out.ok({"options": "self.push0 = parsed_args.push0_enabled"})
    else:
        out.bad("options:push0-not-from-argument", "OptimizationParams.push0 is not taken from the -push0 argument", where(pa))


# --------------------------------------------------------------------------------------------------- C17.b
def rule_b(ctx, out):
    n_lits = 0
    for m in ctx.p.modules.values():
        if m.name.startswith(("verification.forves", "statistics")):
            continue
        for lit in _push0_literals(m.tree):
            n_lits += 1
            kind = _classify(lit)
            if kind != "produce":
                out.ok()
                continue
            # enclosing function
            cur = lit
            while cur is not None and not isinstance(cur, (ast.FunctionDef, ast.AsyncFunctionDef)):
                cur = getattr(cur, "_parent", None)
            f = None
            if cur is not None:
                for fi in ctx.p.functions.values():
                    if fi.node is cur:
                        f = fi
            if f is None:
                out.bad(f"push0-produced-at-module-level:{m.name}", "a PUSH0 spelling is produced outside any function", f"{m.rel}:{lit.lineno}")
                continue
            ctx.p.consulted.add(m.name)
            if _guarded(ctx, f, lit):
                out.ok({"function": f.qual, "production": short(getattr(lit, "_parent", lit), 60), "guard": "flag / is_push0 / existing PUSH0"})
            else:
                out.bad(f"unguarded-push0:{f.qual.split('.', 1)[-1]}:{short(getattr(lit, '_parent', lit), 40)}",
                        f"the spelling {lit.value!r} is produced in {f.qual} without a dominating test of constants.{FLAG}",
                        where(f, lit))
        # concatenations that could spell PUSH0
        for n in ast.walk(m.tree):
            if isinstance(n, ast.BinOp) and isinstance(n.op, ast.Add) and isinstance(n.left, ast.Constant) and n.left.value == "PUSH" \
                    and isinstance(n.right, ast.Constant) and str(n.right.value) == "0":
                out.bad(f"push0-by-concatenation:{m.name}", "'PUSH' + '0' spells PUSH0 outside the flag discipline", f"{m.rel}:{n.lineno}")
    if n_lits < 10:
        raise AnalysisError(f"only {n_lits} PUSH0 literals found, expected at least 10")
    # the single consumer that turns a PUSH0 record back into an item emits the second spelling PUSH "0"
    f = ctx.func("solution_generation.ids2asm.id_to_asm_bytecode")
    good = False
    for n in own_nodes(f.node):
        if isinstance(n, ast.If) and _implies_flag(n.test, True):
            for r in n.body:
                if isinstance(r, ast.Return) and isinstance(r.value, ast.Call) and call_name(r.value) == "AsmBytecode":
                    a = r.value.args
                    if len(a) >= 5 and isinstance(a[3], ast.Constant) and a[3].value == "PUSH" and isinstance(a[4], ast.Constant) and a[4].value == "0":
                        good = True
    if good:
        out.ok({"id_to_asm_bytecode": "PUSH0 record -> AsmBytecode(..., 'PUSH', '0') (priced/spelt through is_push0)"})
    else:
        out.bad("id_to_asm_bytecode:push0-record-not-mapped-to-second-spelling", "a PUSH0 record is not rebuilt as PUSH with value '0'", where(f))


# --------------------------------------------------------------------------------------------------- C17.c
def _module_literals(ctx, modname):
    """Module-level NAME = <literal> bindings (tuples, dicts, numbers, strings), evaluated with ast.literal_eval."""
    mod = ctx.p.module(modname)
    env = {}
    for st in mod.tree.body:
        if isinstance(st, ast.Assign) and len(st.targets) == 1 and isinstance(st.targets[0], ast.Name):
            try:
                env[st.targets[0].id] = ast.literal_eval(st.value)
            except Exception:
                pass
    return env


def table_price(ctx, op):
    """(size, gas) of `op` obtained by abstractly evaluating the two price tables."""
    uenv = _module_literals(ctx, "sfs_generator.utils")
    oenv = _module_literals(ctx, "sfs_generator.opcodes")
    gs = ctx.func("sfs_generator.utils.get_ins_size")
    gc = ctx.func("sfs_generator.opcodes.get_ins_cost")
    try:
        size = Evaluator(gs.node, globals_env=uenv).call(op)
        gas = Evaluator(gc.node, globals_env=oenv).call(op)
    except (Unsupported, Raised) as e:
        raise AnalysisError(f"cannot evaluate the price tables for {op}: {e}")
    return size, gas


def rule_c(ctx, out):
    size0, gas0 = table_price(ctx, "PUSH0")
    out.info["table_price_PUSH0"] = {"size": size0, "gas": gas0}
    cls = ctx.p.cls("sfs_generator.asm_bytecode.AsmBytecode")
    expect = {"bytes_required": size0, "gas_spent": gas0, "gas_spent_accesses": gas0, "to_plain": "PUSH0", "to_plain_with_byte_number": "PUSH0"}
    for m, val in expect.items():
        fi = cls.methods.get(m)
        if fi is None:
            raise AnalysisError(f"AsmBytecode.{m} not found")
        body = [s for s in fi.node.body if not (isinstance(s, ast.Expr) and isinstance(s.value, ast.Constant))]
        first = body[0] if body else None
        ok_test = isinstance(first, ast.If) and any(
            len(c.args) == 2 and norm(c.args[0]) == "self.disasm" and norm(c.args[1]) == "self.value" for c in calls_in(first.test, "is_push0"))
        if not ok_test:
            out.bad(f"AsmBytecode.{m}:zero-push-predicate", f"AsmBytecode.{m} does not start with `if is_push0(self.disasm, self.value)`", where(fi))
            continue
        rets = [r for r in first.body if isinstance(r, ast.Return)]
        if len(rets) == 1 and isinstance(rets[0].value, ast.Constant) and rets[0].value.value == val:
            out.ok({"method": fi.qual, "under_is_push0_returns": val})
        else:
            got = norm(rets[0].value) if rets else "nothing"
            out.bad(f"AsmBytecode.{m}:zero-push-price", f"under is_push0 AsmBytecode.{m} returns {got}; the table entry for PUSH0 is {val!r}",
                    where(fi, first))
    # is_push0 itself: flag and PUSH and "0"
    ip = ctx.func("sfs_generator.asm_bytecode.is_push0")
    rets = [r for r in own_nodes(ip.node) if isinstance(r, ast.Return)]
    conj = rets[0].value.values if rets and isinstance(rets[0].value, ast.BoolOp) and isinstance(rets[0].value.op, ast.And) else []
    has_flag = any(_is_flag_expr(v) for v in conj)
    has_name = any(isinstance(v, ast.Compare) and isinstance(v.ops[0], ast.Eq) and isinstance(v.comparators[0], ast.Constant) and v.comparators[0].value == "PUSH" for v in conj)
    has_zero = any(isinstance(v, ast.Compare) and isinstance(v.ops[0], ast.Eq) and isinstance(v.comparators[0], ast.Constant) and v.comparators[0].value == "0" for v in conj)
    if has_flag and has_name and has_zero and len(conj) == 3:
        out.ok({"is_push0": norm(rets[0].value)})
    else:
        out.bad("is_push0:predicate-changed", f"is_push0 is not `flag and disasm == 'PUSH' and value == '0'`: {norm(rets[0].value) if rets else '?'}", where(ip))
    # parser: same predicate
    bb = ctx.func("sfs_generator.parser_asm.build_asm_bytecode")
    tests = [n for n in own_nodes(bb.node) if isinstance(n, ast.If) and any(_is_flag_expr(x) for x in ast.walk(n.test))]
    if len(tests) == 1 and isinstance(tests[0].test, ast.BoolOp) and isinstance(tests[0].test.op, ast.And) and len(tests[0].test.values) == 3 \
            and any(isinstance(v, ast.Compare) and isinstance(v.comparators[0], ast.Constant) and v.comparators[0].value == "0" for v in tests[0].test.values) \
            and any(isinstance(v, ast.Compare) and isinstance(v.comparators[0], ast.Constant) and v.comparators[0].value == "PUSH" for v in tests[0].test.values):
        out.ok({"build_asm_bytecode": norm(tests[0].test)})
    else:
        out.bad("build_asm_bytecode:predicate-differs-from-is_push0", "the parser's PUSH0 test is not `flag and name == 'PUSH' and value == '0'`", where(bb))
    # specification record of a push: every price / spelling field switches on the same condition
    gp = ctx.func("sfs_generator.gasol_optimization.generate_push_instruction")
    fields = {}
    for n in own_nodes(gp.node):
        if isinstance(n, ast.Assign) and isinstance(n.targets[0], ast.Subscript) and isinstance(n.targets[0].slice, ast.Constant):
            fields[n.targets[0].slice.value] = n
    conds = {}
    for k in ("id", "opcode", "disasm", "gas", "size"):
        n = fields.get(k)
        if n is None:
            raise AnalysisError(f"generate_push_instruction: field {k} not assigned")
        if isinstance(n.value, ast.IfExp) and (_implies_flag(n.value.test, False) or _implies_flag(n.value.test, True)):
            conds[k] = norm(n.value.test)
        else:
            conds[k] = None
    switching = {k: c for k, c in conds.items() if c is not None}
    if not switching:
        raise AnalysisError("generate_push_instruction: no field switches on the PUSH0 flag")
    ref = sorted(set(switching.values()))
    for k, c in conds.items():
        if c is None:
            out.bad(f"generate_push_instruction:field-ignores-push0:{k}", f"record field \"{k}\" of a pushed constant does not depend on the PUSH0 "
                    f"switch while {sorted(switching)} do: a zero push spelt PUSH0 is priced/encoded as PUSH1 0 in this field",
                    where(gp, fields[k]), {"conditions": conds})
        elif len(ref) > 1 and c != ref[0] and list(switching.values()).count(c) < len(switching) / 2:
            out.bad(f"generate_push_instruction:field-uses-other-condition:{k}", f"field \"{k}\" switches on `{c}`, the others on `{ref}`", where(gp, fields[k]))
        else:
            out.ok({"field": k, "condition": c})


# --------------------------------------------------------------------------------------------------- C17.d
def _implies_selected(test, want, loop_var):
    """(test == want) implies NOT (a contract was requested and this one is a different one)."""
    def is_mismatch(e):
        return isinstance(e, ast.Compare) and len(e.ops) == 1 and isinstance(e.ops[0], ast.NotEq) and _sides(e)

    def is_match(e):
        return isinstance(e, ast.Compare) and len(e.ops) == 1 and isinstance(e.ops[0], ast.Eq) and _sides(e)

    def _sides(e):
        txt = {norm(e.left), norm(e.comparators[0])}
        return any(t.endswith(".contract") for t in txt) and any(t.startswith(loop_var + ".") for t in txt)

    def is_requested(e):
        return isinstance(e, ast.Compare) and len(e.ops) == 1 and isinstance(e.ops[0], ast.IsNot) and norm(e.left).endswith(".contract") \
            and isinstance(e.comparators[0], ast.Constant) and e.comparators[0].value is None

    if is_mismatch(test):
        return not want
    if is_match(test):
        return want
    if isinstance(test, ast.UnaryOp) and isinstance(test.op, ast.Not):
        return _implies_selected(test.operand, not want, loop_var)
    if isinstance(test, ast.BoolOp):
        if isinstance(test.op, ast.And):
            if want:
                return any(_implies_selected(v, True, loop_var) for v in test.values)
            return all(is_mismatch(v) or is_requested(v) for v in test.values) and any(is_mismatch(v) for v in test.values)
        if not want:
            return any(_implies_selected(v, False, loop_var) for v in test.values)
    return False


def rule_d(ctx, out):
    f = ctx.func("gasol_asm.optimize_asm_in_asm_format")
    cfg = ctx.cfg(f)
    loops = [n for n in cfg.nodes if n.kind == "iter" and isinstance(n.ast.target, ast.Name) and
             any(calls_in(st, "optimize_asm_contract") for st in n.ast.body)]
    if not loops:
        raise AnalysisError("optimize_asm_in_asm_format: loop over contracts not found")
    for l in loops:
        lv = l.ast.target.id
        calls = [n for n in cfg.nodes if node_calls(n, "optimize_asm_contract")]
        for cn in calls:
            c = node_calls(cn, "optimize_asm_contract")[0]
            if not (c.args and is_name(c.args[0], lv)):
                continue
            ok = False
            for t in cfg.nodes:
                if t.kind == "test":
                    for lab in ("T", "F"):
                        if _implies_selected(t.ast, lab == "T", lv) and cfg.edge_dominated_by_branch(cn, t, lab):
                            ok = True
            if ok:
                out.ok({"call": short(cn.ast, 60), "guard": "contract is the selected one (or none was requested)"})
            else:
                out.bad("optimize_asm_in_asm_format:unselected-contract-optimized", "optimize_asm_contract can be reached for a contract that "
                        "is not the one selected with -c", where(f, cn.ast))
        # what is appended to the output list: the loop variable itself or the optimizer's result
        res_names = set()
        for cn in calls:
            a = cn.ast
            if isinstance(a, ast.Assign) and isinstance(a.targets[0], ast.Tuple) and isinstance(a.targets[0].elts[0], ast.Name):
                res_names.add(a.targets[0].elts[0].id)
        for st in ast.walk(l.ast):
            if isinstance(st, ast.Call) and call_name(st) == "append" and st.args:
                if is_name(st.args[0], lv) or (isinstance(st.args[0], ast.Name) and st.args[0].id in res_names):
                    out.ok({"append": short(st)})
                else:
                    out.bad(f"optimize_asm_in_asm_format:appends-derived-object:{short(st, 40)}", "a contract is appended that is neither the parsed "
                            "object nor the optimizer's result", where(f, st))


RULES = [
    ("C17.a", "PUSH0 flag discipline", 12, rule_a),
    ("C17.b", "who may produce the PUSH0 spelling", 12, rule_b),
    ("C17.c", "one predicate, one price for both spellings of a zero push", 10, rule_c),
    ("C17.d", "contract filter", 3, rule_d),
]
