"""C17 — instruction-set restrictions chosen by the user are honoured (structural claim).

C17.a flag discipline: who writes push0_enabled, set before first use, never imported by value
C17.b who may introduce the PUSH0 spelling: only under a test of the flag (or when propagating an existing PUSH0)
C17.c both internal spellings of a zero push use the same predicate and the same price
C17.d contract filter: a contract that is not selected is passed through as the parsed object
"""
import ast

from ..core.flow import call_name, calls_in, node_calls, node_exprs, is_name, same_expr
from ..core.loader import AnalysisError, short, own_nodes, norm
from ..core.minieval import Evaluator, Unsupported, Raised
from ..core.report import where

TECHNIQUE = ("who-may-write / who-may-produce rules over the whole project; CFG dominance of the flag setter; "
             "control-dependence of every produced 'PUSH0' literal on the flag; constant folding of the price tables")
LEVEL_TEXT = ("Decides that the PUSH0 switch is written in exactly one place, before any parsing or optimisation on "
              "every path, is always read through the module attribute, that no code can produce the PUSH0 spelling "
              "except under a test of that switch, that both internal spellings of a zero push are priced identically "
              "(size and gas, in the block accounting and in the specification records), and that a contract that "
              "was not selected is appended untouched."
              ' Added in seeding round 9: a block costs the same in the parsed and the rebuilt spelling of its zero pushes, warm/cold accesses included (C17.e, AsmBlock.gas_spent evaluated).')
EXPLANATION = ("Enumerates every string literal 'PUSH0' (and id prefix 'PUSH0_') in the analysed modules and classifies "
               "it as table entry, comparison/lookup, or production; each production must be control-dependent on "
               "constants.push0_enabled / is_push0(...) / an equality test with an existing PUSH0. The literal prices "
               "returned under is_push0 are compared with the values obtained by abstractly evaluating "
               "utils.get_ins_size('PUSH0') and opcodes.get_ins_cost('PUSH0') on the extracted tables.")
NOT_DECIDED = "nothing of C17 is left to run time except that the flag's value itself comes from argparse"
ASSUMPTIONS = ["strings are not assembled character by character to spell PUSH0 (no such construct exists; 'PUSH' + '0' "
               "concatenations are searched for and would be reported)"]

CONST_MOD = "global_params.constants"
FLAG = "push0_enabled"


# --------------------------------------------------------------------------------------------------- helpers
def _is_flag_expr(e):
    return (isinstance(e, ast.Attribute) and e.attr == FLAG) or (isinstance(e, ast.Name) and e.id == FLAG)


_CUR_FUNC = [None]       # function node whose locals _implies_flag may look through (set by _guarded)


# functions all of whose returns imply the flag when truthy (wrappers around is_push0 / the flag); filled by _find_wrappers
PREDICATE_WRAPPERS = set()


def _find_wrappers(ctx):
    PREDICATE_WRAPPERS.clear()
    changed = True
    while changed:
        changed = False
        for f in ctx.p.functions.values():
            if f.name in PREDICATE_WRAPPERS or f.name == "is_push0":
                continue
            rets = [r for r in own_nodes(f.node) if isinstance(r, ast.Return)]
            if rets and len(f.node.body) <= 3 and all(r.value is not None and _implies_flag(r.value, True) for r in rets):
                PREDICATE_WRAPPERS.add(f.name)
                changed = True
    return sorted(PREDICATE_WRAPPERS)


def _implies_flag(test, want):
    """(test == want) implies PUSH0 is allowed here: flag truthy, is_push0(...) truthy, or something already is PUSH0."""
    if _is_flag_expr(test):
        return want
    if isinstance(test, ast.Name) and _CUR_FUNC[0] is not None:
        # a local that holds a boolean expression computed once
        from ..core.flow import single_assignments
        defs = single_assignments(_CUR_FUNC[0]).get(test.id, [])
        if len(defs) == 1 and defs[0][2] is None and not isinstance(defs[0][1], ast.Name):
            return _implies_flag(defs[0][1], want)
    if isinstance(test, ast.Call) and (call_name(test) == "is_push0" or call_name(test) in PREDICATE_WRAPPERS):
        return want
    if isinstance(test, ast.Compare) and len(test.ops) == 1:
        sides = [test.left, test.comparators[0]]
        lits = [s for s in sides if isinstance(s, ast.Constant) and isinstance(s.value, str) and s.value.startswith("PUSH0")]
        if lits and isinstance(test.ops[0], ast.Eq):
            return want
        if lits and isinstance(test.ops[0], ast.NotEq):
            return not want
    if isinstance(test, ast.Call) and isinstance(test.func, ast.Attribute) and test.func.attr == "startswith" and test.args \
            and isinstance(test.args[0], ast.Constant) and str(test.args[0].value).startswith("PUSH0"):
        return want
    if isinstance(test, ast.UnaryOp) and isinstance(test.op, ast.Not):
        return _implies_flag(test.operand, not want)
    if isinstance(test, ast.BoolOp):
        if isinstance(test.op, ast.And) and want:
            return any(_implies_flag(v, True) for v in test.values)
        if isinstance(test.op, ast.Or) and not want:
            return any(_implies_flag(v, False) for v in test.values)
    return False


def _push0_literals(tree):
    for n in ast.walk(tree):
        if isinstance(n, ast.Constant) and isinstance(n.value, str) and (n.value == "PUSH0" or n.value.startswith("PUSH0_")):
            yield n


def _classify(lit):
    """'read' | 'table' | 'produce' for a literal occurrence, by its syntactic context."""
    p = getattr(lit, "_parent", None)
    if isinstance(p, ast.Compare):
        return "read"
    if isinstance(p, ast.Call):
        fn = call_name(p)
        if fn in ("startswith", "find", "endswith", "get_ins_cost", "get_ins_size", "get_opcode", "count", "index", "get"):
            return "read"
        return "produce"
    if isinstance(p, (ast.Tuple, ast.List, ast.Set, ast.Dict)):
        # module-level table?
        cur = p
        while cur is not None and not isinstance(cur, (ast.FunctionDef, ast.AsyncFunctionDef, ast.Module)):
            cur = getattr(cur, "_parent", None)
        if isinstance(cur, ast.Module):
            return "table"
        gp = getattr(p, "_parent", None)
        if isinstance(gp, ast.Compare):
            return "read"
        return "produce"
    if isinstance(p, ast.Subscript) and p.slice is lit:
        return "read"
    if isinstance(p, ast.Expr):
        return "read"   # docstring
    return "produce"


def _guarded(ctx, f, lit):
    """Is the literal control-dependent on the flag?  IfExp arms first, then statement-level branches (CFG)."""
    _CUR_FUNC[0] = f.node
    try:
        return _guarded_inner(ctx, f, lit)
    finally:
        _CUR_FUNC[0] = None


def _guarded_inner(ctx, f, lit):
    cur, child = getattr(lit, "_parent", None), lit
    while cur is not None and not isinstance(cur, ast.stmt):
        if isinstance(cur, ast.IfExp):
            if child is cur.body and _implies_flag(cur.test, True):
                return True
            if child is cur.orelse and _implies_flag(cur.test, False):
                return True
        if isinstance(cur, ast.BoolOp) and isinstance(cur.op, ast.And):
            idx = cur.values.index(child) if child in cur.values else -1
            if idx > 0 and any(_implies_flag(v, True) for v in cur.values[:idx]):
                return True
        child, cur = cur, getattr(cur, "_parent", None)
    cfg = ctx.cfg(f)
    node = cfg.node_containing(lit)
    if node is None:
        return False
    for t in cfg.nodes:
        if t.kind != "test":
            continue
        for lab in ("T", "F"):
            if _implies_flag(t.ast, lab == "T") and t is not node and cfg.edge_dominated_by_branch(node, t, lab):
                return True
    return False


# --------------------------------------------------------------------------------------------------- C17.a
def rule_a(ctx, out):
    cm = ctx.p.module(CONST_MOD)
    # writers of the flag anywhere in the project
    writers = []
    for f in ctx.p.functions.values():
        declares = any(isinstance(n, ast.Global) and FLAG in n.names for n in own_nodes(f.node))
        for n in own_nodes(f.node):
            tgts = []
            if isinstance(n, ast.Assign):
                tgts = n.targets
            elif isinstance(n, (ast.AugAssign, ast.AnnAssign)):
                tgts = [n.target]
            for t in tgts:
                if (isinstance(t, ast.Name) and t.id == FLAG and declares and f.module.name == CONST_MOD) or \
                        (isinstance(t, ast.Attribute) and t.attr == FLAG):
                    writers.append((f, n))
            if isinstance(n, ast.Call) and call_name(n) == "setattr" and len(n.args) >= 2 and isinstance(n.args[1], ast.Constant) \
                    and n.args[1].value == FLAG:
                writers.append((f, n))
    for f, n in writers:
        if f.qual == f"{CONST_MOD}._set_push0":
            out.ok({"writer": f.qual, "stmt": short(n)})
        else:
            out.bad(f"flag-writer:{f.qual}", f"{FLAG} is written outside its setter: {short(n)}", where(f, n))
    if not any(f.qual == f"{CONST_MOD}._set_push0" for f, _ in writers):
        raise AnalysisError("setter _set_push0 does not assign the flag")
    # no by-value import of the flag
    n_imports = 0
    for m in ctx.p.modules.values():
        for n in ast.walk(m.tree):
            if isinstance(n, ast.ImportFrom) and n.module and n.module.endswith("constants"):
                n_imports += 1
                for a in n.names:
                    if a.name == FLAG or a.name == "*":
                        out.bad(f"flag-imported-by-value:{m.name}", f"`from {n.module} import {a.name}` snapshots {FLAG} at import time; "
                                f"later calls of _set_push0 are not seen by this module", f"{m.rel}:{n.lineno}")
    # every read is an attribute read on the constants module (or inside constants itself)
    reads = 0
    readers = set()
    for m in ctx.p.modules.values():
        for n in ast.walk(m.tree):
            if isinstance(n, ast.Attribute) and n.attr == FLAG and isinstance(n.ctx, ast.Load):
                reads += 1
                cur = n
                while cur is not None and not isinstance(cur, (ast.FunctionDef, ast.AsyncFunctionDef)):
                    cur = getattr(cur, "_parent", None)
                readers.add((m.name, cur.name if cur is not None else "<module>"))
                kind, q = ctx.r.resolve_attr_chain(m.name, n.value) if isinstance(n.value, ast.Attribute) else \
                    ctx.r.resolve_name(m.name, n.value.id) if isinstance(n.value, ast.Name) else (None, None)
                if kind == "module" and q == CONST_MOD:
                    out.ok()
                elif kind == "module":
                    out.bad(f"flag-read-from-other-module:{m.name}", f"{norm(n)} resolves to module {q}, not {CONST_MOD}", f"{m.rel}:{n.lineno}")
                else:
                    reads -= 1   # an attribute of some object (e.g. the argparse namespace), not the module flag
    out.samples.append({"flag_reads": reads, "reading_functions": sorted(f"{a}.{b}" for a, b in readers)})
    if len({b for _, b in readers} - {"parse_args", "<module>"}) < 2 and not out.findings:
        raise AnalysisError(f"constants.{FLAG} is read in {sorted(b for _, b in readers)}; expected at least two reading functions (the predicate and the push generator)")
    # setter called before any parse / optimise call in execute_gasol on every path
    f = ctx.func("gasol_asm.execute_gasol")
    cfg = ctx.cfg(f)
    setters = [n for n in cfg.nodes if node_calls(n, "_set_push0")]
    if not setters:
        out.bad("execute_gasol:flag-never-set", "execute_gasol does not call constants._set_push0", where(f))
        return
    users = [n for n in cfg.nodes for c in node_calls(n) if (call_name(c) or "").startswith(("optimize_", "parse_"))]
    if len(users) < 4:
        raise AnalysisError("execute_gasol: fewer than 4 optimize_*/parse_* calls found")
    for u in users:
        if any(cfg.dominates(s, u) for s in setters):
            out.ok({"call": short(u.ast, 50), "after": "_set_push0"})
        else:
            out.bad(f"execute_gasol:use-before-flag-set:{short(u.ast, 40)}", "a parse/optimise call is reachable before _set_push0 was called",
                    where(f, u.ast))
    # the value passed is the user's option
    for s in setters:
        c = node_calls(s, "_set_push0")[0]
        if c.args and isinstance(c.args[0], ast.Attribute) and c.args[0].attr == "push0":
            out.ok({"setter_argument": norm(c.args[0])})
        else:
            out.bad("execute_gasol:flag-not-from-options", f"_set_push0 is called with {norm(c.args[0]) if c.args else 'nothing'}, not params.push0", where(f, c))
    # options: params.push0 comes from the parsed -push0 argument
    opt = ctx.p.cls("global_params.options.OptimizationParams")
    pa = opt.methods.get("parse_args")
    if pa is None:
        raise AnalysisError("OptimizationParams.parse_args not found")
    srcs = [n for n in own_nodes(pa.node) if isinstance(n, ast.Assign) and isinstance(n.targets[0], ast.Attribute) and n.targets[0].attr == "push0"]
    if srcs and all(isinstance(n.value, ast.Attribute) and n.value.attr == "push0_enabled" for n in srcs):
        out.ok({"options": "self.push0 = parsed_args.push0_enabled"})
    else:
        out.bad("options:push0-not-from-argument", "OptimizationParams.push0 is not taken from the -push0 argument", where(pa))


# --------------------------------------------------------------------------------------------------- C17.b
def rule_b(ctx, out):
    out.info["predicate_wrappers"] = _find_wrappers(ctx)
    n_lits = 0
    for m in ctx.p.modules.values():
        if m.name.startswith(("verification.forves", "statistics")):
            continue
        for lit in _push0_literals(m.tree):
            n_lits += 1
            kind = _classify(lit)
            if kind != "produce":
                out.ok()
                continue
            # enclosing function
            cur = lit
            while cur is not None and not isinstance(cur, (ast.FunctionDef, ast.AsyncFunctionDef)):
                cur = getattr(cur, "_parent", None)
            f = None
            if cur is not None:
                for fi in ctx.p.functions.values():
                    if fi.node is cur:
                        f = fi
            if f is None:
                out.bad(f"push0-produced-at-module-level:{m.name}", "a PUSH0 spelling is produced outside any function", f"{m.rel}:{lit.lineno}")
                continue
            ctx.p.consulted.add(m.name)
            if _guarded(ctx, f, lit):
                out.ok({"function": f.qual, "production": short(getattr(lit, "_parent", lit), 60), "guard": "flag / is_push0 / existing PUSH0"})
            else:
                out.bad(f"unguarded-push0:{f.qual.split('.', 1)[-1]}:{short(getattr(lit, '_parent', lit), 40)}",
                        f"the spelling {lit.value!r} is produced in {f.qual} without a dominating test of constants.{FLAG}",
                        where(f, lit))
        # concatenations that could spell PUSH0
        for n in ast.walk(m.tree):
            if isinstance(n, ast.BinOp) and isinstance(n.op, ast.Add) and isinstance(n.left, ast.Constant) and n.left.value == "PUSH" \
                    and isinstance(n.right, ast.Constant) and str(n.right.value) == "0":
                out.bad(f"push0-by-concatenation:{m.name}", "'PUSH' + '0' spells PUSH0 outside the flag discipline", f"{m.rel}:{n.lineno}")
    if n_lits < 10:
        raise AnalysisError(f"only {n_lits} PUSH0 literals found, expected at least 10")
    # the single consumer that turns a PUSH0 record back into an item emits the second spelling PUSH "0"
    f = ctx.func("solution_generation.ids2asm.id_to_asm_bytecode")
    good = False
    for n in own_nodes(f.node):
        if isinstance(n, ast.If) and _implies_flag(n.test, True):
            for r in n.body:
                if isinstance(r, ast.Return) and isinstance(r.value, ast.Call) and call_name(r.value) == "AsmBytecode":
                    a = r.value.args
                    if len(a) >= 5 and isinstance(a[3], ast.Constant) and a[3].value == "PUSH" and isinstance(a[4], ast.Constant) and a[4].value == "0":
                        good = True
    if good:
        out.ok({"id_to_asm_bytecode": "PUSH0 record -> AsmBytecode(..., 'PUSH', '0') (priced/spelt through is_push0)"})
    else:
        out.bad("id_to_asm_bytecode:push0-record-not-mapped-to-second-spelling", "a PUSH0 record is not rebuilt as PUSH with value '0'", where(f))


# --------------------------------------------------------------------------------------------------- C17.c
def _module_literals(ctx, modname):
    """Module-level NAME = <literal> bindings (tuples, dicts, numbers, strings), evaluated with ast.literal_eval."""
    mod = ctx.p.module(modname)
    env = {}
    for st in mod.tree.body:
        if isinstance(st, ast.Assign) and len(st.targets) == 1 and isinstance(st.targets[0], ast.Name):
            try:
                env[st.targets[0].id] = ast.literal_eval(st.value)
            except Exception:
                pass
    return env


def table_price(ctx, op):
    """(size, gas) of `op` obtained by abstractly evaluating the two price tables."""
    uenv = _module_literals(ctx, "sfs_generator.utils")
    oenv = _module_literals(ctx, "sfs_generator.opcodes")
    gs = ctx.func("sfs_generator.utils.get_ins_size")
    gc = ctx.func("sfs_generator.opcodes.get_ins_cost")
    try:
        size = Evaluator(gs.node, globals_env=uenv).call(op)
        gas = Evaluator(gc.node, globals_env=oenv).call(op)
    except (Unsupported, Raised) as e:
        raise AnalysisError(f"cannot evaluate the price tables for {op}: {e}")
    return size, gas


def rule_c(ctx, out):
    size0, gas0 = table_price(ctx, "PUSH0")
    out.info["table_price_PUSH0"] = {"size": size0, "gas": gas0}
    cls = ctx.p.cls("sfs_generator.asm_bytecode.AsmBytecode")
    # The item's own methods, evaluated abstractly (own interpreter; helper methods and wrappers are followed) on a zero push, an
    # ordinary one-byte push, a genuine PUSH0 item and a non-push item, with the flag on and off.
    from ..core.interp import ModuleInterp
    from ..core.minieval import Unsupported, Raised
    mi = ModuleInterp(ctx, max_steps=100000)
    Item = mi.fake_class(cls)

    def item(disasm, value):
        return Item(disasm=disasm, value=value, real_value=value, jump_type=None, modifier_depth=None, begin=0, end=0, source=0)

    def obs(it, flag):
        mi.module_env("global_params.constants")["push0_enabled"] = flag
        try:
            return {"bytes_required": it.bytes_required, "gas_spent": it.gas_spent, "gas_spent_accesses": it.gas_spent_accesses(False, False),
                    "to_plain": it.to_plain(), "to_plain_with_byte_number": it.to_plain_with_byte_number()}
        except Raised as e:
            return {"raises": e.what}
        except Unsupported as e:
            raise AnalysisError(f"AsmBytecode price/spelling methods: cannot evaluate abstractly: {e}")
    zero_on, zero_off = obs(item("PUSH", "0"), True), obs(item("PUSH", "0"), False)
    one_on, one_off = obs(item("PUSH", "1"), True), obs(item("PUSH", "1"), False)
    add_on, add_off = obs(item("ADD", None), True), obs(item("ADD", None), False)
    expect_on = {"bytes_required": size0, "gas_spent": gas0, "gas_spent_accesses": gas0, "to_plain": "PUSH0", "to_plain_with_byte_number": "PUSH0"}
    for m, val in expect_on.items():
        if zero_on.get(m) == val:
            out.ok({"method": f"AsmBytecode.{m}", "zero push with the flag on": val})
        else:
            out.bad(f"AsmBytecode.{m}:zero-push-price" if m in ("bytes_required", "gas_spent", "gas_spent_accesses") else f"AsmBytecode.{m}:zero-push-predicate",
                    f"with PUSH0 enabled AsmBytecode.{m} of `PUSH 0` is {zero_on.get(m, zero_on)!r}; a PUSH0 instruction is {val!r}", where(cls.methods[m]))
        # flag off: a zero push is an ordinary one-byte push
        want = one_off.get(m)
        if m.startswith("to_plain"):
            want = (want[:want.rfind("1")] + "0" + want[want.rfind("1") + 1:]) if isinstance(want, str) and "1" in want else want
        if zero_off.get(m) == want and (not isinstance(want, str) or "PUSH0" not in want):
            out.ok({"method": f"AsmBytecode.{m}", "zero push with the flag off": zero_off.get(m)})
        else:
            out.bad(f"AsmBytecode.{m}:zero-push-predicate", f"with PUSH0 disabled AsmBytecode.{m} of `PUSH 0` is {zero_off.get(m, zero_off)!r}; an ordinary one-byte push "
                    f"gives {want!r}", where(cls.methods[m]))
        if one_on.get(m) == one_off.get(m) and add_on.get(m) == add_off.get(m):
            out.ok()
        else:
            out.bad(f"AsmBytecode.{m}:flag-changes-other-items", f"AsmBytecode.{m} of `PUSH 1` / `ADD` depends on the PUSH0 flag", where(cls.methods[m]))
    # is_push0 itself, by evaluation: true exactly for (flag on, "PUSH", "0")
    ip = ctx.func("sfs_generator.asm_bytecode.is_push0")

    def set_flag(flag):
        for m in list(mi.env) + ["global_params.constants"]:
            env = mi.module_env(m)
            if m == "global_params.constants":
                env["push0_enabled"] = flag
    names, values = ("PUSH", "PUSH0", "ADD", "PUSH data", "PUSH [tag]"), ("0", "1", "00", None, 0)
    wrong = []
    for flag in (True, False):
        set_flag(flag)
        for d in names:
            for v in values:
                try:
                    got = bool(mi.call(ip, d, v))
                except Raised as e:
                    got = f"raises {e.what}"
                except Unsupported as e:
                    raise AnalysisError(f"is_push0 cannot be evaluated abstractly: {e}")
                if got != (flag and d == "PUSH" and v == "0"):
                    wrong.append((flag, d, v, got))
    if not wrong:
        out.ok({"is_push0": f"{2 * len(names) * len(values)} cases: true exactly for flag on, 'PUSH', '0'"})
    else:
        flag, d, v, got = wrong[0]
        out.bad("is_push0:predicate-changed", f"is_push0({d!r}, {v!r}) with the flag {'on' if flag else 'off'} is {got}; a zero push is `flag and disasm == 'PUSH' "
                f"and value == '0'` ({len(wrong)} cases differ)", where(ip))
    # parser: the item built from an assembly record is PUSH0/None exactly under the same predicate, and the record's own name/value otherwise
    bb = ctx.func("sfs_generator.parser_asm.build_asm_bytecode")
    init_params = [p for p in cls.methods["__init__"].params if p != "self"]

    def built(*a, **k):
        d = dict(zip(init_params, a))
        d.update(k)
        return ("ITEM", d.get("disasm"), d.get("value"))
    pmi = ModuleInterp(ctx, max_steps=100000, extern={"AsmBytecode": built})
    wrong = []
    for flag in (True, False):
        pmi.module_env("global_params.constants")["push0_enabled"] = flag
        for d in names:
            for v in values[:4]:
                rec = {"name": d, "begin": 1, "end": 2, "source": 3}
                if v is not None:
                    rec["value"] = v
                try:
                    got = pmi.call(bb, rec, {})
                except Raised as e:
                    got = ("raises", e.what)
                except Unsupported as e:
                    raise AnalysisError(f"build_asm_bytecode cannot be evaluated abstractly: {e}")
                zero = flag and d == "PUSH" and v == "0"
                if got != (("ITEM", "PUSH0", None) if zero else ("ITEM", d, v)):
                    wrong.append((flag, d, v, got))
    if not wrong:
        out.ok({"build_asm_bytecode": f"{2 * len(names) * 4} records: PUSH0 item exactly for flag on, 'PUSH', '0'"})
    else:
        flag, d, v, got = wrong[0]
        out.bad("build_asm_bytecode:predicate-differs-from-is_push0", f"the parser builds {got!r} from the record {d} {v!r} with the flag {'on' if flag else 'off'}: "
                f"a PUSH0 item is built exactly when `flag and name == 'PUSH' and value == '0'` ({len(wrong)} records differ)", where(bb))
    # specification record of a pushed constant: evaluated abstractly for a zero and a non-zero value with the flag on and off —
    # every spelling / price field follows the flag together
    gp = ctx.func("sfs_generator.gasol_optimization.generate_push_instruction")
    GOm = "sfs_generator.gasol_optimization"
    mi2 = ModuleInterp(ctx, max_steps=100000)

    def rec(value, flag):
        mi2.module_env("global_params.constants")["push0_enabled"] = flag
        try:
            return mi2.call(gp, 3, value, "s(9)")
        except (Unsupported, Raised) as e:
            raise AnalysisError(f"generate_push_instruction: cannot evaluate abstractly: {e}")
    zero_on, zero_off, five_on, five_off = rec(0, True), rec(0, False), rec(5, True), rec(5, False)
    cost = ctx.func("sfs_generator.opcodes.get_ins_cost")
    size = ctx.func("sfs_generator.utils.get_ins_size")
    want0 = {"id": "PUSH0_3", "disasm": "PUSH0", "gas": mi2.call(cost, "PUSH0"), "size": mi2.call(size, "PUSH0")}
    for k in ("id", "opcode", "disasm", "gas", "size"):
        if k not in zero_on:
            raise AnalysisError(f"generate_push_instruction: field {k} not assigned")
        problems = []
        if k in want0 and zero_on[k] != want0[k]:
            problems.append(f"with PUSH0 enabled a pushed zero has {k} = {zero_on[k]!r}, a PUSH0 instruction has {want0[k]!r}")
        if k == "opcode" and zero_on[k] == zero_off[k]:
            problems.append("the opcode byte of a pushed zero does not change with the flag")
        if k in ("id", "disasm") and "PUSH0" in str(zero_off[k]):
            problems.append(f"with PUSH0 disabled a pushed zero has {k} = {zero_off[k]!r}")
        if k in ("opcode", "disasm", "gas") and five_on[k] != five_off[k] or k in ("opcode", "disasm", "gas") and zero_off[k] != five_off[k]:
            problems.append(f"{k} of an ordinary push depends on the flag / on the value")
        if problems:
            out.bad(f"generate_push_instruction:field-ignores-push0:{k}", f"record field \"{k}\" of a pushed constant: " + "; ".join(problems), where(gp),
                    {"zero_flag_on": {x: zero_on.get(x) for x in ("id", "opcode", "disasm", "gas", "size")}})
        else:
            out.ok({"field": k, "zero_push_flag_on": zero_on[k], "zero_push_flag_off": zero_off[k]})


# --------------------------------------------------------------------------------------------------- C17.d
def _bool_form(e):
    """A test as a propositional formula: returns (eval(assignment) -> bool, set of atoms).  x != y and x == y share one atom, as do
    `x is None` / `x is not None`; not / and / or are interpreted; everything else is an opaque atom."""
    if isinstance(e, ast.UnaryOp) and isinstance(e.op, ast.Not):
        f, at = _bool_form(e.operand)
        return (lambda a: not f(a)), at
    if isinstance(e, ast.BoolOp):
        parts = [_bool_form(v) for v in e.values]
        atoms = set().union(*[p[1] for p in parts])
        if isinstance(e.op, ast.And):
            return (lambda a: all(p[0](a) for p in parts)), atoms
        return (lambda a: any(p[0](a) for p in parts)), atoms
    if isinstance(e, ast.Compare) and len(e.ops) == 1:
        op = e.ops[0]
        l, r = norm(e.left), norm(e.comparators[0])
        if isinstance(op, (ast.Eq, ast.NotEq)):
            atom = ("eq",) + tuple(sorted((l, r)))
            return ((lambda a: a[atom]) if isinstance(op, ast.Eq) else (lambda a: not a[atom])), {atom}
        if isinstance(op, (ast.Is, ast.IsNot)) and r == "None":
            atom = ("none", l)
            return ((lambda a: a[atom]) if isinstance(op, ast.Is) else (lambda a: not a[atom])), {atom}
    atom = ("atom", norm(e))
    return (lambda a: bool(a[atom])), {atom}


def _implies_selected(test, want, loop_var):
    """(test == want) implies NOT (a contract was requested and this one is a different one) — decided by truth table."""
    import itertools
    f, atoms = _bool_form(test)
    match = [a for a in atoms if a[0] == "eq" and any(t.endswith(".contract") for t in a[1:]) and any(t.startswith(loop_var + ".") for t in a[1:])]
    none = [a for a in atoms if a[0] == "none" and a[1].endswith(".contract")]
    if not match or len(atoms) > 8:
        return False
    atoms = sorted(atoms)
    for vals in itertools.product((False, True), repeat=len(atoms)):
        asg = dict(zip(atoms, vals))
        if f(asg) != want:
            continue
        requested = (not asg[none[0]]) if none else True
        if requested and not asg[match[0]]:
            return False
    return True


def rule_d(ctx, out):
    f = ctx.func("gasol_asm.optimize_asm_in_asm_format")
    cfg = ctx.cfg(f)
    loops = [n for n in cfg.nodes if n.kind == "iter" and isinstance(n.ast.target, ast.Name) and
             any(calls_in(st, "optimize_asm_contract") for st in n.ast.body)]
    if not loops:
        raise AnalysisError("optimize_asm_in_asm_format: loop over contracts not found")
    for l in loops:
        lv = l.ast.target.id
        calls = [n for n in cfg.nodes if node_calls(n, "optimize_asm_contract")]
        for cn in calls:
            c = node_calls(cn, "optimize_asm_contract")[0]
            if not (c.args and is_name(c.args[0], lv)):
                continue
            ok = False
            for t in cfg.nodes:
                if t.kind == "test":
                    for lab in ("T", "F"):
                        if _implies_selected(t.ast, lab == "T", lv) and cfg.edge_dominated_by_branch(cn, t, lab):
                            ok = True
            if ok:
                out.ok({"call": short(cn.ast, 60), "guard": "contract is the selected one (or none was requested)"})
            else:
                out.bad("optimize_asm_in_asm_format:unselected-contract-optimized", "optimize_asm_contract can be reached for a contract that "
                        "is not the one selected with -c", where(f, cn.ast))
        # what is appended to the output list: the loop variable itself or the optimizer's result
        res_names = set()
        for cn in calls:
            a = cn.ast
            if isinstance(a, ast.Assign) and isinstance(a.targets[0], ast.Tuple) and isinstance(a.targets[0].elts[0], ast.Name):
                res_names.add(a.targets[0].elts[0].id)
        for st in ast.walk(l.ast):
            if isinstance(st, ast.Call) and call_name(st) == "append" and st.args:
                if is_name(st.args[0], lv) or (isinstance(st.args[0], ast.Name) and st.args[0].id in res_names):
                    out.ok({"append": short(st)})
                else:
                    out.bad(f"optimize_asm_in_asm_format:appends-derived-object:{short(st, 40)}", "a contract is appended that is neither the parsed "
                            "object nor the optimizer's result", where(f, st))


def rule_e(ctx, out):
    """A block costs the same in both spellings of its zero pushes.  The input side of the acceptance test holds parsed items (a zero push
    is the item PUSH0 without value when PUSH0 is allowed), the candidate side holds rebuilt items (PUSH with value "0"); AsmBlock.gas_spent
    follows the stack to price warm and cold accesses, so the two spellings must lead to the same warm/cold decisions as well as to the same
    opcode price.  gas_spent is interpreted (with the item class's own pricing methods) on blocks that touch one slot twice through their
    own zero pushes, in the parsed and in the rebuilt spelling, with PUSH0 allowed and not."""
    from ..core.interp import ModuleInterp
    from ..core.minieval import Unsupported, Raised
    bcls = ctx.p.cls("sfs_generator.asm_block.AsmBlock")
    icls = ctx.p.cls("sfs_generator.asm_bytecode.AsmBytecode")
    gs = bcls.methods.get("gas_spent")
    if gs is None:
        raise AnalysisError("AsmBlock.gas_spent not found")
    shapes = [["Z", "SLOAD", ("PUSH", "1"), "ADD", "Z", "SSTORE"], ["Z", "SLOAD", "Z", "SLOAD", "ADD"], [("PUSH", "7"), "Z", "SSTORE", ("PUSH", "8"), "Z", "SSTORE"],
              ["Z", "BALANCE", "Z", "EXTCODESIZE", "ADD"]]
    n = 0
    for enabled in (True, False):
        mi = ModuleInterp(ctx, max_steps=200000, extern={"sfs_generator.utils.compute_stack_size": lambda *a, **k: 0, "compute_stack_size": lambda *a, **k: 0})
        Item, Blk = mi.fake_class(icls), mi.fake_class(bcls)
        make = mi.constructor(icls, lambda: Item())
        mi.module_env("global_params.constants")["push0_enabled"] = enabled
        for shape in shapes:
            totals = {}
            for spelling, z in (("parsed", ("PUSH0", None) if enabled else ("PUSH", "0")), ("rebuilt", ("PUSH", "0"))):
                items = [make(-1, -1, -1, *(z if x == "Z" else x if isinstance(x, tuple) else (x, None))) for x in shape]
                try:
                    totals[spelling] = mi.call(gs, Blk(_instructions=items))
                except Raised as e:
                    totals[spelling] = f"raises {e.what}"
                except Unsupported as e:
                    raise AnalysisError(f"AsmBlock.gas_spent cannot be evaluated abstractly on {shape} ({spelling}): {e}")
            n += 1
            if totals["parsed"] == totals["rebuilt"] and isinstance(totals["parsed"], int):
                out.ok({"block": " ".join(x if isinstance(x, str) else " ".join(x) for x in shape), "push0_enabled": enabled, "gas": totals["parsed"]})
            else:
                out.bad(f"block-gas-depends-on-the-spelling-of-zero-pushes:{'push0' if enabled else 'no-push0'}", f"AsmBlock.gas_spent prices the block "
                        f"`{' '.join(x if isinstance(x, str) else ' '.join(x) for x in shape)}` (Z = a zero push) at {totals['parsed']} in the parsed spelling and "
                        f"{totals['rebuilt']} in the rebuilt one (PUSH0 {'allowed' if enabled else 'not allowed'}): the acceptance test compares an input and a "
                        f"candidate that are priced by different rules", where(gs))
    if n < 8:
        raise AnalysisError(f"only {n} blocks priced")


RULES = [
    ("C17.e", "a block costs the same in both spellings of its zero pushes (warm/cold accesses included)", 8, rule_e),
    ("C17.a", "PUSH0 flag discipline", 10, rule_a),
    ("C17.b", "who may produce the PUSH0 spelling", 12, rule_b),
    ("C17.c", "one predicate, one price for both spellings of a zero push", 10, rule_c),
    ("C17.d", "contract filter", 3, rule_d),
]
