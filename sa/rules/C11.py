"""C11 — log replay reproduces the optimized code and rejects tampered logs (scoped claim).

C11.a verification dominates emission in the replay driver; the file is written only after all blocks were verified
C11.b writer/reader agreement of the log: keys, recorded id list, and "logged iff accepted and kept"
C11.c (informational) unknown ids are passed through by id_to_asm_bytecode — protection is C11.a alone
C11.d per-section block lists of the drivers are fresh
C11.e the block comparison looks at every instruction
"""
import ast

from ..core.flow import (call_name, calls_in, node_calls, node_binds, is_name, same_expr, single_assignments,
                         propagate_unverified, reaching_defs)
from ..core.loader import AnalysisError, short, own_nodes, norm
from ..core.report import where
from . import C01

TECHNIQUE = ("CFG must-pass-through analysis of the replay driver; def-use agreement between the log writer "
             "(optimize_block / optimize_asm_block_asm_format / optimize_asm_contract) and the log reader "
             "(generate_sfs_dicts_from_log)")
LEVEL_TEXT = ("Decides that a block rebuilt from a log is emitted only after the built-in comparison accepted it (any "
              "other path raises), that the output file is written only after every block was verified, that log keys "
              "written and read are the same sub-block names, that the id list recorded is the one the emitted code was "
              "built from, and that a block is logged iff its replacement was accepted and survived verification. "
              "Byte-for-byte reproduction additionally needs determinism (C13) and is not decided here.")
EXPLANATION = ("E7 on optimize_asm_from_log (shared engine with C01.a) plus E6-style agreement rules on the log "
               "dictionary: writer key = block_name of the sub-block built from the specification key; reader key = "
               "specification key; recorded ids = argument of asm_from_ids; `log_dicts[...] = ids` sits on the "
               "accepting branch together with the replacement; the driver drops the log element on fallback.")
NOT_DECIDED = ("byte-for-byte equality of two runs (needs C13 and an execution); equivalence for accepted tampered logs "
               "(rests on C05)")
ASSUMPTIONS = ["the comparison accepted by C11.a is sound (C05) — this check shows it is always consulted"]

GASOL = "gasol_asm"


def rule_a(ctx, out):
    sites = C01.check_sites(ctx, out, producers={"optimize_asm_block_from_log"})
    if not sites:
        raise AnalysisError("no call to optimize_asm_block_from_log found in gasol_asm.py")
    # a failed comparison must stop the replay (raise), not silently continue with something else
    f = ctx.func(f"{GASOL}.optimize_asm_from_log")
    cfg = ctx.cfg(f)
    # the replay entry point and the helpers of the same module it calls (the per-block part may live in a helper)
    replay_funcs = [g for q, g in sorted(ctx.r.reachable([f], by_name=False).items()) if g.module.name == GASOL
                    and g.name not in ("optimize_asm_block_from_log", "generate_sfs_dicts_from_log", C01.COMPARE)]
    n_cmp = 0
    for g in replay_funcs:
        gcfg = ctx.cfg(g)
        for n in gcfg.nodes:
            for c in node_calls(n, C01.COMPARE):
                a = n.ast
                flag = C01._bound_from_call(a, c, 0) if isinstance(a, ast.Assign) else None
                if flag is None:
                    continue
                n_cmp += 1
                # from the compare with flag false: must reach a raise before any further producer/loop step or a normal return

                def is_raise(m):
                    return m.kind == "stmt" and isinstance(m.ast, ast.Raise)
                hits = propagate_unverified(gcfg, n, flag, is_raise, lambda m, gcfg=gcfg: m.kind == "iter" or m is gcfg.exit)
                if hits:
                    out.bad(f"{g.name}:failed-verification-does-not-stop" if g is not f else "optimize_asm_from_log:failed-verification-does-not-stop",
                            "after a failed comparison the replay continues (no raise on that path)", where(g, a))
                else:
                    out.ok({"function": g.qual, "compare": short(a, 60), "on_failure": "raise"})
    if n_cmp < 1:
        raise AnalysisError("log replay: no verification of a rebuilt block found in optimize_asm_from_log or its helpers")
    # file written only after all loops: no producer call reachable from the write
    writes = [n for n in cfg.nodes if n.kind == "stmt" and isinstance(n.ast, ast.With) and
              any(isinstance(it.context_expr, ast.Call) and call_name(it.context_expr) == "open" and len(it.context_expr.args) > 1
                  and isinstance(it.context_expr.args[1], ast.Constant) and "w" in str(it.context_expr.args[1].value)
                  for it in n.ast.items)]
    if not writes:
        raise AnalysisError("optimize_asm_from_log: output file write not found")
    prod_nodes = [cfg.stmt_node(s[1]) for s in sites if s[0] is f]
    for w in writes:
        reach = cfg.reachable_nodes(w)
        if any(p.id in reach for p in prod_nodes):
            out.bad("optimize_asm_from_log:write-before-all-verified", "the output file is written while blocks are still being processed",
                    where(f, w.ast))
        else:
            out.ok({"function": f.qual, "write": short(w.ast.items[0].context_expr, 60), "position": "after all blocks verified"})


def rule_b(ctx, out):
    # ---- writer 1: optimize_block's solution tuple ---------------------------------------------------
    ob = ctx.func(f"{GASOL}.optimize_block")
    assigns = single_assignments(ob.node)
    loops = [n for n in own_nodes(ob.node) if isinstance(n, ast.For) and isinstance(n.target, ast.Name)]
    key_vars = {l.target.id for l in loops if isinstance(l.iter, ast.Name) and l.iter.id == ob.params[0]}
    appended = [c for c in calls_in(ob.node, "append") if c.args and isinstance(c.args[0], ast.Tuple)]
    if not appended or not key_vars:
        raise AnalysisError("optimize_block: solution tuple / loop over the specification dict not found")
    for c in appended:
        tup = c.args[0].elts
        first, last = tup[0], tup[-1]
        # component 0: block built with the specification key as name
        ok0 = False
        if isinstance(first, ast.Name) and first.id in assigns and len(assigns[first.id]) == 1:
            v = assigns[first.id][0][1]
            if isinstance(v, ast.Call) and call_name(v) == "generate_block_from_plain_instructions" and len(v.args) >= 2 \
                    and isinstance(v.args[1], ast.Name) and v.args[1].id in key_vars:
                ok0 = True
        if ok0:
            out.ok({"optimize_block": "component 0 is a block named by the specification key"})
        else:
            out.bad("optimize_block:subblock-not-named-by-spec-key", "the block returned for a sub-block is not named with the key of "
                    "its specification, so log keys will not be found at replay", where(ob, c))
        # last component: the id list from which the candidate code was built
        ids_ok = False
        if isinstance(last, ast.Name):
            for a in calls_in(ob.node, "asm_from_ids"):
                if len(a.args) >= 2 and is_name(a.args[1], last.id):
                    ids_ok = True
        if ids_ok:
            out.ok({"optimize_block": f"logged ids `{norm(last)}` are the argument of asm_from_ids"})
        else:
            out.bad("optimize_block:logged-ids-not-those-emitted", "the id list handed out for logging is not the one asm_from_ids "
                    "was called with", where(ob, c))
    # generate_block_from_plain_instructions names the block with its 2nd parameter
    gb = ctx.func("sfs_generator.parser_asm.generate_block_from_plain_instructions")
    named = any(isinstance(c, ast.Call) and call_name(c) == "AsmBlock" and len(c.args) >= 3 and is_name(c.args[2], gb.params[1])
                for c in calls_in(gb.node))
    if named:
        out.ok({"generate_block_from_plain_instructions": "block_name parameter becomes AsmBlock.block_name"})
    else:
        out.bad("generate_block_from_plain_instructions:name-not-propagated", "block_name parameter is not used as the block's name", where(gb))

    # ---- writer 2: optimize_asm_block_asm_format -------------------------------------------------------
    f = ctx.func(f"{GASOL}.optimize_asm_block_asm_format")
    cfg = ctx.cfg(f)
    loop = None
    for n in own_nodes(f.node):
        if isinstance(n, ast.For) and isinstance(n.iter, ast.Call) and call_name(n.iter) == "optimize_block" \
                and isinstance(n.target, ast.Tuple):
            loop = n
    if loop is None:
        raise AnalysisError("optimize_asm_block_asm_format: loop over optimize_block(...) not found")
    names = [e.id if isinstance(e, ast.Name) else None for e in loop.target.elts]
    sub_block_var, ids_var, asm_var = names[0], names[-1], names[3] if len(names) > 3 else None
    # the returned log dict
    rets = [r for r in own_nodes(f.node) if isinstance(r, ast.Return) and isinstance(r.value, ast.Tuple) and len(r.value.elts) >= 2]
    log_names = {r.value.elts[1].id for r in rets if isinstance(r.value.elts[1], ast.Name)}
    rebuild = calls_in(f.node, "rebuild_optimized_asm_block")
    map_names = {c.args[2].id for c in rebuild if len(c.args) >= 3 and isinstance(c.args[2], ast.Name)}
    assigns_f = single_assignments(f.node)
    log_stores = []
    for n in cfg.nodes:
        a = n.ast
        if n.kind == "stmt" and isinstance(a, ast.Assign) and isinstance(a.targets[0], ast.Subscript) \
                and isinstance(a.targets[0].value, ast.Name) and a.targets[0].value.id in log_names:
            log_stores.append(n)
    if not log_stores:
        raise AnalysisError("optimize_asm_block_asm_format: store into the log dictionary not found")
    for n in log_stores:
        a = n.ast
        key = a.targets[0].slice
        # key is <sub_block>.block_name (possibly through a local name)
        k = key
        if isinstance(k, ast.Name):
            defs = reaching_defs(cfg, k.id, n)
            vals = {norm(d.ast.value) if d.kind == "stmt" and isinstance(d.ast, ast.Assign) else "?" for d in defs}
            key_ok = vals == {f"{sub_block_var}.block_name"}
        else:
            key_ok = norm(k) == f"{sub_block_var}.block_name"
        if key_ok:
            out.ok({"log_store": short(a), "key": "sub-block name"})
        else:
            out.bad("optimize_asm_block_asm_format:log-key-not-subblock-name", f"log key {norm(key)} is not the name of the sub-block "
                    f"the ids belong to", where(f, a))
        if is_name(a.value, ids_var):
            out.ok({"log_store": short(a), "value": "id list returned by optimize_block"})
        else:
            out.bad("optimize_asm_block_asm_format:log-value-not-ids", f"value stored in the log is not the id list `{ids_var}`", where(f, a))
        # paired with an accepted replacement in the same branch: same key, map store dominates or is dominated
        paired = False
        for m in cfg.nodes:
            b = m.ast
            if m.kind == "stmt" and isinstance(b, ast.Assign) and isinstance(b.targets[0], ast.Subscript) \
                    and isinstance(b.targets[0].value, ast.Name) and b.targets[0].value.id in map_names \
                    and same_expr(b.targets[0].slice, key) and not (isinstance(b.value, ast.Constant) and b.value.value is None):
                if cfg.dominates(m, n) or cfg.dominates(n, m):
                    paired = True
        if paired:
            out.ok({"log_store": short(a), "paired_with": "accepted replacement under the same key"})
        else:
            out.bad("optimize_asm_block_asm_format:log-without-accepted-replacement", "ids are logged on a path where the replacement "
                    "was not stored (logged iff accepted is broken)", where(f, a))
    # every accepted replacement is logged
    for m in cfg.nodes:
        b = m.ast
        if m.kind == "stmt" and isinstance(b, ast.Assign) and isinstance(b.targets[0], ast.Subscript) \
                and isinstance(b.targets[0].value, ast.Name) and b.targets[0].value.id in map_names \
                and not (isinstance(b.value, ast.Constant) and b.value.value is None):
            if any(same_expr(n.ast.targets[0].slice, b.targets[0].slice) and (cfg.dominates(m, n) or cfg.dominates(n, m))
                   for n in log_stores):
                out.ok({"replacement": short(b), "logged": True})
            else:
                out.bad("optimize_asm_block_asm_format:replacement-not-logged", "an accepted replacement is not recorded in the log", where(f, b))

    # ---- writer 3: drivers drop the log element on fallback ---------------------------------------------
    n_fb = 0
    for g, stmt, var, old_expr, producer in C01.driver_sites(ctx):
        if producer != "optimize_asm_block_asm_format":
            continue
        t = stmt.targets[0]
        log_var = t.elts[1].id if isinstance(t, ast.Tuple) and len(t.elts) > 1 and isinstance(t.elts[1], ast.Name) else None
        if log_var is None or log_var == "_":
            continue
        gcfg = ctx.cfg(g)
        uses = [n for n in gcfg.nodes if any(is_name(x, log_var) for c in node_calls(n, "update") for x in c.args)]
        if not uses:
            continue
        old_name = old_expr.id if isinstance(old_expr, ast.Name) else None
        for n in gcfg.nodes:
            a = n.ast
            if n.kind == "stmt" and isinstance(a, ast.Assign) and is_name(a.targets[0], var) and old_name and is_name(a.value, old_name):
                n_fb += 1
                # from the fallback, every path to a use of log_var passes an emptying re-binding
                def clears(m):
                    b = m.ast
                    return m.kind == "stmt" and isinstance(b, ast.Assign) and is_name(b.targets[0], log_var) and \
                        isinstance(b.value, ast.Dict) and not b.value.keys
                hits = propagate_unverified(gcfg, n, "\0none", clears, lambda m: m in uses)
                if hits:
                    out.bad(f"{g.name}:log-kept-after-fallback", "after falling back to the input block its log element is still merged "
                            "into the log, so replay would apply ids that were rejected", where(g, a))
                else:
                    out.ok({"driver": g.qual, "fallback": short(a), "log_element": "cleared"})
    out.info["fallback_sites_with_log"] = n_fb

    # ---- reader ---------------------------------------------------------------------------------------------
    # evaluated (own interpreter) with the specification generator replaced by a model: the log is consulted with the keys of the
    # re-generated specification, exactly the logged sub-blocks get a specification to check and their logged id sequence
    from ..core.interp import ModuleInterp
    from ..core.minieval import Unsupported, Raised
    r = ctx.func(f"{GASOL}.generate_sfs_dicts_from_log")
    specs = {"blk_0": {"spec": 0}, "blk_1": {"spec": 1}, "blk_2": {"spec": 2}}
    subs = [["PUSH 1", "LOG0"], ["LOG0", "ADD", "SSTORE"], ["SSTORE", "POP"]]
    class B:
        block_name = "blk"
        block_id = 3

        def get_block_name(self):
            return self.block_name
    mi = ModuleInterp(ctx, max_steps=20000, obj_types=(B,),
                      extern={"compute_original_sfs_with_simplifications": lambda *a, **k: ({"syrup_contract": dict(specs)}, [list(x) for x in subs])})
    bad = None
    for log in ({}, {"blk_1": ["ADD_0", "SWAP1"]}, {"blk_0": ["PUSH_0"], "blk_2": ["POP"], "other_7": ["MUL_0"]}):
        try:
            got = mi.call(r, B(), dict(log), None)
        except Raised as e:
            bad = f"raises {e.what} on the log {log}"
            break
        except Unsupported as e:
            raise AnalysisError(f"generate_sfs_dicts_from_log cannot be evaluated abstractly: {e}")
        want_seq = {k: v for k, v in log.items() if k in specs}
        want_spec = {k: specs[k] for k in want_seq}
        parts = list(got) if isinstance(got, tuple) else []
        if not (dict(specs) in parts and want_spec in parts and want_seq in parts and [list(x) for x in subs] in parts and set(specs) in parts):
            bad = f"for the log {log} it returns {got!r}; due: all specifications, {want_spec}, the sub-block list, {want_seq} and the set of keys"
            break
    if bad is None:
        out.ok({"reader": r.qual, "key": "specification key of the re-generated sub-block", "logs_evaluated": 3})
    else:
        out.bad("generate_sfs_dicts_from_log:reader-key-mismatch", f"the log is not looked up with the keys of the re-generated specification: {bad}", where(r))


def assigns_in(r, it):
    """The iterable is the syrup_contract dict of the freshly generated specifications."""
    assigns = single_assignments(r.node)
    if isinstance(it, ast.Name) and it.id in assigns:
        v = assigns[it.id][0][1]
        return isinstance(v, ast.Subscript) and isinstance(v.slice, ast.Constant) and v.slice.value == "syrup_contract"
    return False


def rule_c(ctx, out):
    f = ctx.func("solution_generation.ids2asm.id_to_asm_bytecode")
    # informational: the fall-through constructs an instruction from an arbitrary id string
    fall = [c for c in calls_in(f.node, "AsmBytecode") if len(c.args) >= 4 and is_name(c.args[3], f.params[1])]
    out.info["unknown_id_passthrough_sites"] = len(fall)
    out.info["note"] = ("ids not present in the specification are emitted verbatim as opcodes; the only protection against a "
                        "tampered log is the comparison checked by C11.a")
    out.ok({"function": f.qual, "passthrough_sites": len(fall)})


def rule_d(ctx, out):
    """The replay driver assembles sections exactly like the optimising driver: per-section block lists are fresh."""
    from . import C09
    C09.rule_e(ctx, out, modules=("gasol_asm",))


def rule_e(ctx, out):
    """Every instruction of a block is looked at by the comparison.  compare_asm_block_asm_format compares three projections of a block:
    the instructions that go into the specification, the leading tag/JUMPDEST items and the block-ending items.  The specification
    projection drops tag/JUMPDEST and terminators at *any* position, so the other two must pick them up at any position: the three
    projections partition the instruction list.  Evaluated abstractly on blocks with such items at the start, in the middle and at
    the end (a replayed log can put `STOP` anywhere)."""
    from ..core.interp import ModuleInterp
    from ..core.minieval import Unsupported, Raised
    cls = ctx.p.cls("sfs_generator.asm_block.AsmBlock")
    mi = ModuleInterp(ctx, max_steps=100000)
    env = mi.module_env("global_params.constants")
    if not isinstance(env.get("beginning_block"), (set, frozenset, list, tuple)) or not isinstance(env.get("end_block"), (set, frozenset, list, tuple)):
        raise AnalysisError("global_params.constants: beginning_block / end_block not found")
    Blk = mi.fake_class(cls)

    class Item:
        def __init__(self, d):
            self.disasm = d

        def __repr__(self):
            return self.disasm
    mi.obj_types = mi.obj_types + (Item,)
    starts, ends = sorted(env["beginning_block"]), sorted(env["end_block"])
    shapes = [[starts[0], "ADD", ends[0]], ["ADD", ends[0], "MUL", "SSTORE"], ["ADD", starts[0], "MUL"], [ends[1], "ADD", ends[0]], ["ADD", "MUL"],
              [starts[0], starts[-1], "ADD", ends[-1], "SUB", ends[0]]] + [["PUSH", e, "POP"] for e in ends] + [["PUSH", b, "POP"] for b in starts]
    n = 0
    for names in shapes:
        items = [Item(d) for d in names]
        blk = Blk(instructions=items)
        try:
            parts = [blk.instructions_initial_bytecode(), blk.instructions_to_optimize_bytecode(), blk.instructions_final_bytecode()]
        except (Unsupported, Raised) as e:
            raise AnalysisError(f"AsmBlock projections: cannot evaluate abstractly on {names}: {e}")
        n += 1
        got = [id(x) for p_ in parts for x in p_]
        missing = [x for x in items if id(x) not in got]
        twice = [x for x in items if got.count(id(x)) > 1]
        order_ok = all([id(x) for x in p_] == [id(x) for x in items if id(x) in {id(y) for y in p_}] for p_ in parts)
        if not missing and not twice and order_ok:
            out.ok({"block": " ".join(names), "initial": repr(parts[0]), "specified": repr(parts[1]), "final": repr(parts[2])})
        elif missing:
            where_ = "in the middle" if items.index(missing[0]) not in (0, len(items) - 1) else "at the end" if items.index(missing[0]) else "at the start"
            out.bad(f"instruction-compared-nowhere:{'terminator' if missing[0].disasm in ends else 'block-start' if missing[0].disasm in starts else 'ordinary'}:{where_.replace(' ', '-')}",
                    f"in the block `{' '.join(names)}` the instruction {missing[0]} ({where_}) is in none of the three projections that the block comparison "
                    f"looks at: a rebuilt block may add, drop or move it unnoticed", where(cls.methods["instructions_final_bytecode"]))
        else:
            out.bad("instruction-projections-overlap-or-reorder", f"`{' '.join(names)}`: projections {parts} overlap or change the order", where(cls.methods["instructions_to_optimize_bytecode"]))
    if n < 10:
        raise AnalysisError(f"only {n} block shapes evaluated")


RULES = [
    ("C11.e", "the block comparison looks at every instruction", 10, rule_e),
    ("C11.d", "per-section block lists of the drivers are fresh", 2, rule_d),
    ("C11.a", "verification dominates emission in log replay", 3, rule_a),
    ("C11.b", "log writer/reader agreement", 10, rule_b),
    ("C11.c", "unknown ids (informational)", 1, rule_c),
]
