"""C01 — optimized blocks are observationally equivalent to the original (scoped claim).

C01.a safety net dominates every emission      (E7, CFG)
C01.b opcode -> operator -> opcode round trip  (E1, template strings)   [see roundtrip.py]
C01.c stack-effect table vs EVM reference      (table comparison)
C01.d load/hash unification checks every intervening access
"""
import ast

from ..core.flow import (call_name, calls_in, node_calls, node_binds, node_exprs, propagate_unverified,
                         single_assignments, target_names, is_name, same_expr)
from ..core.loader import AnalysisError, short, own_nodes, norm
from ..core.report import where

TECHNIQUE = 'CFG must-pass-through (dominance) analysis; template-string abstract interpretation of the opcode dispatch chains; table comparison against an EVM reference'
LEVEL_TEXT = "Decides three necessary structural clauses of C01 on the current source: (a) every emission of an optimized block is reachable only after the built-in comparison said 'equal' or after the fallback re-binding; (b) opcode->operator->opcode round trip is the identity and injective on the optimizable vocabulary; (c) the stack-arity table equals the EVM reference; (e) every opcode of the front-end's vocabulary that the EVM reference lists as externally visible or position dependent is a splitting / block-ending instruction (otherwise it is a pure term that can be dropped or moved); the block comparison itself is evaluated on stand-in blocks that differ in exactly one part (shared with C05.j). It does not decide equivalence of any concrete block."

EXPLANATION = ("Static must-pass-through analysis on the CFG of every function of gasol_asm.py that obtains an "
               "optimized block: each container insertion / return of that block is reachable only after "
               "compare_asm_block_asm_format(old, new) said 'equal' or the variable was re-bound to the input block; "
               "the comparison's result is a conjunction of the SFS verification and the equality of the "
               "non-optimizable prefix/suffix; verify_block_from_list_of_sfs compares key sets and sends every key "
               "through are_equals.  Plus (C01.b) abstract interpretation of the three string dispatch chains for "
               "every optimizable opcode and (C01.c) comparison of the arity table with the EVM reference.")
NOT_DECIDED = ("that the search result realises the spec (C04/C06), soundness of the comparison itself (C05), and "
               "everything that depends on 256-bit values")
ASSUMPTIONS = ["an optimized block enters a driver function only as the first component of "
               "optimize_asm_block_asm_format(...)'s result or optimize_asm_block_from_log(...)'s result"]

GASOL = "gasol_asm"
PRODUCERS = {"optimize_asm_block_asm_format": 0, "optimize_asm_block_from_log": None}
COMPARE = "compare_asm_block_asm_format"
EMIT_METHODS = {"append", "extend", "insert", "add", "appendleft"}


def _bound_from_call(stmt, call, index):
    """Name bound from component `index` (None = whole value) of `call` in assignment `stmt`."""
    if not isinstance(stmt, ast.Assign) or stmt.value is not call:
        return None
    t = stmt.targets[0]
    if index is None:
        return t.id if isinstance(t, ast.Name) else None
    if isinstance(t, (ast.Tuple, ast.List)) and index < len(t.elts) and isinstance(t.elts[index], ast.Name):
        return t.elts[index].id
    return None


def _emission(node, var):
    """Does CFG node emit `var` (container insertion, return/yield, attribute or subscript store)?"""
    for e in node_exprs(node):
        for n in ast.walk(e):
            if isinstance(n, ast.Call) and isinstance(n.func, ast.Attribute) and n.func.attr in EMIT_METHODS:
                if any(is_name(x, var) for a in n.args for x in ast.walk(a)):
                    return True
            if isinstance(n, (ast.Return, ast.Yield)) and n.value is not None:
                if any(is_name(x, var) for x in ast.walk(n.value)):
                    return True
            if isinstance(n, ast.Assign) and any(isinstance(t, (ast.Subscript, ast.Attribute)) for t in n.targets):
                if any(is_name(x, var) for x in ast.walk(n.value)):
                    return True
    return False


def driver_sites(ctx):
    """(finfo, cfg, producer stmt node, new_var, old_expr) for every place a driver obtains an optimized block."""
    sites = []
    for f in ctx.p.funcs_in(GASOL):
        for n in own_nodes(f.node):
            if isinstance(n, ast.Assign) and isinstance(n.value, ast.Call) and call_name(n.value) in PRODUCERS \
                    and n.value.args:
                idx = PRODUCERS[call_name(n.value)]
                var = _bound_from_call(n, n.value, idx)
                sites.append((f, n, var, n.value.args[0], call_name(n.value)))
    return sites


def analyse_site(ctx, f, stmt, var, old_expr, producer):
    """Returns (list of (cfg node, why) emitted-unverified, number of compare sites, number of emissions)."""
    cfg = ctx.cfg(f)
    pnode = cfg.stmt_node(stmt)
    cmp_nodes = []
    for n in cfg.nodes:
        for c in node_calls(n, COMPARE):
            if len(c.args) >= 2 and same_expr(c.args[0], old_expr) and is_name(c.args[1], var):
                a = n.ast
                flag = _bound_from_call(a, c, 0) if isinstance(a, ast.Assign) else None
                cmp_nodes.append((n, flag))
    old_name = old_expr.id if isinstance(old_expr, ast.Name) else None

    def neutral(n, _var=var, _old=old_name, _stmt=stmt):
        a = n.ast
        # re-binding to the input block (or a fresh optimisation, handled as its own site)
        if n.kind == "stmt" and isinstance(a, ast.Assign) and len(a.targets) == 1 and is_name(a.targets[0], _var):
            if _old is not None and is_name(a.value, _old):
                return True
        if n.kind == "stmt" and a is not _stmt and _var in node_binds(n) and isinstance(a, ast.Assign) \
                and isinstance(a.value, ast.Call) and call_name(a.value) in PRODUCERS:
            return True
        if n.kind == "iter" and _old is not None and _old in node_binds(n):
            return True   # next loop iteration: new input block, the old pair is gone
        return False

    emitted_unverified = []
    cmp_ids = {n.id for n, _ in cmp_nodes}

    def prod_neutral(n):
        return n.id in cmp_ids or neutral(n)

    hits = propagate_unverified(cfg, pnode, "\0none", prod_neutral, lambda n, v=var: _emission(n, v))
    for h in hits:
        emitted_unverified.append((h, "no comparison with the input block on some path"))
    for cn, flag in cmp_nodes:
        if flag is None:
            emitted_unverified.append((cn, "comparison result is not bound to a name that is tested"))
            continue
        hits = propagate_unverified(cfg, cn, flag, neutral, lambda n, v=var: _emission(n, v))
        for h in hits:
            emitted_unverified.append((h, f"reachable with `{flag}` false and `{var}` not re-bound to the input block"))
    n_emit = sum(1 for n in cfg.nodes if _emission(n, var))
    return emitted_unverified, cmp_nodes, n_emit


def check_sites(ctx, out, producers=None):
    sites = [s for s in driver_sites(ctx) if producers is None or s[4] in producers]
    for f, stmt, var, old_expr, producer in sites:
        w = where(f, stmt)
        if var is None:
            out.bad(f"{f.name}:{producer}:unbound-result", "result of the optimizer is not bound to a plain name; "
                    "cannot track it to the emission", w)
            continue
        emitted_unverified, cmp_nodes, n_emit = analyse_site(ctx, f, stmt, var, old_expr, producer)
        if emitted_unverified:
            for h, why in emitted_unverified:
                out.bad(f"{f.name}:{producer}:emit:{short(h.ast, 50)}",
                        f"optimized block `{var}` emitted unverified: {why}", where(f, h.ast),
                        {"function": f.qual, "emission": short(h.ast), "why": why})
        else:
            out.ok({"function": f.qual, "producer": short(stmt, 70), "compare_sites": len(cmp_nodes),
                    "emissions": n_emit})
    return sites


def _provenance(expr, f, depth=0):
    """Parameters of f that expr derives from, following plain local assignments."""
    from ..core.flow import single_assignments
    names = {x.id for x in ast.walk(expr) if isinstance(x, ast.Name)}
    out_ = names & set(f.params)
    if depth < 5:
        sa_ = single_assignments(f.node)
        for nm in names - set(f.params):
            for (_, v, _idx) in sa_.get(nm, []):
                out_ |= _provenance(v, f, depth + 1)
    return out_


def rule_a(ctx, out):
    sites = check_sites(ctx, out)
    out.info["driver_sites"] = len(sites)

    # --- the comparison looks at every part of both blocks: decided by evaluating it on stand-in blocks (C05.j) ---------------
    from . import C05
    C05.rule_j(ctx, out)
    f = ctx.func(f"{GASOL}.{COMPARE}")
    vf = ctx.callee_in(f, "verification.sfs_verify")
    # --- verify_block_from_list_of_sfs covers every key ---------------------------
    _verify_block_rule(ctx, vf, out)


def _verify_block_rule(ctx, vf, out):
    cfg = ctx.cfg(vf)
    # returns whose first component is the literal True
    true_rets = []
    for n in cfg.nodes:
        a = n.ast
        if n.kind == "stmt" and isinstance(a, ast.Return) and a.value is not None:
            first = a.value.elts[0] if isinstance(a.value, ast.Tuple) and a.value.elts else a.value
            if not (isinstance(first, ast.Constant) and first.value is False):
                true_rets.append(n)
    if not true_rets:
        raise AnalysisError("verify_block_from_list_of_sfs has no accepting return")
    # (i) key-set comparison
    keytests = []
    for n in cfg.nodes:
        if n.kind == "test" and isinstance(n.ast, ast.Compare) and len(n.ast.ops) == 1 \
                and isinstance(n.ast.ops[0], (ast.NotEq, ast.Eq)):
            sides = [n.ast.left, n.ast.comparators[0]]
            # a comparison of the two key collections: one side derives (through local assignments) from the keys of the first
            # dictionary, the other from the keys of the second; both are collections (set / sorted / comprehension)
            prov = [_provenance(s_, vf) for s_ in sides]
            coll = all(isinstance(s_, (ast.SetComp, ast.ListComp)) or (isinstance(s_, ast.Call) and call_name(s_) in ("set", "sorted", "frozenset", "list"))
                       or isinstance(s_, ast.Name) for s_ in sides)
            p0, p1 = vf.params[0], vf.params[1]
            if coll and ((p0 in prov[0] and p1 in prov[1] and p1 not in prov[0] and p0 not in prov[1])
                         or (p1 in prov[0] and p0 in prov[1] and p0 not in prov[0] and p1 not in prov[1])):
                keytests.append(n)
    # (ii) loops calling are_equals
    loops = []
    for n in cfg.nodes:
        if n.kind == "iter":
            body_calls = [c for st in n.ast.body for c in calls_in(st, "are_equals")]
            if body_calls:
                loops.append(n)
    for r in true_rets:
        ok_keys = any(cfg.edge_dominated_by_branch(r, t, "F" if isinstance(t.ast.ops[0], ast.NotEq) else "T") for t in keytests)
        if ok_keys:
            out.ok({"function": vf.qual, "obligation": "accepting return dominated by key-set equality"})
        else:
            out.bad("verify_block_from_list_of_sfs:keyset-not-compared",
                    "an accepting return is reachable without the sub-block key sets having compared equal",
                    where(vf, r.ast))
        ok_loop = any(cfg.edge_dominated_by_branch(r, l, "F") for l in loops)
        if ok_loop:
            out.ok({"function": vf.qual, "obligation": "accepting return only after the are_equals loop is exhausted"})
        else:
            out.bad("verify_block_from_list_of_sfs:loop-not-exhausted",
                    "an accepting return is reachable without iterating all sub-blocks through are_equals",
                    where(vf, r.ast))
    for l in loops:
        # inside the loop: after are_equals binds eq, reaching the loop header (next key) or an accepting
        # return with eq possibly false is a hole
        for st_node in cfg.nodes:
            if st_node.kind == "stmt" and isinstance(st_node.ast, ast.Assign) and isinstance(st_node.ast.value, ast.Call) \
                    and call_name(st_node.ast.value) == "are_equals":
                flag = _bound_from_call(st_node.ast, st_node.ast.value, 0)
                if flag is None:
                    out.bad("verify_block_from_list_of_sfs:are_equals-result-untested", "result of are_equals not bound", where(vf, st_node.ast))
                    continue
                hits = propagate_unverified(cfg, st_node, flag, lambda n: False,
                                            lambda n: n is l or n in true_rets)
                if hits:
                    out.bad("verify_block_from_list_of_sfs:unequal-subblock-accepted",
                            "a sub-block for which are_equals returned False does not lead to rejection",
                            where(vf, st_node.ast))
                else:
                    out.ok({"function": vf.qual, "obligation": "are_equals == False always rejects"})
        # iterates over the keys of the old dict and indexes both dicts with that key
        it = l.ast.iter
        out.info.setdefault("verify_loop_iterates", short(it))
    if not loops:
        out.bad("verify_block_from_list_of_sfs:no-are_equals-loop", "no loop sends sub-blocks through are_equals", where(vf))


def rule_b(ctx, out):
    from . import roundtrip as rt
    from ..specs.evm import COMMUTATIVE, STACK_ARITY
    rows, info, own, _ = rt.table(ctx)
    voc = rt.vocabulary(ctx)
    out.info["vocabulary"] = len(voc)
    out.info["opcodes_evaluated"] = len(rows)
    stores = set(info["store_instructions"])
    by_skel = {}
    for o in sorted(voc):
        row = rows[o]
        rem, add = STACK_ARITY[o]
        w = f"{rt.IR}: translate of {o}"
        if o in rt.NO_FUNCTOR:
            out.info.setdefault("no_functor_triaged", {})[o] = rt.NO_FUNCTOR[o]
            out.ok({"opcode": o, "triaged": "no functor"})
            continue
        if "raises" in row:
            out.bad(f"translate-raises:{o}", f"translation of {o} raises {row['raises']}", w)
            continue
        if row.get("error_line"):
            out.bad(f"no-translation:{o}", f"{o} is in the vocabulary but ir_block has no translation for it ({row['error_line']})", w)
            continue
        # stack effect of the translation
        if row["delta"] != add - rem:
            out.bad(f"stack-delta:{o}", f"translation of {o} changes the stack height by {row['delta']}, EVM says {add - rem}", w)
            continue
        consumed = [f"<{i}>" for i in range(rem)]
        if o in stores or add == 0:
            if row.get("vars") is not None and row["vars"] != consumed:
                out.bad(f"operand-order:{o}", f"{o}: operands extracted as {row['vars']}, consumption order (top first) is {consumed}", w)
            else:
                out.ok({"opcode": o, "lines": row["lines"], "vars": row.get("vars")})
            continue
        # value producing
        if "giv_raises" in row or not row.get("funct"):
            out.bad(f"no-functor:{o}", f"{o}: get_involved_vars yields no functor for `{row['lines']}`", w)
            continue
        vs = row["vars"]
        if rem == 0:
            ok_vars = len(vs) == 1
        elif o in COMMUTATIVE:
            ok_vars = sorted(vs) == sorted(consumed)
        else:
            ok_vars = vs == consumed
        if not ok_vars:
            out.bad(f"operand-order:{o}", f"{o}: operands extracted as {vs}, consumption order (top first) is {consumed}: a non-commutative "
                    f"operation is specified with swapped or missing operands", w, {"line": row["lines"]})
            continue
        if row["back"] != o:
            out.bad(f"round-trip:{o}->{row['back']}", f"{o} is translated to `{row['lines'][0]}` (functor {row['funct']!r}), which funct_to_opcode maps "
                    f"back to {row['back']}: the emitted code contains a different instruction", w, {"row": row})
            continue
        by_skel.setdefault(row["funct"], []).append(o)
        out.ok({"opcode": o, "line": row["lines"][0], "functor": row["funct"], "back": row["back"]})
    for sk, ops in sorted(by_skel.items()):
        if len(ops) > 1:
            out.bad(f"functor-conflation:{'|'.join(sorted(ops))}", f"opcodes {sorted(ops)} share the functor {sk!r}: the specification cannot tell them apart",
                    f"{rt.IR}")
    if len(voc) < 55:
        raise AnalysisError(f"vocabulary has only {len(voc)} opcodes (expected about 60)")


def rule_c(ctx, out):
    from . import roundtrip as rt
    from ..specs.evm import STACK_ARITY
    rows, info, own, table = rt.table(ctx)
    n = 0
    for o, (rem, add) in sorted(STACK_ARITY.items()):
        got = own.get(o)
        if got is None:
            # the parser cannot read it: only relevant if ir_block knows it
            if o in rows and o not in ("PUSH0",):
                out.bad(f"arity-missing:{o}", f"{o} is translated by ir_block but opcodes.get_opcode has no entry for it", "sfs_generator/opcodes.py")
            continue
        n += 1
        if tuple(got) == (rem, add):
            out.ok({"opcode": o, "arity": [rem, add]})
        else:
            out.bad(f"arity:{o}", f"opcodes.get_opcode({o!r}) says it removes {got[0]} and adds {got[1]} stack items; the EVM removes {rem} and adds {add}. "
                    f"Every later stack variable of a block containing {o} is shifted", "sfs_generator/opcodes.py")
    # DUPk / SWAPk are computed
    for o, exp in (("DUP3", (3, 4)), ("SWAP2", (3, 3)), ("PUSH", (0, 1)), ("PUSH4", (0, 1))):
        got = own.get(o)
        if got is None:
            continue
    if n < 70:
        raise AnalysisError(f"only {n} opcodes compared with the reference arity table")


def rule_d(ctx, out):
    """Load/hash unification in the front-end checks every intervening access (shared with C02.e): merging two loads across a
    store that may alias them changes what the block computes, and the built-in comparison cannot see it (both sides are
    re-specified by the same front-end)."""
    from . import C02
    C02.rule_e(ctx, out)


def rule_e(ctx, out):
    """No opcode with an effect is treated as a pure function.  Whatever is not a splitting or block-ending instruction becomes a term
    of the specification: it is dropped when its result is unused, shared when it occurs twice, and moved freely.  That is sound for
    operations that only read stack, memory, storage and the environment.  For every opcode of the front-end's vocabulary that the EVM
    reference lists as externally visible (calls, creations, logs, copies, halting) or as position dependent (GAS, PC, MSIZE): it must
    be in one of the sets the repository splits / ends blocks at, or be an opcode for which specification generation fails (the
    block is then kept unchanged)."""
    from . import roundtrip as rt
    from ..specs.evm import EXTERNALLY_VISIBLE, POSITION_DEPENDENT
    rows, info, own, _ = rt.table(ctx)
    voc = set(rt.vocabulary(ctx))
    n = 0
    for op in sorted((EXTERNALLY_VISIBLE | POSITION_DEPENDENT) & set(rows)):
        n += 1
        row = rows[op]
        if op not in voc:
            out.ok({"opcode": op, "handled_as": "splitting / block-ending instruction"})
        elif op in rt.NO_FUNCTOR or row.get("giv_raises") or row.get("error_line"):
            out.ok({"opcode": op, "handled_as": "no term can be built: specification generation fails and the block is kept unchanged"})
        elif op in EXTERNALLY_VISIBLE:
            out.bad(f"effectful-opcode-treated-as-pure:{op}", f"{op} is externally visible (EVM reference) but is neither a splitting nor a block-ending instruction: "
                    f"it becomes the term `{row.get('funct')}`, so `… {op} POP` is optimized away and two {op}s with equal operands are merged", where(ctx.p.module("global_params.constants")))
        else:
            out.bad(f"position-dependent-opcode-treated-as-pure:{op}", f"the value of {op} depends on what was executed before it in the block (EVM reference), but it "
                    f"becomes the term `{row.get('funct')}` that can be moved, and accesses before it can be removed (`PUSH 40 MLOAD POP MSIZE` -> `MSIZE`)",
                    where(ctx.p.module("global_params.constants")))
    if n < 20:
        raise AnalysisError(f"only {n} effectful / position-dependent opcodes of the reference are known to the front-end")


RULES = [
    ("C01.e", "no opcode with an effect is treated as a pure function", 20, rule_e),
    ("C01.d", "load/hash unification checks every intervening access", 2, rule_d),
    ("C01.a", "safety net dominates every emission of an optimized block", 8, rule_a),
    ("C01.b", "opcode -> operator -> opcode round trip", 55, rule_b),
    ("C01.c", "stack-effect table equals the EVM reference", 70, rule_c),
]
