"""C09 — non-optimizable code and metadata are preserved; emitted items are well formed (scoped claim).

C09.a field agreement between the item parser and serialiser                 (shared with C15.a)
C09.b parsed items are immutable; the rebuild appends original objects and constructs none; who may construct items
C09.c emitted PUSH values are rendered canonically from an integer in [0, 2^256)  (value range: C03.b)
C09.d contract-level fields: the output contract starts from a deep copy and only code fields are replaced
C09.e containers handed out per loop iteration are fresh
"""
import ast

from ..core.flow import call_name, calls_in, is_name, node_calls
from ..core.loader import AnalysisError, short, own_nodes, norm
from ..core.report import where
from . import C15

TECHNIQUE = ("effect rules: who-may-assign item fields, who-may-construct items, what the rebuild may append; "
             "shape check of the PUSH rendering expression; copy-then-replace discipline on contract objects")
LEVEL_TEXT = ("Decides that no code can alter a parsed assembly item, that the block rebuild only re-uses original item "
              "objects or the sequences handed to it, that emitted items are constructed in exactly two modules, that "
              "PUSH constants are rendered with hex(int(v))[2:] (canonical when 0 <= v < 2^256, which is C03.b's "
              "obligation), and that contract metadata travels by deep copy with only the code fields replaced. The "
              "positional preservation of every tag/jump (index arithmetic over run-time lists) is not decided.")
EXPLANATION = ("Project-wide enumeration of attribute stores on item fields, of AsmBytecode(...) constructions and of "
               "append/extend calls inside rebuild_optimized_asm_block, each classified by the shape of its argument.")
NOT_DECIDED = ("that every tag/jump is at the same position after a rebuild (index arithmetic in "
               "rebuild_optimized_asm_block over run-time lists); pseudo-push operands occurring in the input block")
ASSUMPTIONS = ["values reaching id_to_asm_bytecode as PUSH constants are ints in [0,2^256) — decided separately by C03.b"]

REBUILD = "solution_generation.optimize_from_sub_blocks.rebuild_optimized_asm_block"
ALLOWED_CTOR_MODULES = {"sfs_generator.parser_asm", "solution_generation.ids2asm"}


def rule_a(ctx, out):
    C15.rule_a(ctx, out)


def rule_b(ctx, out):
    n = C15.check_item_immutability(ctx, out)
    out.ok({"item_fields_checked": n})
    # who may construct items
    sites = 0
    for f in ctx.p.functions.values():
        for c in calls_in(f.node, "AsmBytecode"):
            if not (isinstance(c.func, ast.Name) or isinstance(c.func, ast.Attribute)):
                continue
            sites += 1
            if f.module.name in ALLOWED_CTOR_MODULES:
                out.ok({"constructs_item": f.qual})
            else:
                out.bad(f"item-constructed-in:{f.qual}", f"{f.qual} constructs an assembly item; only the parser and ids2asm may "
                        f"(anything else fabricates code outside the verified path)", where(f, c))
    if sites < 4:
        raise AnalysisError("fewer than 4 AsmBytecode constructions found")
    # the rebuild: what it appends
    f = ctx.func(REBUILD)
    prev_block, sub_list, repl = f.params[0], f.params[1], f.params[2]
    inst_names = {n.targets[0].id for n in own_nodes(f.node) if isinstance(n, ast.Assign) and isinstance(n.targets[0], ast.Name)
                  and norm(n.value) == f"{prev_block}.instructions"}
    out_names = set()
    for n in own_nodes(f.node):
        if isinstance(n, ast.Assign) and isinstance(n.targets[0], ast.Attribute) and n.targets[0].attr == "instructions" and isinstance(n.value, ast.Name):
            out_names.add(n.value.id)
    if not inst_names or not out_names:
        raise AnalysisError("rebuild_optimized_asm_block: instruction list variables not recognised")
    n_app = 0
    for c in calls_in(f.node):
        if isinstance(c.func, ast.Attribute) and isinstance(c.func.value, ast.Name) and c.func.value.id in out_names \
                and c.func.attr in ("append", "extend", "insert"):
            n_app += 1
            a = c.args[-1]
            inner = a.args[0] if isinstance(a, ast.Call) and call_name(a) == "deepcopy" and a.args else a
            if isinstance(inner, ast.Name):
                # a local that only ever holds an element of the original list
                from ..core.flow import single_assignments
                defs = single_assignments(f.node).get(inner.id, [])
                if defs and all(idx is None and isinstance(v, ast.Subscript) and isinstance(v.value, ast.Name) and v.value.id in inst_names
                                and not isinstance(v.slice, ast.Slice) for (_, v, idx) in defs):
                    inner = defs[0][1]
            if c.func.attr == "append" and isinstance(inner, ast.Subscript) and isinstance(inner.value, ast.Name) and inner.value.id in inst_names:
                out.ok({"rebuild": short(c), "appends": "original item (or its deep copy)"})
            elif c.func.attr == "extend" and isinstance(inner, ast.Subscript) and is_name(inner.value, repl):
                out.ok({"rebuild": short(c), "appends": "accepted replacement sequence"})
            elif c.func.attr == "extend" and isinstance(inner, ast.Subscript) and isinstance(inner.slice, ast.Slice) and isinstance(inner.value, ast.Name) \
                    and inner.value.id in inst_names:
                out.ok({"rebuild": short(c), "appends": "a slice of the original items"})
            elif c.func.attr == "extend" and isinstance(inner, (ast.ListComp, ast.GeneratorExp)) and isinstance(inner.elt, ast.Subscript) \
                    and isinstance(inner.elt.value, ast.Name) and inner.elt.value.id in inst_names:
                out.ok({"rebuild": short(c), "appends": "original items"})
            else:
                out.bad(f"rebuild:appends-foreign-object:{short(c, 50)}", "the rebuild appends something that is neither an original item nor an "
                        "accepted replacement sequence", where(f, c))
    if n_app < 4:
        raise AnalysisError("rebuild_optimized_asm_block: fewer than 4 append/extend sites")
    # the result block is a deep copy of the original with only `.instructions` replaced
    rets = [r for r in own_nodes(f.node) if isinstance(r, ast.Return)]
    res_names = {r.value.id for r in rets if isinstance(r.value, ast.Name)}
    for rn in res_names:
        defs = [n for n in own_nodes(f.node) if isinstance(n, ast.Assign) and is_name(n.targets[0], rn)]
        okd = defs and all(isinstance(d.value, ast.Call) and call_name(d.value) == "deepcopy" and d.value.args and is_name(d.value.args[0], prev_block) for d in defs)
        stores = [n for n in own_nodes(f.node) if isinstance(n, ast.Assign) and isinstance(n.targets[0], ast.Attribute) and is_name(n.targets[0].value, rn)]
        only_instr = all(s.targets[0].attr == "instructions" for s in stores)
        if okd and only_instr:
            out.ok({"rebuild_result": "deepcopy(previous_block) with .instructions replaced"})
        else:
            out.bad("rebuild:result-not-a-copy-of-input", "the rebuilt block is not a deep copy of the input block with only its instructions replaced", where(f))
    _rebuild_flags(ctx, out)


def _rebuild_flags(ctx, out):
    REBUILD_ = REBUILD
    # the split-instruction bookkeeping of the rebuild: a flag describing the *previous* sub-block is re-assigned for every sub-block
    from ..core.idioms import stale_loop_flags
    rb = ctx.func(REBUILD_)
    bad = list(stale_loop_flags(ctx, rb))
    for loop, v in bad:
        out.bad(f"rebuild:stale-flag:{v}", f"`{v}` tells the rebuild whether the previous sub-block was replaced (it decides whether the shared split "
                f"instruction is emitted again), but some path through the loop body does not re-assign it: a replacement of an earlier sub-block "
                f"is mistaken for one of the previous sub-block", where(rb, loop))
    if not bad:
        out.ok({"rebuild": "loop-carried flags are re-assigned on every path of each iteration"})




def rule_c(ctx, out):
    f = ctx.func("solution_generation.ids2asm.id_to_asm_bytecode")
    # under disasm in {PUSH, PUSH data, PUSHIMMUTABLE}: value rendered as hex(int(<record value>))[2:]
    found = 0
    for n in own_nodes(f.node):
        if isinstance(n, ast.If):
            lits = {x.value for x in ast.walk(n.test) if isinstance(x, ast.Constant) and isinstance(x.value, str)}
            if "PUSH" in lits:
                found += 1
                rend = None
                for st in n.body:
                    if isinstance(st, ast.Assign) and isinstance(st.targets[0], ast.Name):
                        rend = st
                ok = rend is not None and isinstance(rend.value, ast.Subscript) and isinstance(rend.value.slice, ast.Slice) \
                    and isinstance(rend.value.slice.lower, ast.Constant) and rend.value.slice.lower.value == 2 and rend.value.slice.upper is None \
                    and isinstance(rend.value.value, ast.Call) and call_name(rend.value.value) == "hex" \
                    and isinstance(rend.value.value.args[0], ast.Call) and call_name(rend.value.value.args[0]) == "int"
                if ok:
                    src = norm(rend.value.value.args[0].args[0])
                    out.ok({"render": norm(rend.value), "source": src, "canonical_iff": "0 <= v (no sign, no prefix); < 2^256 by C03.b"})
                    # the rendered local is what is passed as the item's value
                    ctor = [c for st in n.body for c in calls_in(st, "AsmBytecode")]
                    if ctor and all(len(c.args) >= 5 and is_name(c.args[4], rend.targets[0].id) for c in ctor):
                        out.ok({"item_value": "the canonical rendering"})
                    else:
                        out.bad("id_to_asm_bytecode:value-not-the-rendering", "the item is not constructed with the canonical rendering", where(f, n))
                else:
                    out.bad("id_to_asm_bytecode:push-not-rendered-canonically", "a PUSH constant is not rendered as hex(int(v))[2:]", where(f, n))
    if not found:
        raise AnalysisError("id_to_asm_bytecode: PUSH branch not found")
    # the rendered integer is in [0, 2^256): every producer of folded constants stays in the word domain (shared with C03.b)
    from ..core.report import RuleOut
    from . import C03
    tmp = RuleOut("C09.c", "")
    C03.rule_b(ctx, tmp)
    dom = [x for x in tmp.findings if "out-of-domain" in x.key]
    out.instances += tmp.instances
    out.satisfied += tmp.instances - len(dom)
    out.findings.extend(dom)
    # NOP filtered, nothing else dropped
    g = ctx.func("solution_generation.ids2asm.id_seq_to_asm_bytecode")
    comps = [n for n in own_nodes(g.node) if isinstance(n, ast.ListComp)]
    okf = comps and all(len(c.generators[0].ifs) == 1 and "NOP" in norm(c.generators[0].ifs[0]) for c in comps)
    if okf:
        out.ok({"id_seq_to_asm_bytecode": "drops only NOP"})
    else:
        out.bad("id_seq_to_asm_bytecode:filter-changed", "ids are filtered by something else than `!= 'NOP'`", where(g))


def rule_d(ctx, out):
    f = ctx.func("gasol_asm.optimize_asm_contract")
    cparam = f.params[0]
    copies = [n for n in own_nodes(f.node) if isinstance(n, ast.Assign) and isinstance(n.targets[0], ast.Name) and isinstance(n.value, ast.Call)
              and call_name(n.value) == "deepcopy" and n.value.args and is_name(n.value.args[0], cparam)]
    if len(copies) != 1:
        out.bad("optimize_asm_contract:no-deepcopy-of-input", "the output contract does not start as deepcopy(input contract)", where(f))
        return
    nc = copies[0].targets[0].id
    for n in own_nodes(f.node):
        if isinstance(n, ast.Assign):
            for t in n.targets:
                if isinstance(t, ast.Attribute) and is_name(t.value, nc):
                    if t.attr == "init_code":
                        out.ok({"replaced": f"{nc}.init_code"})
                    else:
                        out.bad(f"optimize_asm_contract:metadata-overwritten:{t.attr}", f"{nc}.{t.attr} is assigned: contract metadata is not preserved", where(f, n))
        if isinstance(n, ast.Call) and isinstance(n.func, ast.Attribute) and is_name(n.func.value, nc):
            if n.func.attr in ("set_run_code",):
                out.ok({"replaced": f"{nc}.set_run_code(...)"})
            elif n.func.attr.startswith("set_"):
                out.bad(f"optimize_asm_contract:metadata-overwritten:{n.func.attr}", f"{nc}.{n.func.attr}(...) rewrites contract metadata", where(f, n))
    rets = [r for r in own_nodes(f.node) if isinstance(r, ast.Return)]
    if rets and all(isinstance(r.value, ast.Tuple) and is_name(r.value.elts[0], nc) for r in rets):
        out.ok({"returns": nc})
    else:
        out.bad("optimize_asm_contract:returns-other-object", "the returned contract is not the deep copy with replaced code", where(f))
    # document level
    for q in ("gasol_asm.optimize_asm_in_asm_format", "gasol_asm.optimize_asm_from_log"):
        g = ctx.func(q)
        cps = [n for n in own_nodes(g.node) if isinstance(n, ast.Assign) and isinstance(n.targets[0], ast.Name) and isinstance(n.value, ast.Call)
               and call_name(n.value) == "deepcopy" and n.value.args and isinstance(n.value.args[0], ast.Name)]
        parsed = {n.targets[0].id for n in own_nodes(g.node) if isinstance(n, ast.Assign) and isinstance(n.targets[0], ast.Name)
                  and isinstance(n.value, ast.Call) and call_name(n.value) == "parse_asm"}
        docs = [c for c in cps if c.value.args[0].id in parsed]
        if not docs:
            out.bad(f"{g.name}:document-not-copied", "the output document is not a deep copy of the parsed one", where(g))
            continue
        na = docs[0].targets[0].id
        stores = [t.attr for n in own_nodes(g.node) if isinstance(n, ast.Assign) for t in n.targets if isinstance(t, ast.Attribute) and is_name(t.value, na)]
        if set(stores) <= {"contracts"}:
            out.ok({"function": g.qual, "document": f"deepcopy with only .contracts replaced"})
        else:
            out.bad(f"{g.name}:document-fields-overwritten", f"fields {stores} of the output document are assigned", where(g))
        writes = [c for c in calls_in(g.node, "dumps")]
        okw = any(isinstance(a, ast.Call) and call_name(a) in ("to_json", "to_asm_json") and isinstance(a.func.value, ast.Name) for w in writes for a in w.args)
        if okw:
            out.ok({"function": g.qual, "written": "to_json() of the copy"})
        else:
            out.bad(f"{g.name}:writes-other-object", "the file written is not the serialisation of the output document", where(g))


FRESH_MODULES = ("gasol_asm", "sfs_generator.asm_contract", "sfs_generator.asm_json", "sfs_generator.parser_asm",
                 "solution_generation.optimize_from_sub_blocks", "solution_generation.ids2asm")


def rule_e(ctx, out, modules=FRESH_MODULES):
    """A container that is handed out once per loop iteration (stored under the loop key / passed with the loop key) must be
    created inside that iteration; otherwise fields or blocks of one contract section leak into the next."""
    from ..core.idioms import loop_published_containers
    n = 0
    for f in ctx.p.functions.values():
        if f.module.name not in modules:
            continue
        loops = [x for x in own_nodes(f.node) if isinstance(x, ast.For)]
        n += len(loops)
        hits = list(loop_published_containers(ctx, f))
        seen = set()
        for loop, pub, name, d in hits:
            if (f.qual, name) in seen:
                continue
            seen.add((f.qual, name))
            out.bad(f"per-iteration-container-not-fresh:{f.qual.split('.', 1)[-1]}:{name}", f"`{name}` is created once (`{short(d)}`) outside the loop over "
                    f"`{norm(loop.target)}` but filled and handed out in every iteration (`{short(pub, 60)}`): each section also receives what earlier "
                    f"iterations put in", where(f, pub))
        if loops and not hits:
            out.ok({"function": f.qual, "loops": len(loops)})
    if n < (10 if modules is FRESH_MODULES else 3):
        raise AnalysisError(f"only {n} for-loops scanned in {modules}")


RULES = [
    ("C09.e", "containers handed out per loop iteration are fresh", 5, rule_e),
    ("C09.a", "item field agreement (parser/serialiser)", 25, rule_a),
    ("C09.b", "items immutable; rebuild re-uses originals; who may construct", 9, rule_b),
    ("C09.c", "PUSH constants rendered canonically", 3, rule_c),
    ("C09.d", "contract/document metadata preserved by copy", 6, rule_d),
]
