"""C09 — non-optimizable code and metadata are preserved; emitted items are well formed (scoped claim).

C09.a field agreement between the item parser and serialiser                 (shared with C15.a)
C09.b parsed items are immutable; the rebuild appends original objects and constructs none; who may construct items
C09.c emitted PUSH values are rendered canonically from an integer in [0, 2^256)  (value range: C03.b)
C09.d contract-level fields: the output contract starts from a deep copy and only code fields are replaced
C09.e containers handed out per loop iteration are fresh
"""
import ast

from ..core.flow import call_name, calls_in, is_name, node_calls
from ..core.loader import AnalysisError, short, own_nodes, norm
from ..core.report import where
from . import C15

TECHNIQUE = ("effect rules: who-may-assign item fields, who-may-construct items, what the rebuild may append; "
             "shape check of the PUSH rendering expression; copy-then-replace discipline on contract objects")
LEVEL_TEXT = ('Decides that no code can alter a parsed assembly item, that the block rebuild only re-uses original item '
              'objects or the sequences handed to it, that emitted items are constructed in exactly two modules, that PUSH '
              "constants are rendered with hex(int(v))[2:] (canonical when 0 <= v < 2^256, which is C03.b's obligation), "
              'that contract metadata travels by deep copy with only the code fields replaced, and that every block of a '
              "code section is appended to that section's own list on every path (C09.g). The stitching itself is decided "
              'on a bounded family by abstract evaluation (C09.f: prefix, 1-3 sub-blocks, suffix, every subset replaced): '
              'skeleton kept, original items unchanged, replacement operands are the real operands of the input block.'
              ' Added in seeding rounds 8-9: nested child assemblies in .data survive parse and serialise (C09.h, shared with C15.f) and pseudo-push operands pass through the translation unchanged, 65-bit tags included (C09.i).')
EXPLANATION = ("Project-wide enumeration of attribute stores on item fields, of AsmBytecode(...) constructions and of "
               "append/extend calls inside rebuild_optimized_asm_block, each classified by the shape of its argument.")
NOT_DECIDED = ('positions after a rebuild for blocks outside the family of C09.f (more than three sub-blocks; split '
               'instructions that are substrings of one another, which the rebuild matches with `in`)')
ASSUMPTIONS = ["values reaching id_to_asm_bytecode as PUSH constants are ints in [0,2^256) — decided separately by C03.b"]

REBUILD = "solution_generation.optimize_from_sub_blocks.rebuild_optimized_asm_block"
# the parser, the id -> item translation, and the stitching (which re-creates a replacement item with the real operand of the input
# block; what it emits is decided by evaluation in C09.f)
ALLOWED_CTOR_MODULES = {"sfs_generator.parser_asm", "solution_generation.ids2asm", "solution_generation.optimize_from_sub_blocks"}


def rule_a(ctx, out):
    C15.rule_a(ctx, out)
    C15.rule_b(ctx, out)       # every key of a parsed record reaches the serialised item (round trip by evaluation)


def rule_b(ctx, out):
    n = C15.check_item_immutability(ctx, out)
    out.ok({"item_fields_checked": n})
    # who may construct items
    sites = 0
    for f in ctx.p.functions.values():
        for c in calls_in(f.node, "AsmBytecode"):
            if not (isinstance(c.func, ast.Name) or isinstance(c.func, ast.Attribute)):
                continue
            sites += 1
            if f.module.name in ALLOWED_CTOR_MODULES:
                out.ok({"constructs_item": f.qual})
            else:
                out.bad(f"item-constructed-in:{f.qual}", f"{f.qual} constructs an assembly item; only the parser, ids2asm and the stitching may "
                        f"(anything else fabricates code outside the verified path)", where(f, c))
    if sites < 4:
        raise AnalysisError("fewer than 4 AsmBytecode constructions found")
    # (what the rebuild puts into the stitched block is decided by evaluation: C09.f)
    f = ctx.func(REBUILD)
    prev_block = f.params[0]
    # the result block is a deep copy of the original with only `.instructions` replaced
    rets = [r for r in own_nodes(f.node) if isinstance(r, ast.Return)]
    res_names = {r.value.id for r in rets if isinstance(r.value, ast.Name)}
    for rn in res_names:
        defs = [n for n in own_nodes(f.node) if isinstance(n, ast.Assign) and is_name(n.targets[0], rn)]
        okd = defs and all(isinstance(d.value, ast.Call) and call_name(d.value) == "deepcopy" and d.value.args and is_name(d.value.args[0], prev_block) for d in defs)
        stores = [n for n in own_nodes(f.node) if isinstance(n, ast.Assign) and isinstance(n.targets[0], ast.Attribute) and is_name(n.targets[0].value, rn)]
        only_instr = all(s.targets[0].attr == "instructions" for s in stores)
        if okd and only_instr:
            out.ok({"rebuild_result": "deepcopy(previous_block) with .instructions replaced"})
        else:
            out.bad("rebuild:result-not-a-copy-of-input", "the rebuilt block is not a deep copy of the input block with only its instructions replaced", where(f))
    _rebuild_flags(ctx, out)


def _rebuild_flags(ctx, out):
    REBUILD_ = REBUILD
    # the split-instruction bookkeeping of the rebuild: a flag describing the *previous* sub-block is re-assigned for every sub-block
    from ..core.idioms import stale_loop_flags
    rb = ctx.func(REBUILD_)
    bad = list(stale_loop_flags(ctx, rb))
    for loop, v in bad:
        out.bad(f"rebuild:stale-flag:{v}", f"`{v}` tells the rebuild whether the previous sub-block was replaced (it decides whether the shared split "
                f"instruction is emitted again), but some path through the loop body does not re-assign it: a replacement of an earlier sub-block "
                f"is mistaken for one of the previous sub-block", where(rb, loop))
    if not bad:
        out.ok({"rebuild": "loop-carried flags are re-assigned on every path of each iteration"})




def rule_c(ctx, out):
    """Constants are rendered canonically.  id_to_asm_bytecode / asm_from_ids are interpreted on specification records of every kind of
    valued push: a PUSH / PUSH data / PUSHIMMUTABLE record with the integer v gives the operand format(v, 'x') (lower-case hex, no
    prefix, no leading zeros, "0" for zero) for v in {0, 1, 255, 256, 2^160-1, 2^256-1}; a PUSH0 record gives PUSH "0"; the other kinds
    keep str(v); an id that names no record is the instruction itself; NOP ids are dropped and nothing else is."""
    from ..core.interp import ModuleInterp
    from ..core.minieval import Unsupported, Raised
    cls = ctx.p.cls("sfs_generator.asm_bytecode.AsmBytecode")
    afi = ctx.func("solution_generation.ids2asm.asm_from_ids")
    mi = ModuleInterp(ctx, max_steps=100000)
    Item = mi.fake_class(cls)
    mi.extern["AsmBytecode"] = mi.constructor(cls, lambda: Item())

    def built(records, ids):
        try:
            return mi.call(afi, {"user_instrs": records}, ids)
        except Raised as e:
            return ("raises", e.what)
        except Unsupported as e:
            raise AnalysisError(f"asm_from_ids cannot be evaluated abstractly: {e}")
    for kind in ("PUSH", "PUSH data", "PUSHIMMUTABLE"):
        for v in (0, 1, 255, 256, 2 ** 160 - 1, 2 ** 256 - 1):
            got = built([{"id": "P_0", "disasm": kind, "value": [v]}], ["P_0"])
            want = format(v, "x")
            if isinstance(got, list) and len(got) == 1 and got[0].disasm == kind and got[0].value == want:
                out.ok({"record": f"{kind} {v}", "operand": want})
            else:
                shown = got if isinstance(got, tuple) else [(g.disasm, g.value) for g in got]
                out.bad(f"id_to_asm_bytecode:push-not-rendered-canonically:{kind.replace(' ', '')}", f"a {kind} record with the value {v} is emitted as {shown}; the canonical "
                        f"operand is {want!r}", where(afi))
    got = built([{"id": "PUSH0_0", "disasm": "PUSH0", "value": [0]}], ["PUSH0_0"])
    if isinstance(got, list) and len(got) == 1 and (got[0].disasm, got[0].value) == ("PUSH", "0"):
        out.ok({"record": "PUSH0", "item": "PUSH 0 (spelt by the serialiser according to the flag)"})
    else:
        out.bad("id_to_asm_bytecode:push0-record", f"a PUSH0 record is emitted as {got if isinstance(got, tuple) else [(g.disasm, g.value) for g in got]}", where(afi))
    for kind, v in (("PUSH [tag]", 7), ("PUSHLIB", 1), ("PUSH #[$]", 0), ("PUSH [$]", 2)):
        got = built([{"id": "Q_0", "disasm": kind, "value": [v]}], ["Q_0"])
        if isinstance(got, list) and len(got) == 1 and (got[0].disasm, got[0].value) == (kind, str(v)):
            out.ok({"record": f"{kind} {v}", "operand": str(v)})
        else:
            out.bad(f"id_to_asm_bytecode:operand-changed:{kind.replace(' ', '')}", f"a {kind} record with the internal value {v} is emitted as "
                    f"{got if isinstance(got, tuple) else [(g.disasm, g.value) for g in got]}; the rebuild looks the real operand up under {str(v)!r}", where(afi))
    got = built([{"id": "ADD_0", "disasm": "ADD"}], ["SWAP1", "NOP", "ADD_0", "NOP", "DUP2", "POP"])
    names = got if isinstance(got, tuple) else [g.disasm for g in got]
    if names == ["SWAP1", "ADD", "DUP2", "POP"]:
        out.ok({"id_seq_to_asm_bytecode": "drops only NOP"})
    else:
        out.bad("id_seq_to_asm_bytecode:filter-changed", f"the id sequence SWAP1 NOP ADD_0 NOP DUP2 POP is emitted as {names}", where(afi))
    # the rendered integer is in [0, 2^256): every producer of folded constants stays in the word domain (shared with C03.b)
    from ..core.report import RuleOut
    from . import C03
    tmp = RuleOut("C09.c", "")
    C03.rule_b(ctx, tmp)
    dom = [x for x in tmp.findings if "out-of-domain" in x.key]
    out.instances += tmp.instances
    out.satisfied += tmp.instances - len(dom)
    out.findings.extend(dom)


def rule_d(ctx, out):
    f = ctx.func("gasol_asm.optimize_asm_contract")
    cparam = f.params[0]
    copies = [n for n in own_nodes(f.node) if isinstance(n, ast.Assign) and isinstance(n.targets[0], ast.Name) and isinstance(n.value, ast.Call)
              and call_name(n.value) == "deepcopy" and n.value.args and is_name(n.value.args[0], cparam)]
    if len(copies) != 1:
        out.bad("optimize_asm_contract:no-deepcopy-of-input", "the output contract does not start as deepcopy(input contract)", where(f))
        return
    nc = copies[0].targets[0].id
    for n in own_nodes(f.node):
        if isinstance(n, ast.Assign):
            for t in n.targets:
                if isinstance(t, ast.Attribute) and is_name(t.value, nc):
                    if t.attr == "init_code":
                        out.ok({"replaced": f"{nc}.init_code"})
                    else:
                        out.bad(f"optimize_asm_contract:metadata-overwritten:{t.attr}", f"{nc}.{t.attr} is assigned: contract metadata is not preserved", where(f, n))
        if isinstance(n, ast.Call) and isinstance(n.func, ast.Attribute) and is_name(n.func.value, nc):
            if n.func.attr in ("set_run_code",):
                out.ok({"replaced": f"{nc}.set_run_code(...)"})
            elif n.func.attr.startswith("set_"):
                out.bad(f"optimize_asm_contract:metadata-overwritten:{n.func.attr}", f"{nc}.{n.func.attr}(...) rewrites contract metadata", where(f, n))
    rets = [r for r in own_nodes(f.node) if isinstance(r, ast.Return)]
    if rets and all(isinstance(r.value, ast.Tuple) and is_name(r.value.elts[0], nc) for r in rets):
        out.ok({"returns": nc})
    else:
        out.bad("optimize_asm_contract:returns-other-object", "the returned contract is not the deep copy with replaced code", where(f))
    # document level
    for q in ("gasol_asm.optimize_asm_in_asm_format", "gasol_asm.optimize_asm_from_log"):
        g = ctx.func(q)
        cps = [n for n in own_nodes(g.node) if isinstance(n, ast.Assign) and isinstance(n.targets[0], ast.Name) and isinstance(n.value, ast.Call)
               and call_name(n.value) == "deepcopy" and n.value.args and isinstance(n.value.args[0], ast.Name)]
        parsed = {n.targets[0].id for n in own_nodes(g.node) if isinstance(n, ast.Assign) and isinstance(n.targets[0], ast.Name)
                  and isinstance(n.value, ast.Call) and call_name(n.value) == "parse_asm"}
        docs = [c for c in cps if c.value.args[0].id in parsed]
        if not docs:
            out.bad(f"{g.name}:document-not-copied", "the output document is not a deep copy of the parsed one", where(g))
            continue
        na = docs[0].targets[0].id
        stores = [t.attr for n in own_nodes(g.node) if isinstance(n, ast.Assign) for t in n.targets if isinstance(t, ast.Attribute) and is_name(t.value, na)]
        if set(stores) <= {"contracts"}:
            out.ok({"function": g.qual, "document": f"deepcopy with only .contracts replaced"})
        else:
            out.bad(f"{g.name}:document-fields-overwritten", f"fields {stores} of the output document are assigned", where(g))
        writes = [c for c in calls_in(g.node, "dumps")]
        from ..core.flow import single_assignments
        sa_ = single_assignments(g.node)

        def values_of(a):
            """what is handed to dumps: the expression itself, or every value its local can hold"""
            if isinstance(a, ast.Name) and sa_.get(a.id):
                return [v for (_, v, idx) in sa_[a.id] if idx is None]
            return [a]
        okw = any(vs and all(isinstance(v, ast.Call) and call_name(v) in ("to_json", "to_asm_json") and isinstance(v.func, ast.Attribute)
                             and isinstance(v.func.value, ast.Name) for v in vs)
                  for w in writes for a in w.args for vs in [values_of(a)])
        if okw:
            out.ok({"function": g.qual, "written": "to_json() of the copy"})
        else:
            out.bad(f"{g.name}:writes-other-object", "the file written is not the serialisation of the output document", where(g))


FRESH_MODULES = ("gasol_asm", "sfs_generator.asm_contract", "sfs_generator.asm_json", "sfs_generator.parser_asm",
                 "solution_generation.optimize_from_sub_blocks", "solution_generation.ids2asm")


def rule_e(ctx, out, modules=FRESH_MODULES):
    """A container that is handed out once per loop iteration (stored under the loop key / passed with the loop key) must be
    created inside that iteration; otherwise fields or blocks of one contract section leak into the next."""
    from ..core.idioms import loop_published_containers
    n = 0
    for f in ctx.p.functions.values():
        if f.module.name not in modules:
            continue
        loops = [x for x in own_nodes(f.node) if isinstance(x, ast.For)]
        n += len(loops)
        hits = list(loop_published_containers(ctx, f))
        seen = set()
        for loop, pub, name, d in hits:
            if (f.qual, name) in seen:
                continue
            seen.add((f.qual, name))
            out.bad(f"per-iteration-container-not-fresh:{f.qual.split('.', 1)[-1]}:{name}", f"`{name}` is created once (`{short(d)}`) outside the loop over "
                    f"`{norm(loop.target)}` but filled and handed out in every iteration (`{short(pub, 60)}`): each section also receives what earlier "
                    f"iterations put in", where(f, pub))
        if loops and not hits:
            out.ok({"function": f.qual, "loops": len(loops)})
    if n < (10 if modules is FRESH_MODULES else 3):
        raise AnalysisError(f"only {n} for-loops scanned in {modules}")


def rule_f(ctx, out):
    """The stitching of a block, decided by abstract evaluation (own interpreter; nothing is imported) on a bounded family of blocks:
    optional tag/JUMPDEST prefix, 1..3 sub-blocks separated by split instructions, optional terminal jump, every subset of the
    sub-blocks replaced.  Items are built by the repository's own parser (build_asm_bytecode), replacements by its own asm_from_ids,
    the block is stitched by rebuild_optimized_asm_block and every item serialised by AsmBytecode.to_json.  The emitted stream must be
        prefix, then per sub-block (replacement | original items), the split instructions, suffix
    with original items unchanged in every field, and the operand of every replacement item equal to the *real* operand the input
    block has for that internal value (a PUSHLIB reference is numbered while the block is parsed; what is serialised must be the
    library name again)."""
    import copy
    from ..core.interp import ModuleInterp
    from ..core.minieval import Unsupported, Raised
    cls = ctx.p.cls("sfs_generator.asm_bytecode.AsmBytecode")
    rb = ctx.func(REBUILD)
    bb = ctx.func("sfs_generator.parser_asm.build_asm_bytecode")
    afi = ctx.func("solution_generation.ids2asm.asm_from_ids")

    class Blk:
        def __init__(self, name, instrs):
            self.block_name, self.instructions = name, instrs
    mi = ModuleInterp(ctx, max_steps=400000, extern={"deepcopy": copy.deepcopy}, obj_types=(Blk,))
    Item = mi.fake_class(cls)
    mi.extern["AsmBytecode"] = mi.constructor(cls, lambda: Item())
    mi.module_env("global_params.constants")["push0_enabled"] = False

    def rec(name, value=None, **kw):
        r = {"begin": 10, "end": 20, "name": name, "source": 1}
        if value is not None:
            r["value"] = value
        r.update(kw)
        return r
    LIBS = ["contracts/A.sol:LibA", "contracts/B.sol:LibB", "contracts/C.sol:LibC"]
    # sub-blocks as assembly records (what the input file holds) and, for each, a replacement as (specification records, id sequence);
    # in `spec` a PUSHLIB value [j] stands for "the number this block's parse gave to LIBS[j]" (filled in below), `want` is the
    # (name, operand) stream the replacement must serialise to
    SUBS = [
        dict(orig=[rec("PUSHLIB", LIBS[1]), rec("PUSH", "1"), rec("ADD"), rec("PUSHLIB", LIBS[0])],
             spec=[{"id": "PUSHLIB_0", "disasm": "PUSHLIB", "value": [1]}, {"id": "PUSHLIB_1", "disasm": "PUSHLIB", "value": [0]},
                   {"id": "PUSH_0", "disasm": "PUSH", "value": [255]}],
             ids=["PUSHLIB_0", "NOP", "PUSH_0", "PUSHLIB_1", "SWAP1"],
             want=[("PUSHLIB", LIBS[1]), ("PUSH", "ff"), ("PUSHLIB", LIBS[0]), ("SWAP1", None)]),
        dict(orig=[rec("PUSH", "2"), rec("PUSHLIB", LIBS[2]), rec("PUSHLIB", LIBS[1]), rec("POP")],
             spec=[{"id": "PUSHLIB_2", "disasm": "PUSHLIB", "value": [2]}, {"id": "PUSH_1", "disasm": "PUSH", "value": [0]},
                   {"id": "PUSHTAG_0", "disasm": "PUSH [tag]", "value": [7]}],
             ids=["PUSHLIB_2", "PUSH_1", "PUSHTAG_0"],
             want=[("PUSHLIB", LIBS[2]), ("PUSH", "0"), ("PUSH [tag]", "7")]),
        dict(orig=[rec("DUP1"), rec("PUSHLIB", LIBS[0]), rec("PUSH data", "a1")],
             spec=[{"id": "PUSHLIB_3", "disasm": "PUSHLIB", "value": [0]}, {"id": "PUSHDATA_0", "disasm": "PUSH data", "value": [161]}],
             ids=["PUSHDATA_0", "PUSHLIB_3"],
             want=[("PUSH data", "a1"), ("PUSHLIB", LIBS[0])]),
    ]
    # the second family uses a split instruction that carries an operand: the front-end names it by its mnemonic alone in the sub-block
    # list (witnessed: ['PUSH 1', 'ASSIGNIMMUTABLE'] for `PUSH 1 ASSIGNIMMUTABLE ab12`), the item's own text has the operand
    SPLIT_SETS = [[rec("SSTORE"), rec("LOG1")], [rec("ASSIGNIMMUTABLE", "ab12"), rec("SSTORE")]]
    PREFIX = [rec("tag", "5"), rec("JUMPDEST")]
    SUFFIX = [rec("PUSH [tag]", "9"), rec("JUMP", None, jumpType="[in]")]

    def run(fn, *a):
        try:
            return mi.call(fn, *a)
        except Raised as e:
            return ("raises", e.what)
        except Unsupported as e:
            raise AnalysisError(f"{fn.name} cannot be evaluated abstractly: {e}")
    n = 0
    for SPLITS, k in [(SPLIT_SETS[0], 1), (SPLIT_SETS[0], 2), (SPLIT_SETS[0], 3), (SPLIT_SETS[1], 2), (SPLIT_SETS[1], 3)]:
        for mask in range(2 ** k):
            for with_prefix in (False, True):
                for with_suffix in (False, True):
                    # the library numbering of a block is the parser's: first occurrence first; LIBS is arranged so that the order of first
                    # occurrence in every family member is LibB(0), LibA(1), LibC(2)... computed here from the records themselves
                    table = {}
                    records = (PREFIX if with_prefix else [])
                    bounds = []
                    for i in range(k):
                        start = len(records)
                        records = records + SUBS[i]["orig"]
                        bounds.append((start, len(records)))
                        if i < k - 1:
                            records = records + [SPLITS[i]]
                    records = records + (SUFFIX if with_suffix else [])
                    items = [run(bb, dict(r), table) for r in records]
                    if any(isinstance(x, tuple) for x in items):
                        raise AnalysisError(f"build_asm_bytecode raises on a record of the family: {[x for x in items if isinstance(x, tuple)][0]}")
                    plain = [run(cls.methods["to_plain"], it) if not (r_.get("name") == "ASSIGNIMMUTABLE") else "ASSIGNIMMUTABLE" for it, r_ in zip(items, records)]
                    number = dict(table)          # real value -> internal value, as the parser numbered this block
                    sub_list, repl, expected = [], {}, [("orig", j) for j in range(bounds[0][0])]
                    for i in range(k):
                        lo, hi = bounds[i]
                        names = plain[lo:hi] + ([plain[hi]] if i < k - 1 else [])
                        sub_list.append(([plain[lo - 1]] if i > 0 else []) + names)
                        if mask >> i & 1:
                            # the specification of the sub-block refers to a library by the number the parser gave it in this block
                            spec = [dict(r, value=[number[LIBS[r["value"][0]]]]) if r["disasm"] == "PUSHLIB" else dict(r) for r in SUBS[i]["spec"]]
                            seq = run(afi, {"user_instrs": spec}, list(SUBS[i]["ids"]))
                            if isinstance(seq, tuple):
                                out.bad(f"ids-to-items-raises:{seq[1]}", f"asm_from_ids raises {seq[1]} on the id sequence {SUBS[i]['ids']}", where(afi))
                                return
                            repl[f"blk_{i}"] = seq
                            expected += [("new", w) for w in SUBS[i]["want"]]
                        else:
                            repl[f"blk_{i}"] = None
                            expected += [("orig", j) for j in range(lo, hi)]
                        if i < k - 1:
                            expected.append(("orig", hi))
                    expected += [("orig", j) for j in range(bounds[-1][1], len(items))]
                    res = run(rb, Blk("blk", list(items)), sub_list, repl)
                    n += 1
                    label = f"{k} sub-block(s), replaced {[i for i in range(k) if mask >> i & 1]}, prefix {with_prefix}, suffix {with_suffix}"
                    if isinstance(res, tuple):
                        out.bad(f"rebuild-raises:{res[1]}", f"rebuild_optimized_asm_block raises {res[1]} on a well-formed block ({label})", where(rb))
                        continue
                    foreign = [x for x in res.instructions if not isinstance(x, Item)]
                    if foreign:
                        out.bad("rebuild:appends-foreign-object", f"the stitched block contains {foreign[0]!r}, which is not an assembly item ({label})", where(rb))
                        continue
                    got = [run(cls.methods["to_json"], it) for it in res.instructions]
                    want = []
                    for kind, w in expected:
                        if kind == "orig":
                            want.append(records[w])
                        else:
                            want.append({"name": w[0], **({"value": w[1]} if w[1] is not None else {})})
                    ok = len(got) == len(want)
                    detail = None
                    if ok:
                        for g, w, (kind, _) in zip(got, want, expected):
                            gg = g if kind == "orig" else {x: y for x, y in g.items() if x in ("name", "value")}
                            if gg != w:
                                ok, detail = False, (g, w, kind)
                                break
                    if ok:
                        out.ok({"family_member": label, "emitted_items": len(got)})
                    elif detail is None:
                        out.bad("rebuild:stream-length", f"the stitched block has {len(got)} items where {len(want)} are due ({label}): "
                                f"{[g.get('name') for g in got]} instead of {[w.get('name') for w in want]}", where(rb))
                    else:
                        g, w, kind = detail
                        what = "pseudo-push-operand-not-the-real-value" if kind == "new" and g.get("name") == w.get("name") and g.get("name") not in ("PUSH",) \
                            else "replacement-item" if kind == "new" else "original-item-changed"
                        out.bad(f"rebuild:{what}:{w.get('name')}", f"the stitched block emits {g!r} where {w!r} is due ({label})", where(rb))
    # a block that *starts* with an operand-carrying split instruction: the first sub-block holds that instruction only
    for replaced in (False, True):
        for with_prefix in (False, True):
            table = {}
            records = (PREFIX if with_prefix else []) + [SPLIT_SETS[1][0]] + SUBS[0]["orig"]
            items = [run(bb, dict(r), table) for r in records]
            p0 = len(PREFIX) if with_prefix else 0
            plain = ["ASSIGNIMMUTABLE" if r_.get("name") == "ASSIGNIMMUTABLE" else run(cls.methods["to_plain"], it) for it, r_ in zip(items, records)]
            sub_list = [[plain[p0]], plain[p0:]]
            number = dict(table)
            spec = [dict(r, value=[number[LIBS[r["value"][0]]]]) if r["disasm"] == "PUSHLIB" else dict(r) for r in SUBS[0]["spec"]]
            repl = {"blk_1": run(afi, {"user_instrs": spec}, list(SUBS[0]["ids"])) if replaced else None}
            res = run(rb, Blk("blk", list(items)), sub_list, repl)
            n += 1
            label = f"block starting with ASSIGNIMMUTABLE, {'replaced' if replaced else 'nothing replaced'}, prefix {with_prefix}"
            if isinstance(res, tuple):
                out.bad(f"rebuild-raises:{res[1]}", f"rebuild_optimized_asm_block raises {res[1]} on a well-formed block ({label})", where(rb))
                continue
            got = [run(cls.methods["to_json"], it) for it in res.instructions if isinstance(it, Item)]
            want = [dict(r) for r in records[:p0 + 1]] + ([{"name": w[0], **({"value": w[1]} if w[1] is not None else {})} for w in SUBS[0]["want"]] if replaced
                                                          else [dict(r) for r in records[p0 + 1:]])
            same = len(got) == len(want) and all((g if "begin" in w else {k_: v_ for k_, v_ in g.items() if k_ in ("name", "value")}) == w for g, w in zip(got, want))
            if same:
                out.ok({"family_member": label, "emitted_items": len(got)})
            else:
                out.bad("rebuild:stream-length" if len(got) != len(want) else "rebuild:original-item-changed:ASSIGNIMMUTABLE", f"the stitched block is "
                        f"{[g.get('name') for g in got]} where {[w.get('name') for w in want]} is due ({label})", where(rb))
    if n < 90:
        raise AnalysisError(f"only {n} members of the block family evaluated")


def rule_g(ctx, out):
    """Every block of a code section goes into that section's own output list, exactly there.  The drivers assemble a section with
        L = []; for block in <section>: ... L.append(<block or its replacement>) ...; <owner>.<section> = L / set_run_code(id, L)
    For every such loop of gasol_asm: (1) on every path through one iteration that does not raise, something is appended to L (a block
    that is skipped disappears from the output together with its tag/JUMPDEST/jump), and (2) nothing is appended to the list of
    another section (a block that lands in the wrong section is lost in one stream and foreign in the other)."""
    n = 0
    for f in ctx.p.funcs_in("gasol_asm"):
        fresh = {t.id for a in own_nodes(f.node) if isinstance(a, ast.Assign) and isinstance(a.value, ast.List) and not a.value.elts for t in a.targets if isinstance(t, ast.Name)}
        loops = []
        for loop in [x for x in own_nodes(f.node) if isinstance(x, ast.For)]:
            appended = {c.func.value.id for st in loop.body for c in calls_in(st) if isinstance(c.func, ast.Attribute) and c.func.attr == "append"
                        and isinstance(c.func.value, ast.Name) and c.func.value.id in fresh}
            if not appended:
                continue
            # the loop's own list: the appended list that is handed on right after the loop (setter argument / attribute assignment)
            par = getattr(loop, "_parent", None)
            sibs = next((v for _, v in ast.iter_fields(par) if isinstance(v, list) and loop in v), []) if par is not None else []
            after = sibs[sibs.index(loop) + 1:] if loop in sibs else []
            own = None
            for st in after:
                used = [x.id for x in ast.walk(st) if isinstance(x, ast.Name) and isinstance(x.ctx, ast.Load) and x.id in appended]
                publishes = (isinstance(st, ast.Assign) and any(isinstance(t, ast.Attribute) for t in st.targets)) or \
                    (isinstance(st, ast.Expr) and isinstance(st.value, ast.Call) and isinstance(st.value.func, ast.Attribute) and st.value.func.attr.startswith("set_"))
                if used and publishes:
                    own = used[0]
                    break
            if own is not None:
                loops.append((loop, own))
        if not loops:
            continue
        cfg = ctx.cfg(f)
        owned = {own for _, own in loops}
        for loop, own in loops:
            n += 1
            head = next((x for x in cfg.nodes if x.kind == "iter" and x.owner is loop), None)
            if head is None:
                raise AnalysisError(f"{f.name}: loop head not found in the flow graph")
            inner = {id(x) for st in loop.body for x in ast.walk(st)}
            apps_own = {x.id for x in cfg.nodes if x.kind == "stmt" and id(x.ast) in inner and any(
                isinstance(c.func, ast.Attribute) and c.func.attr == "append" and is_name(c.func.value, own) for c in node_calls(x))}
            foreign = [(x, c) for x in cfg.nodes if x.kind == "stmt" and id(x.ast) in inner for c in node_calls(x)
                       if isinstance(c.func, ast.Attribute) and c.func.attr in ("append", "extend", "insert") and isinstance(c.func.value, ast.Name)
                       and c.func.value.id in owned - {own}]
            # nested loops of the same function own other lists: an inner loop's appends belong to the inner loop
            inner_loops_own = {o for l2, o in loops if l2 is not loop and id(l2) in inner}
            foreign = [(x, c) for x, c in foreign if c.func.value.id not in inner_loops_own]
            ok = True
            if cfg.paths_avoiding(head, head, apps_own, src_labels={"T"}, skip_exc=True):
                ok = False
                out.bad(f"section-block-dropped:{f.name}:{own}", f"{f.name}: an iteration of `for {norm(loop.target)} in {short(loop.iter, 40)}` can end without appending "
                        f"to `{own}`, the list that becomes this section's code: the block vanishes from the output", where(f, loop))
            for x, c in foreign:
                ok = False
                out.bad(f"section-block-into-other-section:{f.name}:{own}->{c.func.value.id}", f"{f.name}: inside the loop that fills `{own}` a block is appended to "
                        f"`{c.func.value.id}`, the list of another section", where(f, c))
            if ok:
                out.ok({"function": f.qual, "section_list": own, "loop": f"for {norm(loop.target)} in {short(loop.iter, 40)}"})
    if n < 4:
        raise AnalysisError(f"only {n} section-assembling loops found in gasol_asm")


def rule_h(ctx, out):
    """Contracts, auxiliary data, data sections (string entries and nested child assemblies) and source lists come out as they went in:
    the parse -> serialise round trip of C15.f on the document family, claimed here for the metadata sentence of C09 (the code of an
    unselected or unoptimized contract is emitted through exactly this path)."""
    from . import C15
    C15.rule_f(ctx, out)


def rule_i(ctx, out):
    """Pseudo-push operands go through the translation untouched.  The front-end names a PUSH [tag] / PUSH #[$] / PUSH [$] / PUSH data /
    PUSHIMMUTABLE / PUSHLIB by its operand (`pushtag(<n>)` ...), and the rebuilt block gets its operand back from that name: an operand
    that is cut, masked or re-based on the way (a sub-assembly tag is (sub_id+1)*2^64 + tag) comes back as another item.
    translateYulOpcodes is interpreted on small and on 65-bit operands: the number in the emitted term is the operand."""
    import re as _re
    from ..core.interp import ModuleInterp
    from ..core.minieval import Unsupported, Raised
    f = ctx.func("sfs_generator.ir_block.translateYulOpcodes")
    mi = ModuleInterp(ctx, max_steps=20000, extern={"get_new_variable": lambda idx: (f"s({idx + 1})", idx + 1), "get_consume_variable": lambda idx: (f"s({idx})", idx - 1)})
    n = 0
    for op in ("PUSH [tag]", "PUSH #[$]", "PUSH [$]", "PUSH data", "PUSHIMMUTABLE", "PUSHLIB"):
        for v in ("1", "12", "18446744073709551617", "36893488147419103233"):
            try:
                got = mi.call(f, op, v, 3)
            except (Raised, Unsupported) as e:
                raise AnalysisError(f"translateYulOpcodes cannot be evaluated on {op} {v}: {e}")
            text = got[0] if isinstance(got, tuple) else got
            nums = _re.findall(r"\((\d+)\)", str(text).split("=", 1)[-1])
            m = nums[-1] if nums else None
            n += 1
            ok = m is not None and int(m) in (int(v, 16), int(v))
            if ok:
                out.ok({"item": f"{op} {v}", "term": str(text)})
            else:
                out.bad(f"pseudo-push-operand-changed-by-translation:{op.replace(' ', '')}", f"translateYulOpcodes turns `{op} {v}` into `{text}`: the operand in the term "
                        f"is not the item's operand, and the rebuilt block carries the term's", where(f))
    if n < 24:
        raise AnalysisError(f"only {n} pseudo pushes evaluated")


RULES = [
    ("C09.i", "pseudo-push operands pass through the translation unchanged (65-bit tags included)", 24, rule_i),
    ("C09.h", "auxiliary data, data sections (nested assemblies included) and source lists survive parse and serialise (shared with C15.f)", 32, rule_h),
    ("C09.e", "containers handed out per loop iteration are fresh", 5, rule_e),
    ("C09.a", "item field agreement (parser/serialiser)", 25, rule_a),
    ("C09.b", "items immutable; rebuild re-uses originals; who may construct", 9, rule_b),
    ("C09.c", "PUSH constants rendered canonically", 3, rule_c),
    ("C09.d", "contract/document metadata preserved by copy", 6, rule_d),
    ("C09.g", "every block of a section goes into that section's own list", 4, rule_g),
    ("C09.f", "stitching of replaced sub-blocks on a bounded block family (by evaluation): skeleton kept, real operands restored", 90, rule_f),
]
