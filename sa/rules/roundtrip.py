"""E1 — abstract evaluation of the three string dispatch chains over the whole opcode vocabulary.

For every opcode the rbr compiler knows, the chain
    compile_instr (ir_block.translateOpcodes*)  ->  rbr line  ->  get_involved_vars  ->  funct_to_opcode (+ suffix rule)
is evaluated by interpreting the functions' ASTs (sa/core/interp.py) on representative stack variables.  Nothing of the
repository is imported.  Representative independence is checked by evaluating every opcode at two stack heights
(and therefore two values of every internal counter) and comparing the results after renaming.
"""
import ast
import re

from ..core.interp import ModuleInterp
from ..core.loader import AnalysisError
from ..core.minieval import Unsupported, Raised
from ..specs.evm import STACK_ARITY, COMMUTATIVE

IR = "sfs_generator.ir_block"
GO = "sfs_generator.gasol_optimization"

# opcodes of the vocabulary that intentionally have no functor, with the reason
NO_FUNCTOR = {
    "PC": "outside the optimizable vocabulary of C01; get_involved_vars has no branch, spec generation raises and the block is kept",
    "MCOPY": "translateOpcodes30 raises NotImplementedError: block kept unchanged (contained, C10)",
    "SHA3": "legacy spelling of KECCAK256: its text 'sha3+N' would map back to ADD, but specification generation raises for every "
            "block containing it (compute_identifiers_storage_instructions: witnessed), so the block is always kept unchanged",
}
STACK_OPS = ("PUSH", "PUSH0", "DUP", "SWAP", "POP")


class FakeRule:
    def __init__(self):
        self.ins = []

    def add_instr(self, x):
        self.ins.append(x)


def _rename(obj, k):
    """Replace s(k-i) by <i> so that two evaluations at different heights can be compared."""
    if isinstance(obj, str):
        return re.sub(r"s\((\d+)\)", lambda m: f"<{k - int(m.group(1))}>", re.sub(r"(?<=[a-z+_])\d+(?=\(|$)", "#", obj))
    if isinstance(obj, (list, tuple)):
        return [_rename(x, k) for x in obj]
    return obj


def table(ctx):
    """Returns dict opcode -> row. Cached per context."""
    if "roundtrip" in ctx.cache:
        return ctx.cache["roundtrip"]
    mi = ModuleInterp(ctx, obj_types=(FakeRule,), extern={"fullmatch": lambda p, s: re.fullmatch(p, s)})
    try:
        mi.call(ctx.global_initialiser(IR, 10))
    except (Unsupported, Raised) as e:
        raise AnalysisError(f"cannot evaluate ir_block.init_globals abstractly: {e}")
    env = mi.module_env(IR)
    lists = [k for k in env if re.fullmatch(r"opcodes[0-9A-Za-z]+", k) and isinstance(env[k], list)]
    if len(lists) < 10:
        raise AnalysisError(f"only {len(lists)} opcode lists found in ir_block.init_globals")
    voc = []
    for k in sorted(lists):
        for o in env[k]:
            if k in ("opcodes60",):
                voc += [("PUSH", "PUSH 5"), ("PUSH0", "PUSH0")]
            elif k == "opcodes80":
                voc.append(("DUP", "DUP3"))
            elif k == "opcodes90":
                voc.append(("SWAP", "SWAP2"))
            elif k == "opcodesYul":
                voc.append((o, o if o in ("PUSHDEPLOYADDRESS", "PUSHSIZE") else o + " 7"))
            else:
                voc.append((o, o))
    ci = ctx.func(f"{IR}.compile_instr")
    giv = ctx.func(f"{GO}.get_involved_vars")
    f2o = ctx.func(f"{GO}.funct_to_opcode")
    mi.module_env(GO)["split_sto"] = False
    cenv = mi.module_env("global_params.constants")
    rows = {}
    for name, text in voc:
        per_height = []
        for K in (12, 27):
            row = {"opcode": name, "text": text}
            r = FakeRule()
            try:
                idx = mi.call(ci, r, text, K, [], True)
            except Raised as e:
                row["raises"] = e.what
                per_height.append(row)
                continue
            except Unsupported as e:
                raise AnalysisError(f"cannot evaluate compile_instr({text!r}) abstractly: {e}")
            row["delta"] = idx - K
            lines = [l for l in r.ins if isinstance(l, str) and not l.startswith("nop(")]
            row["lines"] = _rename(lines, K)
            row["nop"] = [l for l in r.ins if isinstance(l, str) and l.startswith("nop(")]
            first = lines[0] if lines else ""
            if "=" in first and len(lines) == 1 and not first.startswith("Error"):
                lhs, rhs = first.split("=", 1)
                try:
                    vs, fu = mi.call(giv, rhs.strip(), lhs)
                    row["vars"] = _rename(list(vs), K)
                    row["funct"] = re.sub(r"\d+$", "#", fu) if isinstance(fu, str) else fu
                    back = mi.call(f2o, fu) if fu else None
                    # suffix rule of generate_userdefname: GAS<n>/TIMESTAMP<n> lose their last character
                    if isinstance(back, str) and ((("GAS" in back) and "GASPRICE" not in back and "GASLIMIT" not in back) or "TIMESTAMP" in back):
                        back = back[:-1]
                    row["back"] = back
                except Raised as e:
                    row["giv_raises"] = e.what
                except Unsupported as e:
                    raise AnalysisError(f"cannot evaluate get_involved_vars/funct_to_opcode for {name}: {e}")
            elif first and not first.startswith("Error") and "(" in first and len(lines) == 1:
                # effect instruction: store / log / copy ...
                try:
                    vs, fu = mi.call(giv, first.strip(), "")
                    row["vars"] = _rename(list(vs), K)
                    row["funct"] = fu
                except (Raised, Unsupported):
                    pass
            elif first.startswith("Error"):
                row["error_line"] = first
            per_height.append(row)
        a, b = per_height
        if a != b:
            raise AnalysisError(f"abstract evaluation of {name} depends on the representative stack height: {a} vs {b} "
                                f"(a needle of a dispatch chain matches inside a stack variable or counter)")
        rows[name] = a
    info = {"split_block": sorted(cenv.get("split_block", [])), "end_block": sorted(cenv.get("end_block", [])),
            "store_instructions": sorted(cenv.get("store_instructions", []))}
    # the repository's own arity table
    oenv = mi.module_env("sfs_generator.opcodes")
    get_opcode = ctx.func("sfs_generator.opcodes.get_opcode")
    own = {}
    for name in list(rows) + list(STACK_ARITY):
        try:
            v = mi.call(get_opcode, name)
            own[name] = (v[1], v[2])
        except (Raised, Unsupported, TypeError, IndexError):
            own[name] = None
    ctx.cache["roundtrip"] = (rows, info, own, oenv.get("opcodes", {}))
    ctx.p.consulted.update({IR, GO, "sfs_generator.opcodes", "global_params.constants", "sfs_generator.utils"})
    return ctx.cache["roundtrip"]


def vocabulary(ctx):
    """Opcodes that can reach the term DAG: known to ir_block, real EVM/solc items, not splitting/terminal, not pure stack ops."""
    rows, info, own, _ = table(ctx)
    # what never reaches the term DAG: the splitting / block-ending sets the repository itself declares (read from its constants and
    # from the splitter's terminate_block), and JUMPDEST.  Nothing is excluded by assumption: an opcode with an effect that is in none
    # of these sets *is* part of the term vocabulary — that is what C01.e reports.
    mi_env = ModuleInterp(ctx).module_env(GO)
    excluded = set(info["split_block"]) | set(info["end_block"]) | set(mi_env.get("terminate_block") or ()) | {"JUMPDEST"}
    voc = []
    for name, row in rows.items():
        if name in excluded or name in STACK_OPS:
            continue
        if name not in STACK_ARITY:
            continue      # not an EVM opcode / solc item (SLOADEXT, RNGSEED, ...)
        voc.append(name)
    return voc
