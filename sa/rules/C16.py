"""C16 — the numeric bounds published in a specification are valid (scoped claim: third sentence + freshness).

C16.a provenance of `original_instrs`: the list written into a specification is defined, on every path, in the same
      sub-block translation from that sub-block's own opcode list (never left over from another sub-block / block)
C16.b the quantities the bounds are computed from (instruction count, discount, stack bound, pops, term tables)
      are re-initialised per sub-block: one loop iteration can read none of them from the previous iteration
C16.c the discount de-duplication level is the instruction's position
C16.d the folding discount is counted once per expression
C16.e store-selecting predicates cover MSTORE8
C16.f upper-bound start values admit every realizing sequence
"""
import ast

from ..core.flow import node_exprs, call_name, calls_in, single_assignments, is_name
from ..core.loader import AnalysisError, short, own_nodes, norm
from ..core.report import where
from .C12 import facts

TECHNIQUE = ("def-use (upward-exposed) analysis of module globals per sub-block translation unit and per loop body; "
             "provenance chase of the recorded instruction list to the sub-block's own parameter")
LEVEL_TEXT = ("Decides the sentence 'the recorded original instruction list is the instruction sequence of the sub-block "
              "the specification was derived from' as a def-use fact (the global it is read from is always re-bound in "
              "the same sub-block translation, from that sub-block's opcodes), and that every input of the bound "
              "arithmetic is fresh per sub-block. Of the bound arithmetic it decides necessary pieces only: folding discounts "
              "are counted once per expression and at the instruction's position (C16.c/d), the memory rules discount at most "
              "one instruction per store they remove (C16.i, by evaluation on the access-sequence family), the stack bound is "
              "read from the full variable list (C16.j), every store is counted once in min_length (C16.e/h), a revisited "
              "instruction is charged only when duplicated (C16.g). Feasibility of init_progr_len / max_sk_sz and validity of "
              "min_length in general are existential/universal statements over instruction sequences and are not decided "
              "(one witnessed over-discount that no sound rule reports: witness/C16-shared-inner-term-discount).")
EXPLANATION = ("For each function that calls generate_json (the only writer of original_instrs) the upward-exposed set "
               "must not contain original_ins unless every caller defines it first (unsplit case); the defining "
               "right-hand side is chased through local single assignments to the parameter holding the sub-block's "
               "instructions. For each sub-block loop the body is analysed as a unit starting from 'nothing assigned': "
               "none of the globals re-bound by init_globals may be upward exposed.")
NOT_DECIDED = ("feasibility of init_progr_len and max_sk_sz (existential over sequences), validity of min_length "
               "(universal over sequences), correctness of the discount arithmetic itself")
ASSUMPTIONS = ["generate_json is the only function that writes the key original_instrs (checked)"]

GO = "sfs_generator.gasol_optimization"
REC = "original_ins"


def _roots(expr, assigns, params, depth=0, seen=None):
    """Parameters / free names an expression is derived from, chasing local single assignments."""
    seen = seen or set()
    out = set()
    for n in ast.walk(expr):
        if isinstance(n, ast.Name) and isinstance(n.ctx, ast.Load):
            if n.id in params:
                out.add(("param", n.id))
            elif n.id in assigns and n.id not in seen and depth < 8:
                for _, v, _ in assigns[n.id]:
                    out |= _roots(v, assigns, params, depth + 1, seen | {n.id})
            elif n.id in assigns:
                pass
            else:
                out.add(("free", n.id))
    return out


def rule_a(ctx, out):
    gf, reach = facts(ctx)
    g = (GO, REC)
    # who writes the key
    writers = []
    for f in ctx.p.funcs_in(GO):
        for n in own_nodes(f.node):
            if isinstance(n, ast.Assign) and isinstance(n.targets[0], ast.Subscript) and isinstance(n.targets[0].slice, ast.Constant) \
                    and n.targets[0].slice.value == "original_instrs":
                writers.append((f, n))
    if not writers:
        raise AnalysisError("no writer of the key original_instrs found")
    for f, n in writers:
        reads = [x.id for x in ast.walk(n.value) if isinstance(x, ast.Name)]
        if f.name == "generate_json" and REC in reads:
            out.ok({"writer": f.qual, "value": short(n.value)})
        else:
            out.bad(f"original_instrs-writer:{f.name}", f"original_instrs is written in {f.name} from {short(n.value)}; expected generate_json "
                    f"reading the per-sub-block list {REC}", where(f, n))
    # every function calling generate_json
    callers = [f for f in reach.values() if f.module.name == GO and calls_in(f.node, "generate_json") and f.name != "generate_json"]
    if len(callers) < 3:
        raise AnalysisError(f"only {len(callers)} reachable callers of generate_json found (expected the three translate_* functions)")
    builtin_free = {"list", "map", "filter", "len", "range", "str", "int", "sorted"}
    for f in callers:
        exposed = g in gf.exposed[f.qual]
        if not exposed:
            # defined inside on every path: check provenance of each definition
            assigns = single_assignments(f.node)
            params = set(f.params)
            defs = [n for n in own_nodes(f.node) if isinstance(n, ast.Assign) and any(is_name(t, REC) for t in n.targets)]
            if not defs:
                # assigned by a callee on all paths
                out.ok({"function": f.qual, REC: "re-bound by a callee before generate_json on every path"})
                continue
            for d in defs:
                roots = _roots(d.value, assigns, params)
                free = {n for k, n in roots if k == "free"} - builtin_free - {"compute_opcodes2write"}
                free = {n for n in free if n in gf.mod_globals[GO]}
                pr = {n for k, n in roots if k == "param"}
                if free:
                    out.bad(f"{f.name}:{REC}-from-global:{'+'.join(sorted(free))}", f"{REC} is defined from module state {sorted(free)}, not "
                            f"from this sub-block's instructions", where(f, d))
                elif not pr:
                    out.bad(f"{f.name}:{REC}-not-from-subblock", f"{REC} = {short(d.value)} is not derived from any parameter of {f.name}", where(f, d))
                else:
                    out.ok({"function": f.qual, "definition": short(d, 60), "derived_from_params": sorted(pr)})
        else:
            # unsplit case: every caller must have defined it before the call
            ok_all = True
            for cq, cf in reach.items():
                for c in calls_in(cf.node, f.name):
                    if ctx.r.resolve_call(cf, c) and ctx.r.resolve_call(cf, c)[0] is f:
                        if g in gf.exposed[cq]:
                            # the caller itself leaves it exposed; acceptable only if *its* callers define it — chase one level
                            ok_all = ok_all and _callers_define(ctx, gf, reach, cf, g)
            if ok_all:
                out.ok({"function": f.qual, REC: "defined by every caller before the call (unsplit block)"})
            else:
                out.bad(f"{f.name}:{REC}-may-be-stale", f"{f.name} writes a specification whose original_instrs can come from a previous "
                        f"sub-block or block", where(f))


def _callers_define(ctx, gf, reach, f, g, depth=0):
    if depth > 4:
        return False
    found = False
    for cq, cf in reach.items():
        for c in calls_in(cf.node, f.name):
            t = ctx.r.resolve_call(cf, c)
            if t and t[0] is f:
                found = True
                if g in gf.exposed[cq] and not _callers_define(ctx, gf, reach, cf, g, depth + 1):
                    return False
    return found


def rule_b(ctx, out):
    gf, reach = facts(ctx)
    ig = ctx.global_initialiser(GO, 25)
    per_sub = set(gf.must[ig.qual])
    if len(per_sub) < 25:
        raise AnalysisError("init_globals resets fewer than 25 globals")
    bound_inputs = {"discount_op", "max_instr_size", "max_stack_size", "num_pops", "user_defins", "u_dict", "s_dict", "rules_applied"}
    missing = [b for b in bound_inputs if (GO, b) not in per_sub and b not in ("max_instr_size", "max_stack_size", "num_pops", "u_dict", "s_dict")]
    for b in sorted(bound_inputs):
        if (GO, b) in per_sub:
            out.ok({"global": b, "reset_by": "init_globals"})
        else:
            out.bad(f"not-reset-per-sub-block:{b}", f"{b} (an input of the published bounds) is not re-bound by init_globals", where(ig))
    # loops that translate sub-blocks: the body, as a unit, reads nothing of the per-sub-block state from the previous iteration
    n_loops = 0
    for f in reach.values():
        if f.module.name != GO:
            continue
        for loop in [n for n in own_nodes(f.node) if isinstance(n, (ast.While, ast.For))]:
            if not any(call_name(c) in ("translate_subblock",) for st in loop.body for c in calls_in(st)):
                continue
            n_loops += 1
            must, exposed = gf.body_exposure(f, loop.body, reach)
            leak = sorted(n for (m, n) in exposed & per_sub)
            if leak:
                out.bad(f"{f.name}:sub-block-loop-reads-previous-iteration:{'+'.join(leak[:3])}",
                        f"one iteration of the sub-block loop in {f.name} can read {leak} as left by the previous sub-block "
                        f"(init_globals() is not called before the first use)", where(f, loop), {"leaked": leak})
            else:
                out.ok({"function": f.qual, "loop": short(loop.test if isinstance(loop, ast.While) else loop.iter, 40),
                        "fresh_per_iteration": len(per_sub)})
    if n_loops < 1:
        raise AnalysisError("no sub-block translation loop found")
    # the last sub-block (translated outside the loop) and the unsplit block
    for name in ("translate_last_subblock",):
        f = reach.get(f"{GO}.{name}")
        if f is None:
            raise AnalysisError(f"{name} not reachable")
        leak = sorted(n for (m, n) in gf.exposed[f.qual] & per_sub)
        if leak:
            out.bad(f"{name}:reads-previous-sub-block:{'+'.join(leak[:3])}", f"{name} can read {leak} as left by the previous sub-block", where(f))
        else:
            out.ok({"function": f.qual, "fresh": True})


def rule_c(ctx, out):
    """The discount for a folded constant is taken once per instruction: compute_binary de-duplicates on (expression, level), and
    level must be the absolute position of the instruction for every consumer.  Every function that receives that position as
    parameter `pos` and starts an operand search must hand the same value on (directly or through a local copy)."""
    n = 0
    for f in ctx.p.funcs_in(GO):
        if "pos" not in f.params:
            continue
        cs = calls_in(f.node, "search_for_value_aux")
        if not cs:
            continue
        assigns = single_assignments(f.node)
        callee = ctx.func(f"{GO}.search_for_value_aux")
        lvl = callee.params.index("level") if "level" in callee.params else 3
        for c in cs:
            n += 1
            a = c.args[lvl] if len(c.args) > lvl else None
            ok = False
            seen = set()
            while isinstance(a, ast.Name) and a.id not in seen:
                if a.id == "pos":
                    ok = True
                    break
                seen.add(a.id)
                defs = assigns.get(a.id, [])
                a = defs[0][1] if len(defs) == 1 and defs[0][2] is None else None
            if ok:
                out.ok({"function": f.name, "operand_search_level": "pos"})
            else:
                out.bad(f"{f.name}:operand-search-level-not-position", f"{f.name} starts the operand search with level `{norm(c.args[lvl]) if len(c.args) > lvl else '?'}` "
                        f"instead of the position `pos` of the instruction: the same folded constant gets two de-duplication keys and its discount is "
                        f"subtracted from init_progr_len twice", where(f, c))
    if n < 3:
        raise AnalysisError(f"only {n} operand searches started from positioned instructions found")


def rule_d(ctx, out):
    """A folded constant is evaluated once per consumer (every DUP of it re-enters the folder), so the discount it earns must be
    counted once: in every folder the `discount_op += k` is guarded by a `not in already_considered` test and the expression is
    recorded.  (Sibling agreement between compute_binary and compute_ternary.)"""
    n = 0
    for f in ctx.p.funcs_in(GO):
        if not (calls_in(f.node, "evaluate_expression") or calls_in(f.node, "evaluate_expression_ter")):
            continue
        incs = [x for x in own_nodes(f.node) if isinstance(x, ast.AugAssign) and is_name(x.target, "discount_op")]
        if not incs:
            continue
        n += 1
        records = [c for c in calls_in(f.node, "append") if isinstance(c.func, ast.Attribute) and is_name(c.func.value, "already_considered")]
        for inc in incs:
            cur, guarded = inc, False
            while cur is not None and cur is not f.node:
                p = getattr(cur, "_parent", None)
                if isinstance(p, ast.If) and cur in p.body and isinstance(p.test, (ast.Compare, ast.BoolOp)):
                    for c in ast.walk(p.test):
                        if isinstance(c, ast.Compare) and isinstance(c.ops[0], ast.NotIn) and is_name(c.comparators[0], "already_considered"):
                            guarded = True
                cur = p
            # the discount stands for instructions that disappear: after it was taken, the fold may not be rejected any more
            # (size gate): every return reachable from the increment hands out the folded value (first component True)
            cfg = ctx.cfg(f)
            inc_node = cfg.stmt_node(inc)
            rejecting = [x for x in cfg.nodes if x.kind == "stmt" and isinstance(x.ast, ast.Return) and isinstance(x.ast.value, ast.Tuple) and x.ast.value.elts
                         and isinstance(x.ast.value.elts[0], ast.Constant) and x.ast.value.elts[0].value is False]
            late = [r for r in rejecting if inc_node is not None and cfg.paths_avoiding(inc_node, r, set(), skip_exc=True)]
            if late:
                out.bad(f"{f.name}:discount-kept-for-rejected-fold", f"{f.name}: after `{short(inc)}` the fold can still be rejected (`{short(late[0].ast, 50)}`, line "
                        f"{late[0].ast.lineno}): the instructions stay in the block but the published bound init_progr_len no longer counts them", where(f, late[0].ast))
            elif guarded and records:
                out.ok({"folder": f.name, "discount": short(inc), "counted": "once per expression", "rejections_after_it": 0})
            else:
                out.bad(f"{f.name}:discount-counted-per-consumer", f"{f.name} adds `{short(inc)}` every time the folded expression is evaluated; a constant "
                        f"that is duplicated is evaluated once per consumer, so init_progr_len = instructions - discount becomes too small "
                        f"(even negative) and no sequence fits the bound", where(f, inc))
    if n < 2:
        raise AnalysisError(f"only {n} constant folders with a discount found")


def rule_e(ctx, out):
    """The store vocabulary is {MSTORE, MSTORE8, SSTORE}: a predicate over a record's opcode that selects the word stores of both
    memory and storage (accepts MSTORE and SSTORE) must also accept MSTORE8 — otherwise byte stores silently drop out of whatever
    is computed from the selection (here: the stack-size bound)."""
    from ..core.idioms import store_predicates
    n = 0
    for f, expr, acc in store_predicates(ctx, {GO, "verification.sfs_verify", "smt_encoding.json_with_dependencies"}):
        n += 1
        if {"MSTORE", "SSTORE"} <= acc and "MSTORE8" not in acc:
            out.bad(f"store-predicate-misses-MSTORE8:{f.name}:{norm(expr)[:50]}", f"in {f.name} the predicate `{short(expr, 70)}` selects MSTORE and SSTORE "
                    f"records but not MSTORE8", where(f, expr), {"accepts": sorted(acc)})
        elif "MSTORE" in acc and "MSTORE8" not in acc and "mstore8" not in norm(f.node).lower():
            out.bad(f"store-predicate-misses-MSTORE8:{f.name}:{norm(expr)[:50]}", f"in {f.name} the predicate `{short(expr, 70)}` selects MSTORE but not MSTORE8, "
                    f"and the function handles byte stores nowhere else", where(f, expr), {"accepts": sorted(acc)})
        else:
            out.ok({"function": f.name, "predicate": short(expr, 60), "accepts": sorted(acc)})
    if n < 8:
        raise AnalysisError(f"only {n} store-selecting predicates found")


def rule_f(ctx, out):
    """min_length and the per-instruction upper bounds start from "the first position at which the instruction that produces a
    final-stack element can no longer appear".  That start value must not exclude a realizing sequence: the producer of the top
    element can be the last instruction (value b0), the producer of any deeper element can be followed by a single SWAP that buries it
    (value >= b0 - 1, whatever the depth), a maximal store can be last (b0).  A tighter start value makes min_length exceed the length
    of real sequences and makes the encoding infeasible.  Evaluated abstractly on final stacks of depth 1..5."""
    from ..core.interp import ModuleInterp
    from ..core.minieval import Unsupported, Raised
    f = ctx.func("smt_encoding.instructions.instruction_bounds_with_dependencies.initialize_bound_positions_for_ub")
    mi = ModuleInterp(ctx, max_steps=100000)
    b0 = 12
    n = 0
    shapes = [["A"], ["A", "B"], [None, "B"], ["A", None, "C"], ["A", "B", "C", "D"], [None, None, None, "D", "E"], ["A", "A", "B"]]
    for ids in shapes:
        for mem in ([], ["S"], ["S", "T"]):
            table = {}
            try:
                mi.call(f, b0, list(ids), list(mem), table)
            except (Unsupported, Raised) as e:
                raise AnalysisError(f"initialize_bound_positions_for_ub: cannot evaluate abstractly: {e}")
            n += 1
            bad = None
            for d, x in enumerate(ids):
                if x is None:
                    continue
                need = b0 if d == 0 else b0 - 1
                # an instruction that also produces a shallower element is bounded by that one
                need = max(need if i_ == d else (b0 if i_ == 0 else b0 - 1) for i_, y in enumerate(ids) if y == x)
                got = table.get(x)
                if not (isinstance(got, list) and len(got) == 2 and max(got) >= need):
                    bad = (x, d, got, need)
                    break
            for m in mem:
                if bad is None and not (isinstance(table.get(m), list) and max(table[m]) >= b0):
                    bad = (m, "store", table.get(m), b0)
            if bad is None:
                out.ok({"final_stack_producers": ids, "maximal_stores": mem, "start_values": {k: v for k, v in table.items()}})
            else:
                x, d, got, need = bad
                out.bad(f"upper-bound-start-too-tight:{'store' if d == 'store' else 'depth-' + str(min(d, 2)) + ('+' if d >= 2 else '')}",
                        f"initialize_bound_positions_for_ub(b0={b0}, final stack producers {ids}, maximal stores {mem}) starts {x!r} "
                        f"({'a maximal store' if d == 'store' else 'final-stack depth ' + str(d)}) at {got}; a realizing sequence can have it as late as {need}", where(f))
    if n < 15:
        raise AnalysisError(f"only {n} configurations evaluated")


def rule_g(ctx, out):
    """Lower bounds count an instruction that is needed again only when it has to be *duplicated*: number_instr_needed, meeting an
    instruction that was already visited, charges one more instruction exactly when the earlier visit and this one are both as a
    direct (stack) operand — a visit as a mere ordering predecessor costs nothing — and records `direct` if either visit was.  The
    decision table of that branch is evaluated for the four combinations; one extra instruction per ordering predecessor makes a lower
    bound exceed the position the instruction has in a realizing sequence (min_length > init_progr_len, empty position windows)."""
    from ..core.interp import ModuleInterp
    from ..core.minieval import Unsupported, Raised
    f = ctx.func("smt_encoding.instructions.instruction_bounds_with_dependencies.number_instr_needed")
    if len(f.params) < 4:
        raise AnalysisError("number_instr_needed: signature changed")
    mi = ModuleInterp(ctx, max_steps=20000)
    n = 0
    for was in (False, True):
        for now in (False, True):
            repeated = {"I": was}
            try:
                got = mi.call(f, "I", now, {"I": 3}, repeated, {"I": {}}, {}, {"I": []}, {})
            except (Raised, Unsupported) as e:
                raise AnalysisError(f"number_instr_needed: the already-visited branch cannot be evaluated abstractly: {e}")
            n += 1
            want = 1 if (was and now) else 0
            if got == want and repeated.get("I") == (was or now):
                out.ok({"visited_before_as_direct": was, "visited_now_as_direct": now, "charged": got, "recorded": repeated.get("I")})
            else:
                out.bad(f"revisit-charge:{'direct' if was else 'ordering'}-then-{'direct' if now else 'ordering'}", f"number_instr_needed charges {got} for an instruction "
                        f"visited before as {'a direct operand' if was else 'an ordering predecessor'} and now as {'a direct operand' if now else 'an ordering predecessor'} "
                        f"(recorded: {repeated.get('I')}); a duplication is needed only when both visits are direct (charge {want}, record {was or now})", where(f))
    if n < 4:
        raise AnalysisError("number_instr_needed: decision table incomplete")


def rule_h(ctx, out):
    """min_length_instrs counts every store of the specification once (shared with C04.i: store selections of count_sms_greedy and of
    the greedy itself — taking byte stores, and no store twice)."""
    from . import C04
    C04.rule_i(ctx, out)


def rule_i(ctx, out):
    """init_progr_len = instructions of the block - discount_op is published as an upper bound: a unit of discount must stand for an
    instruction that is gone whatever the surrounding stack looks like.  A store that the memory rules remove is such an instruction.  A load
    that is *forwarded* (replaced by the value stored before) is not: its consumer still needs that value, which now has to be duplicated
    and possibly swapped back under the store's operands (`DUP2 DUP2 SSTORE SLOAD` needs 4 instructions before and after).  simplify_memory
    is interpreted on every access sequence of the small family; the discount it takes may not exceed the number of stores it removed."""
    from ..core import memrules as mr
    entry = f"{GO}.simplify_memory"
    eng = mr.MemEngine(ctx, entry, GO)
    n = 0
    seen = set()

    def stores(seq):
        return sum(1 for e in seq if "store" in e[0][-1])
    for loc in ("memory", "storage"):
        addrs = ["s(0)", "s(1)", "32"] if loc == "memory" else ["s(0)", "s(1)", "1"]
        for seq in mr.sequences(loc, 3, addrs, ["s(2)", "7"], False, loc == "memory"):
            r = eng.run(seq, loc)
            if r is None or r.get("mismatch"):
                continue        # left alone, or wrong for another reason (C02.h reports that)
            last = eng.last
            removed = stores(last["before"]) - stores(last["after"])
            n += 1
            if last["discount"] <= removed:
                out.instances += 1
                out.satisfied += 1
                if n % 200 == 1:
                    out.samples.append({"sequence": mr.show(last["before"]), "after": mr.show(last["after"]), "discount": last["discount"], "stores_removed": removed})
                continue
            gone = sorted({e[0][-1].rstrip("0123456789") for e in last["before"] if e not in last["after"] and "store" not in e[0][-1]}) or ["?"]
            key = f"discount-exceeds-removed-stores:{loc}:{'+'.join(gone)}"
            if key in seen:
                out.instances += 1
                continue
            seen.add(key)
            out.bad(key, f"simplify_memory rewrites [{mr.show(last['before'])}] into [{mr.show(last['after'])}] and takes a discount of {last['discount']} with "
                    f"{removed} store(s) removed: a forwarded {gone[0]} does not shorten the block for sure (its value must be duplicated for the consumer), so "
                    f"init_progr_len can fall below the shortest realizing sequence", where(ctx.func(entry)))
    if n < 300:
        raise AnalysisError(f"simplify_memory rewrote only {n} sequences of the family")


def rule_j(ctx, out):
    """The stack bound is taken from the full list of stack variables.  generate_json publishes max_sk_sz = min(max(len(vars), height) - r,
    ...) where r is the number of bottom elements removed from the specification; afterwards those r variables are also popped out of the
    list itself.  The `max(len(<list>), ...)` must be evaluated before any statement that shortens that list in place can run — read after
    them, the removed elements are subtracted twice and a consuming sub-block (`ADD` of `ADD LOG1 MUL`) gets a bound below its arity."""
    f = ctx.func(f"{GO}.generate_json")
    cfg = ctx.cfg(f)
    n = 0
    for node in cfg.nodes:
        a = node.ast
        if node.kind != "stmt" or not isinstance(a, ast.Assign):
            continue
        in_max = [x.args[0].id for c in calls_in(a.value) if call_name(c) == "max" for arg in c.args for x in ast.walk(arg)
                  if isinstance(x, ast.Call) and call_name(x) == "len" and x.args and isinstance(x.args[0], ast.Name)]
        # ... or the length is taken into a local first, and that local is an argument of a max(...)
        via_local = []
        if not in_max and len(a.targets) == 1 and isinstance(a.targets[0], ast.Name) and isinstance(a.value, ast.Call) and call_name(a.value) == "len" \
                and a.value.args and isinstance(a.value.args[0], ast.Name):
            t_ = a.targets[0].id
            if any(call_name(c) == "max" and any(is_name(arg, t_) for arg in c.args) for c in calls_in(f.node)):
                via_local = [a.value.args[0].id]
        for lens in (in_max + via_local,):
            for V in lens:
                n += 1
                shrink = [m for m in cfg.nodes if m is not node and m.ast is not None and any(
                    (isinstance(x, ast.Call) and isinstance(x.func, ast.Attribute) and is_name(x.func.value, V) and x.func.attr in ("pop", "remove", "clear"))
                    or (isinstance(x, ast.Delete) and any(isinstance(t, ast.Subscript) and is_name(t.value, V) for t in x.targets))
                    for e in ([m.ast] if isinstance(m.ast, ast.stmt) else []) + list(node_exprs(m)) for x in ast.walk(e))]
                early = [m for m in shrink if cfg.reaches(m, node)]
                if early:
                    out.bad(f"generate_json:stack-bound-read-after-the-list-is-shortened:{V}", f"generate_json computes `{short(a, 60)}` where `{short(early[0].ast, 40)}` "
                            f"(line {early[0].ast.lineno}) has already shortened `{V}`: the elements removed from the specification are subtracted twice from max_sk_sz",
                            where(f, a))
                else:
                    out.ok({"bound": short(a, 60), "list": V, "shortened_later_at": [m.ast.lineno for m in shrink][:3]})
    if n < 1:
        raise AnalysisError("generate_json: no `max(len(<list>), ...)` bound computation found")


RULES = [
    ("C16.j", "the stack bound is taken from the full variable list", 1, rule_j),
    ("C16.i", "the memory rules discount at most one instruction per store they remove", 300, rule_i),
    ("C16.h", "the instruction count behind min_length takes every store exactly once", 4, rule_h),
    ("C16.g", "a revisited instruction is charged only when it must be duplicated", 4, rule_g),
    ("C16.f", "upper-bound start values admit every realizing sequence", 15, rule_f),
    ("C16.e", "store-selecting predicates cover MSTORE8", 8, rule_e),
    ("C16.d", "the folding discount is counted once per expression", 2, rule_d),
    ("C16.c", "the discount de-duplication level is the instruction's position", 3, rule_c),
    ("C16.a", "provenance of original_instrs", 4, rule_a),
    ("C16.b", "bound inputs are fresh per sub-block", 9, rule_b),
]
