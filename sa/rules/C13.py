"""C13 — specification generation and greedy search are deterministic (scoped claim).

C13.a no construct on the pipeline observes the iteration order of a set of strings in an order-sensitive way
C13.b other nondeterminism sources (uuid, clocks, directory listings, id(), hash(), random) cannot flow into a
      specification, an identifier, the greedy result or the emitted file
C13.c graph-library edge orders only over integer positions
"""
import ast

from ..core.flow import call_name, calls_in, is_name
from ..core.loader import AnalysisError, short, own_nodes, norm, canon, function_locals
from ..core.report import where
from ..core.setorder import SetTypes, sites_in_function

TECHNIQUE = ("unordered-iteration lint with local set-type inference and a syntactic commutativity criterion; "
             "who-may-read rules for uuid / clock / directory-listing values")
LEVEL_TEXT = ("Decides that every construct reachable from the tool's entry point that observes the iteration order of a "
              "set is either order-insensitive by a syntactic criterion (sorted/len/min/max/set algebra/commutative "
              "accumulation without calls) or listed, with its argument, in a triage table; a new order-observing site, "
              "or a listed site whose construct changes, is reported. Also decides that uuid, clock and directory "
              "listing values reach only file-system paths, statistics and debug output. Equality of two actual runs "
              "is not decided."
              ' Added in seeding rounds 8-9: the triage reason of the topological-order site is a checked premise (no scratch container carried across the loop) and set algebra on dict views counts as a set.')
EXPLANATION = ("Sites: for/comprehension/list()/tuple()/join/pop()/unpacking over an expression inferred to be a set "
               "(set()/set displays/set algebra/names and self-attributes assigned only such values/Set[...] parameters). "
               "Reachability is over-approximated (method calls resolved by name) from gasol_asm.execute_gasol.")
NOT_DECIDED = "byte equality of two executions; determinism of the external solvers"
ASSUMPTIONS = ["dict iteration is insertion-ordered (CPython >= 3.7), so only sets (and set-derived sequences) are "
               "hash-seed dependent; int hashes are seed independent"]

ROOTS = ["gasol_asm.execute_gasol"]

# Sites that the syntactic criterion cannot classify. key = (function qualname, consumer text with the function's local names
# canonicalised to L1, L2, ... in order of appearance — see core.loader.canon) -> (verdict, reason)
TRIAGED = {
    ("greedy.block_generation.SMSgreedy.target", "for L1 in L2"):
        ("insensitive", "body is `map[w] += needed_list(w, ...)`: one slot per element; needed_list only reads the maps it is given "
                        "(needed_set is read-only inside it)"),
    ("smt_encoding.complete_encoding.synthesis_additional_constraints.each_function_is_used_at_most_once", "(<comp over L1>)"):
        ("insensitive", "elements are ints (range positions): int hashes are seed independent, and the set is rebuilt identically each run"),
    ("smt_encoding.instructions.instruction_bounds_with_dependencies.InstructionBoundsWithDependencies.__init__",
     "list(set((L1.id for L1 in instructions if L1.instruction_subset == InstructionSubset.store)).difference(L2))"):
        ("insensitive", "non_dependent_mem_ids is only iterated to give every member the same initial bound (initialize_bound_positions_for_ub)"),
    ("smt_encoding.json_with_dependencies.bounds_from_instructions",
     "list(set((L1.id for L1 in instructions if L1.instruction_subset == InstructionSubset.store)).difference(L2))"):
        ("insensitive", "clone of the previous site; same consumer"),
    ("smt_encoding.instructions.instruction_bounds_with_dependencies.toposort_instr_dependencies",
     "list(set((L1 for L1 in dependency_graph)).difference(set((L1 for L2 in dependency_graph.values() for L1 in L2))))"):
        ("insensitive", "order of the maximal elements only selects among topological orders; consumers generate_lower_bound_dict "
                        "(value per instruction depends only on its already-final predecessors) and update_with_tree_level (min/max) "
                        "give the same result for every topological order"),
    ("smt_encoding.instructions.instruction_dependencies.toposort_instr_dependencies",
     "list(set((L1 for L1 in dependency_graph)).difference(set((L1 for L2 in dependency_graph.values() for L1 in L2))))"):
        ("insensitive", "clone; consumer hap_bef_rel computes a transitive closure, identical for every topological order"),
    ("smt_encoding.instructions.instruction_bounds_with_dependencies.update_with_tree_level",
     "for L1 in set(L2).difference(L3)"):
        ("insensitive", "body only calls update_current_index, a per-key min/max update"),
    ("smt_encoding.instructions.instruction_bounds_with_dependencies.number_instr_needed",
     "for L1 in set(L2).difference(L3)"):
        ("SENSITIVE", "body calls needed_instrs_from_id, which mutates the loop-carried dict repeated_instructions; the sum depends on "
                      "the visiting order (witnessed: min_length_bounds 5 vs 6 under different PYTHONHASHSEED)"),
}


# Premises of triage reasons that can be re-checked on every run: (consumer function, iterated parameter) pairs whose loops over that
# parameter must consist of per-key min/max updates with loop-invariant arguments.
BNDS = "smt_encoding.instructions.instruction_bounds_with_dependencies"
TRIAGE_PREMISES = {
    (f"{BNDS}.InstructionBoundsWithDependencies.__init__",
     "list(set((L1.id for L1 in instructions if L1.instruction_subset == InstructionSubset.store)).difference(L2))"):
        [(f"{BNDS}.initialize_bound_positions_for_ub", "maximal_mem_ids")],
    ("smt_encoding.json_with_dependencies.bounds_from_instructions",
     "list(set((L1.id for L1 in instructions if L1.instruction_subset == InstructionSubset.store)).difference(L2))"):
        [(f"{BNDS}.initialize_bound_positions_for_ub", "maximal_mem_ids")],
}
# (function, parameter) pairs that must treat the parameter as read-only (no item store, no mutator call, in the function or the
# functions nested in it): the table filled by generate_lower_bound_dict holds, for every instruction, a value that depends on the
# dependency graph alone — only because nobody but the loop over the topological order (one slot per element) writes it.
TRIAGE_READONLY = {
    (f"{BNDS}.toposort_instr_dependencies",
     "list(set((L1 for L1 in dependency_graph)).difference(set((L1 for L2 in dependency_graph.values() for L1 in L2))))"):
        [(f"{BNDS}.number_instr_needed", "number_of_instructions_to_execute")],
}
# (function, parameter): consumers of the topological order whose result is the same for every topological order only while nothing but the
# per-key min/max table is carried from one visited instruction to the next — a scratch container that is bound before the loop, filled inside
# it and consulted inside it makes what is done for an instruction depend on which instructions were visited before it.
TRIAGE_NO_CARRIED_SCRATCH = {
    (f"{BNDS}.toposort_instr_dependencies",
     "list(set((L1 for L1 in dependency_graph)).difference(set((L1 for L2 in dependency_graph.values() for L1 in L2))))"):
        [(f"{BNDS}.update_with_tree_level", "topological_order")],
}
PER_KEY_UPDATERS = {"update_current_index"}


def _carried_scratch(ctx, qual, param):
    """(name, node) of a scratch set / list carried across the iterations of the loop over `param` in function `qual`, or None."""
    from ..core.absint import MUTATORS
    g_ = ctx.func(qual)
    if param not in g_.params:
        raise AnalysisError(f"{qual} has no parameter {param} any more (premise of a triaged set-order site)")
    loops = [l for l in own_nodes(g_.node) if isinstance(l, ast.For) and any(is_name(x, param) for x in ast.walk(l.iter))]
    if not loops:
        raise AnalysisError(f"{qual}: no loop over {param} any more (premise of a triaged set-order site)")
    for loop in loops:
        inner = {id(x) for st in loop.body for x in ast.walk(st)}
        outside = {}
        for n in own_nodes(g_.node):
            if isinstance(n, ast.Assign) and id(n) not in inner:
                for t in n.targets:
                    v = n.value
                    if isinstance(t, ast.Name) and (isinstance(v, (ast.List, ast.Set, ast.Dict)) and not (getattr(v, "elts", None) or getattr(v, "keys", None))
                                                    or (isinstance(v, ast.Call) and call_name(v) in ("set", "list", "dict") and not v.args)):
                        outside[t.id] = n
        rebound_inside = {t.id for st in loop.body for n in ast.walk(st) if isinstance(n, ast.Assign) for t in n.targets if isinstance(t, ast.Name)}
        for name, bind in sorted(outside.items()):
            if name in rebound_inside:
                continue
            mut = [x for st in loop.body for x in ast.walk(st) if isinstance(x, ast.Call) and isinstance(x.func, ast.Attribute) and is_name(x.func.value, name)
                   and x.func.attr in MUTATORS]
            reads = [x for st in loop.body for x in ast.walk(st) if isinstance(x, ast.Name) and x.id == name and isinstance(x.ctx, ast.Load)
                     and not (isinstance(getattr(x, "_parent", None), ast.Attribute) and x._parent.attr in MUTATORS)]
            if mut and reads:
                return name, mut[0]
    return None
# loops triaged because their body is one slot-per-element update  <table>[<loop var>] op= ...
SLOT_PER_ELEMENT = {("greedy.block_generation.SMSgreedy.target", "for L1 in L2")}


# functions with exactly one order-observing site, triaged above: the entry applies to that site in whatever spelling
TRIAGED_SINGLE_SITE = {q: v for (q, _), v in TRIAGED.items() if q.endswith(".toposort_instr_dependencies")}


def _only_per_key_updates(loop):
    lv = {x.id for x in ast.walk(loop.target) if isinstance(x, ast.Name)}

    def ok(stmts):
        for st in stmts:
            if isinstance(st, ast.For) and not st.orelse:
                if not ok(st.body):
                    return False
            elif isinstance(st, ast.Expr) and isinstance(st.value, ast.Call) and call_name(st.value) in PER_KEY_UPDATERS and st.value.args \
                    and isinstance(st.value.args[0], ast.Name) and st.value.args[0].id in lv:
                continue
            else:
                return False
        return bool(stmts)
    return ok(loop.body)


def _slot_per_element(loop):
    lv = {x.id for x in ast.walk(loop.target) if isinstance(x, ast.Name)}
    return len(loop.body) == 1 and isinstance(loop.body[0], ast.AugAssign) and isinstance(loop.body[0].target, ast.Subscript) \
        and any(isinstance(x, ast.Name) and x.id in lv for x in ast.walk(loop.body[0].target.slice))


def _per_key_minmax(ctx):
    """update_current_index(id, table, v): table[id] becomes [v, v] or [min(v, old_min), max(v, old_max)] — commutative and idempotent per key."""
    f = ctx.func(f"{BNDS}.update_current_index")
    assigns = [n for n in own_nodes(f.node) if isinstance(n, ast.Assign) and isinstance(n.targets[0], ast.Subscript)]
    ok = len(assigns) == 2 and all(norm(a.targets[0].slice) == f.params[0] and norm(a.targets[0].value) == f.params[1] for a in assigns)
    texts = sorted(norm(a.value).replace(" ", "") for a in assigns)
    v = f.params[2]
    ok = ok and f"[{v},{v}]" in texts and any(t.startswith(f"[min({v},") and f",max({v}," in t for t in texts)
    other = [n for n in own_nodes(f.node) if isinstance(n, (ast.AugAssign, ast.Delete, ast.Global, ast.Nonlocal))]
    return ok and not other


def _premise_holds(ctx, qual, param):
    f = ctx.func(qual)
    if param not in f.params:
        return False, f"{qual} has no parameter {param}"
    loops = [n for n in own_nodes(f.node) if isinstance(n, ast.For) and isinstance(n.iter, ast.Name) and n.iter.id == param]
    uses = [n for n in own_nodes(f.node) if isinstance(n, ast.Name) and n.id == param and isinstance(n.ctx, ast.Load)]
    if len(uses) != len(loops):
        return False, f"{param} is used other than as the iterable of a for loop"
    if not _per_key_minmax(ctx):
        return False, "update_current_index is no longer a per-key min/max update"
    for l in loops:
        lv = {x.id for x in ast.walk(l.target) if isinstance(x, ast.Name)}
        written = {t.id for st in ast.walk(ast.Module(body=l.body, type_ignores=[])) for t in ast.walk(st)
                   if isinstance(t, ast.Name) and isinstance(t.ctx, ast.Store)}
        for st in l.body:
            if not (isinstance(st, ast.Expr) and isinstance(st.value, ast.Call) and call_name(st.value) in PER_KEY_UPDATERS):
                return False, f"the loop over {param} does more than per-key min/max updates (`{short(st, 50)}`)"
            for a in st.value.args:
                names = {x.id for x in ast.walk(a) if isinstance(x, ast.Name)} - lv
                if names & written:
                    return False, f"the update's argument `{short(a, 30)}` changes from one element to the next"
    return True, ""


def _reach(ctx):
    if "C13.reach" not in ctx.cache:
        roots = [ctx.func(q) for q in ROOTS]
        ctx.cache["C13.reach"] = ctx.r.reachable(roots, by_name=True)
    return ctx.cache["C13.reach"]


def rule_a(ctx, out):
    reach = _reach(ctx)
    st = SetTypes(ctx.p)
    n_funcs = 0
    used_triage = set()
    for q in sorted(reach):
        f = reach[q]
        n_funcs += 1
        for s in sites_in_function(f, st):
            key = (f.qual, canon(s["consumer"], function_locals(f.node)))
            rec = {"function": f.qual, "consumer": short(s["node"], 100) if s["kind"] != "for" else s["consumer"], "auto": s["verdict"], "why": s["why"]}
            if s["verdict"] == "insensitive":
                out.ok(rec)
                continue
            tri = TRIAGED.get(key)
            if tri is None and isinstance(s["node"], ast.For) and _only_per_key_updates(s["node"]) and _per_key_minmax(ctx):
                # structural: the body only performs per-key min/max updates keyed by the loop variable (commutative, idempotent)
                rec["auto"] = "insensitive"
                rec["why"] = "body only calls the per-key min/max updater with the loop variable as key"
                out.ok(rec)
                continue
            if tri is None and f.qual in TRIAGED_SINGLE_SITE and len([x for x in sites_in_function(f, st) if x["verdict"] != "insensitive"]) == 1:
                # the one order-observing site of this function, however it is written (named locals, comprehension or constructor)
                tri = TRIAGED_SINGLE_SITE[f.qual]
                key = next(k_ for k_ in TRIAGED if k_[0] == f.qual)
            if tri is None and f.cls is None:
                # the triaged expression moved, unchanged, into a helper that only the triaged function calls: the triage (and its premises)
                # moves with it
                callers = {g_.qual for g_ in ctx.p.functions.values() if g_ is not f and any(t_ is f for c_ in calls_in(g_.node) for t_ in ctx.r.resolve_call(g_, c_))}
                moved = [k_ for k_ in TRIAGED if k_[1] == key[1] and callers and callers <= {k_[0]}
                         and len(f.node.body) <= 3 and isinstance(f.node.body[-1], ast.Return) and any(x is s["node"] for x in ast.walk(f.node.body[-1]))]
                if moved:
                    key = moved[0]
                    tri = TRIAGED[key]
            if tri is None:
                out.bad(f"set-order:{f.qual.split('.', 1)[-1]}:{s['consumer'][:70]}",
                        f"{s['consumer']} in {f.qual} observes the iteration order of a set ({s['why']}); the order depends on the string "
                        f"hash seed", where(f, s["node"]), rec)
            elif tri[0] == "SENSITIVE":
                used_triage.add(key)
                out.bad(f"set-order:{f.qual.split('.', 1)[-1]}:{s['consumer'][:70]}",
                        f"{s['consumer']} in {f.qual} is order-sensitive: {tri[1]}", where(f, s["node"]), rec)
            else:
                used_triage.add(key)
                broken = None
                if key in SLOT_PER_ELEMENT and not (isinstance(s["node"], ast.For) and _slot_per_element(s["node"])):
                    out.bad(f"set-order:{f.qual.split('.', 1)[-1]}:{s['consumer'][:70]}",
                            f"{s['consumer']} in {f.qual} iterates a set and its body is no longer a single slot-per-element update", where(f, s["node"]), rec)
                    continue
                for qual, param in TRIAGE_PREMISES.get(key, []):
                    holds, why = _premise_holds(ctx, qual, param)
                    if not holds:
                        broken = (qual, param, why)
                written = None
                for qual, param in TRIAGE_READONLY.get(key, []):
                    g_ = ctx.func(qual)
                    if param not in g_.params:
                        raise AnalysisError(f"{qual} has no parameter {param} any more (premise of a triaged set-order site)")
                    from ..core.absint import MUTATORS
                    for x in ast.walk(g_.node):
                        if isinstance(x, ast.Subscript) and isinstance(x.ctx, (ast.Store, ast.Del)) and is_name(x.value, param):
                            written = (g_, x)
                        if isinstance(x, ast.Call) and isinstance(x.func, ast.Attribute) and is_name(x.func.value, param) and x.func.attr in MUTATORS:
                            written = (g_, x)
                carried = None
                for qual, param in TRIAGE_NO_CARRIED_SCRATCH.get(key, []):
                    r_ = _carried_scratch(ctx, qual, param)
                    if r_:
                        carried = (qual, param) + r_
                if carried and not written:
                    out.bad(f"set-order:{f.qual.split('.', 1)[-1]}:{carried[0].rsplit('.', 1)[-1]}:carried-scratch:{carried[2]}",
                            f"{s['consumer'][:80]} in {f.qual} yields the maximal instructions in set order, so the topological order handed to "
                            f"{carried[0].rsplit('.', 1)[-1]} depends on the string hash seed; that is harmless only while each instruction is treated on its own. "
                            f"`{carried[2]}` is created before the loop over `{carried[1]}`, filled (`{short(carried[3], 40)}`) and consulted inside it: what is done "
                            f"for an instruction depends on the instructions visited before it, and the bounds depend on the seed", where(ctx.func(carried[0]), carried[3]), rec)
                    continue
                if written:
                    out.bad(f"set-order:{f.qual.split('.', 1)[-1]}:{written[0].name}-writes-shared-table", f"{s['consumer'][:80]} in {f.qual} yields the maximal "
                            f"instructions in set order; that is harmless only while the table of per-instruction values is written once per instruction by the "
                            f"loop over the topological order. {written[0].name} now writes `{short(written[1], 50)}` itself (also from its recursive calls, with "
                            f"values relative to the instruction being visited): the entries, and the published lower bounds, depend on the visiting order",
                            where(written[0], written[1]), rec)
                    continue
                if broken:
                    out.bad(f"set-order:{f.qual.split('.', 1)[-1]}:{broken[0].rsplit('.', 1)[-1]}:{broken[1]}",
                            f"{s['consumer'][:80]} in {f.qual} hands a list in set order to {broken[0]}, and {broken[2]}: the result depends on the "
                            f"string hash seed", where(ctx.func(broken[0])), rec)
                    continue
                rec["triaged"] = tri[1]
                out.ok(rec)
                out.info.setdefault("triaged_sites", []).append({"function": f.qual, "consumer": s["consumer"][:90], "reason": tri[1]})
    out.info["functions_scanned"] = n_funcs
    if n_funcs < 300:
        raise AnalysisError(f"only {n_funcs} functions reachable from execute_gasol (expected > 300): call graph broken")
    # identifier numbering iterates a dict in sorted order or insertion order — never a set (checked above); record the site
    f = ctx.func("sfs_generator.gasol_optimization.build_userdef_instructions")
    loops = [n for n in own_nodes(f.node) if isinstance(n, ast.For)]
    out.info["identifier_numbering_loop"] = [short(l.iter) for l in loops][:3]


# --------------------------------------------------------------------------------------------------- C13.b
FS_SINKS = {"open", "mkdir", "makedirs", "listdir", "rmtree", "exists", "isdir", "join", "remove", "print",
            "check_and_print_debug_info", "Path", "write_text", "to_csv", "system", "run", "Popen", "isfile", "chdir"}
SINK_MODULES = ("sfs_generator.", "greedy.", "solution_generation.", "verification.sfs_verify", "smt_encoding.json_with_dependencies",
                "smt_encoding.instructions.")
STABLE_PATHS = {"project_path", "gasol_exec", "z3_exec", "bclt_exec", "oms_exec", "tmp_path"}
CLOCK_NAMES = {"dtimer", "time", "perf_counter", "process_time", "getrusage", "default_timer", "now"}


def rule_b(ctx, out):
    reach = _reach(ctx)
    # (1) forbidden sources anywhere on the pipeline
    for q, f in sorted(reach.items()):
        for c in calls_in(f.node):
            cn = call_name(c)
            if cn in ("id", "hash") and isinstance(c.func, ast.Name):
                out.bad(f"nondeterministic-source:{cn}:{f.qual}", f"{cn}() is address/seed dependent", where(f, c))
            if isinstance(c.func, ast.Attribute) and isinstance(c.func.value, ast.Name) and c.func.value.id == "random":
                out.bad(f"nondeterministic-source:random:{f.qual}", "random.* on the pipeline", where(f, c))
            if cn in ("uuid4", "uuid1"):
                out.bad(f"nondeterministic-source:uuid:{f.qual}", "uuid generated inside a function on the pipeline", where(f, c))
    # (2) uuid: only global_params.paths, only into path strings
    pm = ctx.p.module("global_params.paths")
    uu = [n for n in ast.walk(pm.tree) if isinstance(n, ast.Call) and call_name(n) in ("uuid4", "uuid1")]
    if not uu:
        raise AnalysisError("uuid call not found in global_params.paths (anchor changed)")
    path_names = {t.id for st in pm.tree.body if isinstance(st, ast.Assign) for t in st.targets if isinstance(t, ast.Name)}
    out.ok({"uuid": "global_params.paths only", "names": len(path_names)})
    # taint: a value derived from paths.<name> must not reach a specification / emission sink (subscript store, dict display
    # that is stored or returned, return value) in the modules that build specifications, sequences or output items
    n_reads = 0
    for q, f in sorted(reach.items()):
        if not f.module.name.startswith(SINK_MODULES):
            continue
        def is_src(n):
            if isinstance(n, ast.Attribute) and isinstance(n.ctx, ast.Load):
                kind, qual = (ctx.r.resolve_attr_chain(f.module.name, n.value) if isinstance(n.value, ast.Attribute)
                              else ctx.r.resolve_name(f.module.name, n.value.id) if isinstance(n.value, ast.Name) else (None, None))
                return kind == "module" and qual == "global_params.paths" and n.attr in path_names and n.attr not in STABLE_PATHS
            return False
        srcs = [n for n in own_nodes(f.node) if is_src(n)]
        if not srcs:
            continue
        n_reads += len(srcs)
        tainted = set()

        def expr_tainted(e):
            return any(is_src(x) or (isinstance(x, ast.Name) and x.id in tainted) for x in ast.walk(e))
        changed = True
        while changed:
            changed = False
            for n in own_nodes(f.node):
                if isinstance(n, ast.Assign) and expr_tainted(n.value):
                    for t in n.targets:
                        for x in ast.walk(t):
                            if isinstance(x, ast.Name) and x.id not in tainted:
                                tainted.add(x.id)
                                changed = True
                elif isinstance(n, ast.Call) and isinstance(n.func, ast.Attribute) and n.func.attr in ("append", "extend", "add", "insert") \
                        and isinstance(n.func.value, ast.Name) and any(expr_tainted(a) for a in n.args) and n.func.value.id not in tainted:
                    tainted.add(n.func.value.id)
                    changed = True
        bad = None
        for n in own_nodes(f.node):
            if isinstance(n, ast.Assign) and any(isinstance(t, ast.Subscript) for t in n.targets) and expr_tainted(n.value):
                bad = n
            elif isinstance(n, ast.Return) and n.value is not None and expr_tainted(n.value):
                bad = n
            elif isinstance(n, ast.Call) and call_name(n) in ("AsmBytecode", "AsmBlock") and any(expr_tainted(a) for a in n.args):
                bad = n
        if bad is not None:
            out.bad(f"tmp-path-escapes:{f.qual.split('.', 1)[-1]}", f"a value derived from the per-process temporary path (fresh uuid) reaches "
                    f"`{short(bad)}` in {f.qual}", where(f, bad))
        else:
            out.ok({"function": f.qual, "temp_path_reads": len(srcs), "tainted_locals": sorted(tainted)})
    out.samples.append({"paths_attribute_reads_checked": n_reads})
    # (3) clocks: values flow only into names/keys mentioning time, prints, or differences of such
    n_clock = 0
    for q, f in sorted(reach.items()):
        for c in calls_in(f.node):
            cn = call_name(c)
            if cn in CLOCK_NAMES and (isinstance(c.func, ast.Name) or (isinstance(c.func, ast.Attribute) and isinstance(c.func.value, ast.Name)
                                                                      and c.func.value.id in ("time", "resource", "datetime", "timeit"))):
                n_clock += 1
                st = c
                while st is not None and not isinstance(st, ast.stmt):
                    st = getattr(st, "_parent", None)
                ok = False
                if isinstance(st, ast.Assign) and all(isinstance(t, ast.Name) for t in st.targets):
                    ok = True   # bound to a local; its uses are checked below
                    for t in st.targets:
                        if not _clock_var_ok(f, t.id):
                            ok = False
                elif isinstance(st, ast.Expr) or (isinstance(st, ast.Return)):
                    ok = isinstance(st, ast.Expr)
                if ok:
                    out.ok({"clock": short(c), "function": f.qual})
                else:
                    out.bad(f"clock-escapes:{f.qual.split('.', 1)[-1]}", f"clock value {short(c)} is used in `{short(st)}` (may reach an output)", where(f, c))
    out.samples.append({"clock_reads_checked": n_clock})
    # (3b) a measured time never decides anything: interprocedural taint (clock call -> locals -> returned tuple positions -> the
    # callers' unpacked locals, to a fixpoint); a tainted value in the test of an if / while / conditional expression / assert makes
    # the result depend on how fast the machine was
    ret_taint = {}          # qualname -> set of tainted return positions (None = the whole value)

    def clock_call(c):
        cn = call_name(c)
        return cn in CLOCK_NAMES and (isinstance(c.func, ast.Name) or (isinstance(c.func, ast.Attribute) and isinstance(c.func.value, ast.Name)
                                                                      and c.func.value.id in ("time", "resource", "datetime", "timeit")))

    def tainted_locals(f):
        t = set()
        changed = True
        while changed:
            changed = False
            for n in own_nodes(f.node):
                if not isinstance(n, (ast.Assign, ast.AugAssign)):
                    continue
                v = n.value
                targets = n.targets if isinstance(n, ast.Assign) else [n.target]
                whole = any(isinstance(x, ast.Call) and clock_call(x) for x in ast.walk(v)) or any(isinstance(x, ast.Name) and x.id in t for x in ast.walk(v))
                pos = set()
                if isinstance(v, ast.Call):
                    for callee in ctx.r.resolve_call(f, v):
                        pos |= ret_taint.get(callee.qual, set())
                for tg in targets:
                    if isinstance(tg, ast.Name) and (whole or None in pos) and tg.id not in t:
                        t.add(tg.id)
                        changed = True
                    elif isinstance(tg, ast.Tuple):
                        for i_, e in enumerate(tg.elts):
                            if isinstance(e, ast.Name) and (whole or i_ in pos or None in pos) and e.id not in t:
                                t.add(e.id)
                                changed = True
        return t
    for _ in range(4):
        for q, f in reach.items():
            t = tainted_locals(f)
            pos = set()
            for r in own_nodes(f.node):
                if isinstance(r, ast.Return) and r.value is not None:
                    def tn(e):
                        return any(isinstance(x, ast.Name) and x.id in t for x in ast.walk(e)) or any(isinstance(x, ast.Call) and clock_call(x) for x in ast.walk(e))
                    if isinstance(r.value, ast.Tuple):
                        pos |= {i_ for i_, e in enumerate(r.value.elts) if tn(e)}
                    elif tn(r.value):
                        pos.add(None)
            ret_taint[q] = pos
    n_tests = 0
    for q, f in sorted(reach.items()):
        t = tainted_locals(f)
        if not t:
            continue
        for n in own_nodes(f.node):
            test = n.test if isinstance(n, (ast.If, ast.While, ast.IfExp, ast.Assert)) else None
            if test is None:
                continue
            n_tests += 1
            used = sorted({x.id for x in ast.walk(test) if isinstance(x, ast.Name) and x.id in t})
            if used:
                out.bad(f"clock-decides-control-flow:{f.qual.split('.', 1)[-1]}:{'+'.join(used)}", f"{f.qual}: `{short(test, 70)}` tests {used}, measured CPU / wall-clock time: "
                        f"what the tool emits depends on the speed and load of the machine", where(f, n))
    out.samples.append({"functions_with_measured_times": sum(1 for q_ in ret_taint if ret_taint[q_]), "tests_examined_in_them": n_tests})
    # (4) os.listdir: only membership tests
    for q, f in sorted(reach.items()):
        for c in calls_in(f.node, "listdir"):
            p = getattr(c, "_parent", None)
            if isinstance(p, ast.Compare) and isinstance(p.ops[0], (ast.In, ast.NotIn)):
                out.ok({"listdir": short(p), "function": f.qual})
            else:
                out.bad(f"listdir-order:{f.qual.split('.', 1)[-1]}", f"os.listdir result used beyond a membership test: {short(p)}", where(f, c))


def _path_use_ok(n, f, local_path_vars):
    """The use of a temp-path value is inside a call to a file-system/debug function, or defines a local path string."""
    cur = n
    while cur is not None and not isinstance(cur, ast.stmt):
        cur = getattr(cur, "_parent", None)
        if isinstance(cur, ast.Call) and call_name(cur) in FS_SINKS:
            return True, ""
    st = cur
    if isinstance(st, ast.Assign) and len(st.targets) == 1 and isinstance(st.targets[0], ast.Name):
        # building a path string: value is a concatenation / f-string / join
        if isinstance(st.value, (ast.BinOp, ast.JoinedStr, ast.Attribute, ast.Call)):
            local_path_vars.add((st.targets[0].id, st))
            return True, ""
    if isinstance(st, (ast.With,)):
        return True, ""
    if isinstance(st, ast.If):
        return True, ""   # existence tests
    return False, short(st) if st is not None else "?"


def _clock_var_ok(f, name):
    """Every use of a clock-derived local is arithmetic with other clock locals, a print, a `round`, or a return /
    store under a name or key that says it is a time."""
    for n in own_nodes(f.node):
        if isinstance(n, ast.Name) and n.id == name and isinstance(n.ctx, ast.Load):
            st = n
            while st is not None and not isinstance(st, ast.stmt):
                st = getattr(st, "_parent", None)
            if isinstance(st, ast.Expr) and isinstance(st.value, ast.Call) and call_name(st.value) in ("print", "check_and_print_debug_info"):
                continue
            if isinstance(st, ast.Assign):
                tg = norm(st.targets[0]).lower()
                if "time" in tg or "usage" in tg or tg in ("end", "begin", "x", "y", "start", "stop"):
                    continue
                return False
            if isinstance(st, ast.Return):
                continue   # returned as the solver/greedy time component; consumers put it under *time* keys (statistics only)
            if isinstance(st, ast.AugAssign) and "time" in norm(st.target).lower():
                continue
            return False
    return True


def rule_c(ctx, out):
    """networkx keeps successors in sets: the order of `transitive_reduction(g).edges` depends on the hashes of the node labels.  For
    integer labels (positions in the access order) that order is the same in every process; for strings (instruction identifiers) it
    changes with the hash seed.  Every relation handed to a function that returns edges of a networkx result must therefore be a
    relation over positions: produced by generate_dependences (which only appends tuples of loop indices) or by such a function."""
    GO_ = "sfs_generator.gasol_optimization"
    # functions whose result is the edge list of a networkx graph
    edge_funcs = set()
    for f in ctx.p.functions.values():
        nx_names = {local for local, imp in ctx.r.imports.get(f.module.name, {}).items() if imp[0] == "module" and imp[1] == "networkx"}
        if not nx_names:
            continue
        uses_nx = any(isinstance(c.func, ast.Attribute) and isinstance(c.func.value, ast.Name) and c.func.value.id in nx_names for c in calls_in(f.node))
        returns_edges = any(isinstance(r, ast.Return) and r.value is not None and any(isinstance(x, ast.Attribute) and x.attr in ("edges", "nodes", "successors")
                                                                                       for x in ast.walk(r.value)) for r in own_nodes(f.node))
        if uses_nx and returns_edges:
            edge_funcs.add(f.name)
    if not edge_funcs:
        raise AnalysisError("no function returning the edges of a networkx graph found (simplify_dependences expected)")
    # generate_dependences: every pair it appends consists of integer index expressions
    gd = ctx.func(f"{GO_}.generate_dependences")
    rets = {r.value.id for r in own_nodes(gd.node) if isinstance(r, ast.Return) and isinstance(r.value, ast.Name)}
    int_names = {x.id for l in own_nodes(gd.node) if isinstance(l, ast.For) and isinstance(l.iter, ast.Call) and call_name(l.iter) == "range" for x in ast.walk(l.target)
                 if isinstance(x, ast.Name)}
    int_names |= {t.id for a in own_nodes(gd.node) if isinstance(a, (ast.Assign, ast.AugAssign))
                  for t in (a.targets if isinstance(a, ast.Assign) else [a.target]) if isinstance(t, ast.Name)
                  and isinstance(a.value, (ast.Constant, ast.BinOp, ast.Call)) and (not isinstance(a.value, ast.Constant) or isinstance(a.value.value, int))
                  and (not isinstance(a.value, ast.Call) or call_name(a.value) == "len")}

    def int_expr(e):
        if isinstance(e, ast.Constant):
            return isinstance(e.value, int)
        if isinstance(e, ast.Name):
            return e.id in int_names
        if isinstance(e, ast.BinOp) and isinstance(e.op, (ast.Add, ast.Sub)):
            return int_expr(e.left) and int_expr(e.right)
        return False
    apps = [c for c in calls_in(gd.node, "append") if isinstance(c.func, ast.Attribute) and isinstance(c.func.value, ast.Name) and c.func.value.id in rets]
    if len(apps) < 5:
        raise AnalysisError("generate_dependences: edge insertions not found")
    positional = all(c.args and isinstance(c.args[0], ast.Tuple) and all(int_expr(x) for x in c.args[0].elts) for c in apps)
    if positional:
        out.ok({"generate_dependences": "appends only pairs of integer positions", "sites": len(apps)})
    else:
        out.bad("generate_dependences:pairs-not-positions", "generate_dependences appends a pair that is not made of integer positions", where(gd))
    sources = {"generate_dependences"} | edge_funcs
    n = 0
    for f in ctx.p.functions.values():
        for c in calls_in(f.node):
            if call_name(c) not in edge_funcs or not c.args or f.name in edge_funcs:
                continue
            n += 1
            a = c.args[0]
            ok = False
            if isinstance(a, ast.Call) and call_name(a) in sources:
                ok = True
            elif isinstance(a, ast.Name):
                defs = [d for d in own_nodes(f.node) if isinstance(d, ast.Assign) and any(isinstance(t, ast.Name) and t.id == a.id for t in d.targets)]
                others = [d for d in own_nodes(f.node) if isinstance(d, ast.AugAssign) and isinstance(d.target, ast.Name) and d.target.id == a.id] + \
                         [m for m in calls_in(f.node) if isinstance(m.func, ast.Attribute) and isinstance(m.func.value, ast.Name) and m.func.value.id == a.id
                          and m.func.attr in ("append", "extend", "insert")]
                def positional(v):
                    if isinstance(v, ast.Call) and call_name(v) in sources:
                        return True
                    # a copy / re-ordering of the same relation
                    return isinstance(v, ast.Call) and call_name(v) in ("list", "sorted", "tuple") and len(v.args) == 1 and isinstance(v.args[0], ast.Name) and v.args[0].id == a.id
                ok = bool(defs) and not others and all(positional(d.value) for d in defs) and any(isinstance(d.value, ast.Call) and call_name(d.value) in sources for d in defs) \
                    and a.id not in f.params
            if ok:
                out.ok({"function": f.qual, "call": short(c, 60), "relation": "over positions"})
            else:
                out.bad(f"graph-order-over-identifiers:{f.name}:{call_name(c)}", f"{f.qual}: `{short(c, 70)}` hands a relation that is not known to be over integer positions to "
                        f"{call_name(c)}, whose result lists networkx edges in set order: for string identifiers that order depends on the hash seed", where(f, c))
    if n < 3:
        raise AnalysisError(f"only {n} uses of {sorted(edge_funcs)} found")


RULES = [
    ("C13.c", "graph-library edge orders only over integer positions", 4, rule_c),
    ("C13.a", "no order-sensitive iteration over a set of strings", 8, rule_a),
    ("C13.b", "uuid / clock / listdir values stay out of the outputs", 10, rule_b),
]
