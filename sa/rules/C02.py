"""C02 — the stack/memory specification denotes the block under every admissible schedule (scoped claim).

C02.a the alias decision are_dependent is a sound over-approximation: may-overlap => dep   (E8, exhaustive regions)
C02.b no may-overlap edge is suppressed in generate_dependences except where order is provably irrelevant
C02.c order-list construction: every store/keccak queued in the first pass is consumed by the same test in the second
C02.d the published dependences are generate_dependences(order, location) followed only by a transitive reduction
C02.e unification windows cover every access between the two unified ones
C02.f dependence scans are exhaustive
C02.g different address terms are dependent
C02.h memory/storage simplification preserves the access sequence's effect
C02.i exactly the dead loads leave the access order
"""
import ast
import itertools
import re

from ..core.flow import call_name, calls_in, is_name, reaching_defs
from ..core.interp import ModuleInterp
from ..core.loader import AnalysisError, short, own_nodes, norm, canon, function_locals
from ..core.minieval import Unsupported, Raised
from ..core.report import where

TECHNIQUE = ("finite-domain abstract evaluation of the alias decision over address-difference regions, compared with a "
             "byte-range overlap oracle; control-dependence analysis of the dependence edges; def-use provenance of the "
             "published dependence lists")
LEVEL_TEXT = ('Decides that two memory/storage accesses whose byte ranges or keys may overlap are always declared dependent '
              'by are_dependent (all kinds x all address classes x all orderings of constant offsets, enumerated '
              'completely), that generate_dependences turns every such answer into an ordering edge except in the cases '
              'listed, and that nothing but a transitive reduction stands between those edges and the specification. Load '
              'forwarding, dead-store and store-of-load elimination (simplify_memory) are examined by bounded refutation '
              'over access sequences of length <= 3 (quick) / 4 (thorough) against a reference memory model; '
              'unify_loads_instructions is examined the same way on sequences with at least two loads, byte stores included '
              '(C02.j).'
              ' Added in seeding rounds 8-9: forwarding windows of five accesses (C02.h), unify_keccak_instructions on every pair of hashes (C02.k), and the ids under which access positions are published (C02.l), all by abstract evaluation on finite families.')
EXPLANATION = ("Regions: access kinds {mstore, mstore8, mload, keccak256, sstore, sload}^2 (at least one write) x address "
               "class {constants with every difference d in [-70,70], same symbol, different symbols, symbol vs "
               "constant} x keccak length {0,1,2,31,32,33,64, symbolic}. Premise (checked): in the constant branch the "
               "addresses are only compared with each other plus integer literals <= 64, so every ordering is covered.")
NOT_DECIDED = ("correctness of simplify_memory beyond the sequence family and address grid of C02.h; "
               "use of the external non-aliasing analysis (extra_dep_info is empty in this pipeline)")
EXHAUSTIVE = True
ASSUMPTIONS = ["extra_dep_info == {} (no external analysis plugged in)", "mem40_pattern is the configuration constant False (checked by C12.a)",
               "widths: MSTORE/MLOAD 32 bytes, MSTORE8 1 byte, KECCAK256 reads [offset, offset+length)"]

GO = "sfs_generator.gasol_optimization"
WIDTH = {"mstore": 32, "mload": 32, "mstore8": 1}
WRITES = {"mstore", "mstore8", "sstore"}

TRIAGED_UNPROVEN = {
    "symbol~symbol:one-is-subterm-of-the-other":
        "are_dependent answers False when get_variables(var2) contains var1.  On today's tree get_variables recurses on the (tuple, arity) pair "
        "instead of the tuple, never reaches a leaf and the shortcut is dead.  That premise is *checked*: C02.a evaluates are_dependent on "
        "x vs x+1, x+31, x&y, mload(x), (x+1)+3 with u_dict filled accordingly and requires 'dependent'",
}


def _tuple(kind, addr, second):
    if kind in ("mload", "sload"):
        return ((addr, kind), 1)
    return ((addr, second, kind), 2)


def _range(kind, addr, second):
    if kind == "keccak256":
        return (addr, addr + second) if isinstance(second, int) else (addr, None)
    w = WIDTH[kind]
    return (addr, addr + w)


def _overlap(r1, r2):
    (a1, b1), (a2, b2) = r1, r2
    if b1 is None or b2 is None:
        # symbolic length: any length is possible, so overlap is possible iff the fixed range can be reached
        if b1 is None and b2 is None:
            return True
        if b1 is None:
            return a1 < b2 if b2 > a2 else False
        return a2 < b1 if b1 > a1 else False
    return a1 < b2 and a2 < b1 and b1 > a1 and b2 > a2


def rule_a(ctx, out):
    f = ctx.func(f"{GO}.are_dependent")
    # premise: integer addresses only inside comparisons
    lits = set()
    for n in own_nodes(f.node):
        if isinstance(n, ast.Name) and n.id in ("var1_int", "var2_int") and isinstance(n.ctx, ast.Load):
            cur = n
            ok = False
            while cur is not None and not isinstance(cur, ast.stmt):
                if isinstance(cur, ast.Compare):
                    ok = True
                    for c in ast.walk(cur):
                        if isinstance(c, ast.Constant) and isinstance(c.value, int):
                            lits.add(c.value)
                    break
                if isinstance(cur, ast.BinOp) and not isinstance(cur.op, (ast.Add, ast.Sub)):
                    break
                cur = getattr(cur, "_parent", None)
            if not ok:
                raise AnalysisError(f"are_dependent uses a constant address outside a comparison: {short(getattr(n, '_parent', n))} — region premise fails")
    if lits and max(abs(l) for l in lits) > 64:
        raise AnalysisError(f"are_dependent compares addresses with literal {max(lits)} > 64: the enumerated difference range is too small")
    out.info["address_literals"] = sorted(lits)
    mi = ModuleInterp(ctx)
    env = mi.module_env(GO)
    env["extra_dep_info"] = {}
    env["non_aliasing_disabled"] = False
    env["u_dict"] = {}
    env.setdefault("mem40_pattern", False)

    def call(t1, t2, loc):
        try:
            return bool(mi.call(f, t1, t2, 0, 1, loc))
        except Raised as e:
            return f"raises {e.what}"
        except Unsupported as e:
            raise AnalysisError(f"cannot evaluate are_dependent abstractly on {t1} {t2}: {e}")

    mem_kinds = ["mstore", "mstore8", "mload", "keccak256"]
    bad_regions = {}
    n = 0
    # ---- memory, constant addresses ------------------------------------------------------------
    for k1 in mem_kinds:
        for k2 in mem_kinds:
            if k1 not in WRITES and k2 not in WRITES:
                continue
            if "keccak256" in (k1, k2) and not ({"mstore", "mstore8"} & {k1, k2}):
                continue
            klens = [0, 1, 2, 31, 32, 33, 64, "s(9)"] + ([3, 30, 34, 63, 65, 96, 128] if ctx.tier == "thorough" else [])
            lens1 = klens if k1 == "keccak256" else [7]
            lens2 = klens if k2 == "keccak256" else [7]
            for l1 in lens1:
                for l2 in lens2:
                    for d in (range(-160, 161) if ctx.tier == "thorough" else range(-70, 71)):
                        a1, a2 = 100 + d, 100
                        t1, t2 = _tuple(k1, a1, l1), _tuple(k2, a2, l2)
                        got = call(t1, t2, "memory")
                        may = _overlap(_range(k1, a1, l1), _range(k2, a2, l2))
                        n += 1
                        if may and got is not True:
                            cls = "same-address" if d == 0 else "partial-overlap"
                            if "keccak256" in (k1, k2):
                                cls = "store-inside-hashed-range" if isinstance(l1 if k1 == "keccak256" else l2, int) else "symbolic-length"
                            bad_regions.setdefault((k1, k2, "const", cls), []).append((d, l1 if k1 == "keccak256" else l2 if k2 == "keccak256" else None, got))
    # ---- memory, symbolic addresses ---------------------------------------------------------------
    for k1 in mem_kinds:
        for k2 in mem_kinds:
            if k1 not in WRITES and k2 not in WRITES:
                continue
            if "keccak256" in (k1, k2) and not ({"mstore", "mstore8"} & {k1, k2}):
                continue
            for (a1, a2, cls) in (("s(1)", "s(1)", "same-symbol"), ("s(1)", "s(2)", "different-symbols"), ("s(1)", 64, "symbol-vs-constant"),
                                  (96, "s(2)", "symbol-vs-constant"), ("s(1)", 100, "symbol-vs-constant")):
                for ln in ([32, "s(9)"] if "keccak256" in (k1, k2) else [7]):
                    t1, t2 = _tuple(k1, a1, ln), _tuple(k2, a2, ln)
                    got = call(t1, t2, "memory")
                    n += 1
                    if got is not True:
                        bad_regions.setdefault((k1, k2, "symbolic", cls), []).append((str(a1), str(a2), got))
    # ---- an address computed from the other address (x and x+1, x+31, x & y, mload(x)): may overlap / be equal ------------------
    derived = {"s(5)": (("s(1)", 1, "+"), 2), "s(6)": (("s(1)", 31, "+"), 2), "s(7)": (("s(1)", "s(2)", "and"), 2), "s(8)": (("s(1)", "mload0"), 1),
               "s(10)": (("s(5)", 3, "+"), 2)}
    env["u_dict"] = dict(derived)
    for k1, k2, loc in (("mstore", "mstore", "memory"), ("mstore", "mload", "memory"), ("mload", "mstore", "memory"), ("mstore8", "mstore", "memory"),
                        ("sstore", "sstore", "storage"), ("sstore", "sload", "storage")):
        for d in ("s(5)", "s(6)", "s(7)", "s(8)", "s(10)"):
            if loc == "storage" and d in ("s(5)", "s(6)", "s(10)"):
                continue            # x and x+1 are different keys; x & y and sload(x) may equal x
            for a1, a2 in (("s(1)", d), (d, "s(1)")):
                got = call(_tuple(k1, a1, 7), _tuple(k2, a2, 7), loc)
                n += 1
                if got is not True:
                    bad_regions.setdefault((k1, k2, "symbolic", "address-computed-from-the-other"), []).append((str(a1), f"{a2} = {derived.get(a2, derived.get(a1))[0]}", got))
    env["u_dict"] = {}
    # ---- storage -----------------------------------------------------------------------------------------
    for k1 in ("sstore", "sload"):
        for k2 in ("sstore", "sload"):
            if k1 not in WRITES and k2 not in WRITES:
                continue
            for (a1, a2, cls, may) in ((5, 5, "same-key", True), (5, 6, "different-constant-keys", False), ("s(1)", "s(1)", "same-symbol", True),
                                       ("s(1)", "s(2)", "different-symbols", True), ("s(1)", 5, "symbol-vs-constant", True)):
                got = call(_tuple(k1, a1, 7), _tuple(k2, a2, 7), "storage")
                n += 1
                if may and got is not True:
                    bad_regions.setdefault((k1, k2, "storage", cls), []).append((str(a1), str(a2), got))
    out.instances += n
    out.satisfied += n - sum(len(v) for v in bad_regions.values())
    out.samples.append({"regions_enumerated": n})
    for (k1, k2, ac, cls), regs in sorted(bad_regions.items()):
        out.satisfied += 0
        ds = [r[0] for r in regs]
        out.bad(f"alias:{k1}~{k2}:{ac}:{cls}", f"are_dependent({k1} , {k2}) answers 'independent' for {len(regs)} {ac} region(s) of class {cls} "
                f"in which the two accesses overlap (e.g. address difference {ds[0]}..{ds[-1]}): the back-ends may reorder them",
                where(f), {"regions": [list(map(str, r)) for r in regs[:12]]})
    # subterm outcome of the symbol/symbol branch
    out.unproven.append({"site": "symbol~symbol:one-is-subterm-of-the-other", "reason": TRIAGED_UNPROVEN["symbol~symbol:one-is-subterm-of-the-other"]})


def rule_b(ctx, out):
    f = ctx.func(f"{GO}.generate_dependences")
    rets = {r.value.id for r in own_nodes(f.node) if isinstance(r, ast.Return) and isinstance(r.value, ast.Name)}
    if len(rets) != 1:
        raise AnalysisError("generate_dependences: the returned edge list was not identified")
    DEPS_NAME = rets.pop()
    # the locals that hold an answer of are_dependent
    DEPVARS = {t.id for n in own_nodes(f.node) if isinstance(n, ast.Assign) and isinstance(n.value, ast.Call) and call_name(n.value) == "are_dependent"
               for t in n.targets if isinstance(t, ast.Name)}
    if not DEPVARS:
        raise AnalysisError("generate_dependences: no variable holds the answer of are_dependent")
    appends = [c for c in calls_in(f.node, "append") if isinstance(c.func, ast.Attribute) and is_name(c.func.value, DEPS_NAME)]
    if len(appends) < 6:
        raise AnalysisError("generate_dependences: fewer than 6 edge insertions found")
    for c in appends:
        # enclosing conditions up to the function
        conds = []
        cur = c
        while cur is not None and cur is not f.node:
            p = getattr(cur, "_parent", None)
            if isinstance(p, ast.If):
                conds.append((p, cur in p.body or any(cur is x or cur in list(ast.walk(x)) for x in p.body)))
            cur = p
        texts = [(norm(p.test), pos) for p, pos in conds]
        has_dep = any(_is_dep_test(p.test, DEPVARS) and pos for p, pos in conds)
        if not has_dep:
            out.bad(f"edge-not-under-alias-decision:{canon(short(c, 40), function_locals(f.node))}", "an ordering edge is inserted without consulting are_dependent", where(f, c))
            continue
        extra_nodes = [(p.test, pos) for p, pos in conds if not _is_dep_test(p.test, DEPVARS) and ".find(" not in norm(p.test)]
        extra = [(norm(t), pos) for t, pos in extra_nodes]
        if not extra:
            out.ok({"edge": short(c), "condition": "dep"})
            continue
        # value-equality shortcut: `<a>[0][1] != <b>[0][1]` true branch is fine; its else branch needs justification
        shortcut = [(norm(t), pos) for t, pos in extra_nodes if _is_value_diff_test(t)]
        in_else = [t for t, pos in shortcut if not pos]
        if shortcut and not in_else:
            out.ok({"edge": short(c), "condition": "dep and values differ"})
            continue
        others = [t for t, pos in extra if (t, pos) not in shortcut]
        # inside the else (values equal): the edge is kept only under `others`
        kinds = []
        for t in others:
            if "are_dependent_variables" in t:
                kinds.append("address-depends-on-address")
            elif re.search(r"str\(\w+\) == str\(\w+\)", t) and "memory" in t:
                kinds.append("same-address-in-memory")
            else:
                kinds.append("other:" + t)
        out.ok({"edge": short(c), "condition": "dep and equal values and " + "/".join(kinds)})
    # every access class is compared in every needed direction: stores with earlier stores; hashes and loads with earlier and later stores
    top = [n for n in f.node.body if isinstance(n, ast.For)]
    if top:
        chain, cur = [], [s for s in top[0].body if isinstance(s, ast.If)]
        cur = cur[-1] if cur else None
        while isinstance(cur, ast.If):
            chain.append(cur.body)
            if len(cur.orelse) == 1 and isinstance(cur.orelse[0], ast.If):
                cur = cur.orelse[0]
            else:
                chain.append(cur.orelse)
                cur = None
        want = [("stores", 1), ("hashes", 2), ("loads", 2)]
        for (label, k), body in zip(want, chain):
            m = ast.Module(body=body, type_ignores=[])
            n_dec = len(calls_in(m, "are_dependent"))
            n_app = len([c for c in calls_in(m, "append") if isinstance(c.func, ast.Attribute) and is_name(c.func.value, DEPS_NAME)])
            if n_dec >= k and n_app >= k:
                out.ok({"class": label, "alias_decisions": n_dec, "edge_insertions": n_app})
            else:
                out.bad(f"missing-direction:{label}", f"{label} are compared with stores in {n_dec} direction(s) and produce edges at {n_app} site(s); "
                        f"{k} needed (earlier and later stores)", where(f))
    # the suppression itself: which may-overlap pairs get no edge?  equal values at different addresses
    supp = []
    for n in own_nodes(f.node):
        if isinstance(n, ast.If) and _is_value_diff_test(n.test) and n.orelse:
            # else branch = equal values; edges there are conditional
            kept = [norm(s.test) for s in n.orelse if isinstance(s, ast.If)]
            branch = "store/store" if any("are_dependent_variables" in k for k in kept) else "load/store"
            # load/store: elem[0][1] is the functor string of the load, never equal to a stored value -> shortcut is dead there
            supp.append((n, branch, kept))
    if not supp:
        out.ok({"suppression": "none"})
    for n, branch, kept in supp:
        if branch == "load/store":
            out.ok({"shortcut": "load/store", "note": "compares the load's functor with the stored value: never equal, shortcut is dead"})
            continue
        # store/store with equal values: sound for storage (same value under any aliasing), unsound for memory unless same address
        from ..core.flow import established_by_enclosing_ifs, compare_atom
        guarded_by_location = any(established_by_enclosing_ifs(n, f.node, compare_atom(prm, "storage")) for prm in f.params)
        if guarded_by_location:
            out.ok({"shortcut": "store/store equal values", "restricted_to": "storage"})
        else:
            out.bad("equal-value-shortcut-applies-to-memory", "two stores of the same value get no ordering edge unless their address expressions "
                    "depend on each other or are identical; for MSTORE at partially overlapping addresses the final bytes depend on the order",
                    where(f, n), {"kept_conditions": kept})


def _is_dep_test(t, depvars):
    return isinstance(t, ast.Name) and t.id in depvars


def _is_value_diff_test(t):
    """<a>[0][1] != <b>[0][1] : the stored values of two accesses differ"""
    def val(e):
        return isinstance(e, ast.Subscript) and norm(e.slice) == "1" and isinstance(e.value, ast.Subscript) and norm(e.value.slice) == "0" and isinstance(e.value.value, ast.Name)
    return isinstance(t, ast.Compare) and len(t.ops) == 1 and isinstance(t.ops[0], ast.NotEq) and val(t.left) and val(t.comparators[0])


def _ancestors_if(n, top):
    cur = getattr(n, "_parent", None)
    while cur is not None and cur is not top:
        if isinstance(cur, ast.If):
            yield cur
        cur = getattr(cur, "_parent", None)


def rule_c(ctx, out):
    f = ctx.func(f"{GO}.generate_storage_info")
    loops = [n for n in f.node.body if isinstance(n, ast.For)]
    if len(loops) < 2:
        raise AnalysisError("generate_storage_info: the two passes over the instructions were not found")

    def branches(loop):
        res = []
        for st in loop.body:
            cur = st
            while isinstance(cur, ast.If):
                needles = sorted({c.args[0].value for c in calls_in(cur.test, "find") if c.args and isinstance(c.args[0], ast.Constant)})
                body = ast.Module(body=cur.body, type_ignores=[])
                app = sorted({norm(c.func.value) for c in calls_in(body, "append") if isinstance(c.func, ast.Attribute)})
                pop = sorted({norm(c.func.value) for c in calls_in(body, "pop") if isinstance(c.func, ast.Attribute)})
                if needles:
                    res.append((tuple(needles), app, pop))
                cur = cur.orelse[0] if len(cur.orelse) == 1 and isinstance(cur.orelse[0], ast.If) else None
        return res
    first, second = branches(loops[0]), branches(loops[1])
    queued = {}
    for needles, app, pop in first:
        queued[needles] = [a for a in app if a.endswith("_seq")]
    alias = {}
    for n in own_nodes(f.node):
        if isinstance(n, ast.Assign) and isinstance(n.targets[0], ast.Name) and isinstance(n.value, ast.Call) and call_name(n.value) == "list" \
                and n.value.args and isinstance(n.value.args[0], ast.Name):
            alias[n.targets[0].id] = n.value.args[0].id
    for needles, seqs in sorted(queued.items()):
        match = [b for b in second if b[0] == needles]
        if not match:
            out.bad(f"order-list:{'|'.join(needles)}:not-consumed", f"instructions matching {needles} are queued in the first pass but no branch of the "
                    f"second pass consumes them", where(f))
            continue
        _, app2, pop2 = match[0]
        popped = sorted(alias.get(p, p) for p in pop2)
        if popped != sorted(seqs):
            out.bad(f"order-list:{'|'.join(needles)}:queue-mismatch", f"{needles}: queued into {sorted(seqs)} but popped from {popped}", where(f))
        else:
            out.ok({"needles": needles, "queues": seqs})
        orders = [a for a in app2 if a.endswith("_order")]
        want = {"sstore": ["storage_order"], "mstore": ["memory_order"]}.get(needles[0], ["memory_order", "storage_order"])
        if sorted(orders) == sorted(want):
            out.ok({"needles": needles, "appended_to": orders})
        else:
            out.bad(f"order-list:{'|'.join(needles)}:wrong-order-list", f"{needles}: appended to {orders}, expected {want}", where(f))
    # loads: each load branch appends to exactly its own order list
    for needles, app2, pop2 in second:
        if needles in (("sload",), ("mload",)):
            want = "storage_order" if needles == ("sload",) else "memory_order"
            if [a for a in app2 if a.endswith("_order")] == [want]:
                out.ok({"needles": needles, "appended_to": want})
            else:
                out.bad(f"order-list:{needles[0]}:wrong-order-list", f"{needles[0]} is not appended to {want} exactly", where(f))
    # test order: a store test must not be shadowed by an earlier test whose needle is a substring of it in one pass only
    o1 = [b[0] for b in first]
    o2 = [b[0] for b in second if b[0] in o1]
    if o1 == o2 or sorted(o1) == sorted(o2):
        out.ok({"passes": "same classification tests", "first": o1, "second": o2})
    else:
        out.bad("order-list:passes-classify-differently", f"first pass tests {o1}, second pass tests {o2}", where(f))


def rule_d(ctx, out):
    sd = ctx.func(f"{GO}.simplify_dependences")
    calls = [call_name(c) for c in calls_in(sd.node)]
    if "transitive_reduction" in calls and set(calls) <= {"transitive_reduction", "DiGraph", "list"}:
        out.ok({"simplify_dependences": "nx.transitive_reduction only"})
    else:
        out.bad("simplify_dependences:not-a-reduction", f"simplify_dependences calls {sorted(set(calls))}: only a reachability-preserving reduction is allowed", where(sd))
    rets = [r for r in own_nodes(sd.node) if isinstance(r, ast.Return)]
    red = {n.targets[0].id for n in own_nodes(sd.node) if isinstance(n, ast.Assign) and isinstance(n.targets[0], ast.Name)
           and isinstance(n.value, ast.Call) and call_name(n.value) == "transitive_reduction"}
    if rets and all(isinstance(r.value, ast.Call) and call_name(r.value) == "list" and len(r.value.args) == 1 and isinstance(r.value.args[0], ast.Attribute)
                    and r.value.args[0].attr == "edges" and isinstance(r.value.args[0].value, ast.Name) and r.value.args[0].value.id in red for r in rets):
        out.ok({"simplify_dependences": "returns the reduced edge list"})
    else:
        out.bad("simplify_dependences:returns-something-else", "simplify_dependences does not return the edges of the reduced graph", where(sd))
    # every write of the published lists
    n_w = 0
    for f in ctx.p.funcs_in(GO):
        decl = {x for n in own_nodes(f.node) if isinstance(n, ast.Global) for x in n.names}
        cfg = None
        for n in own_nodes(f.node):
            if isinstance(n, ast.Assign) and isinstance(n.targets[0], ast.Name) and n.targets[0].id in ("storage_dep", "memory_dep") and n.targets[0].id in decl:
                n_w += 1
                loc = "storage" if n.targets[0].id == "storage_dep" else "memory"
                v = n.value
                if isinstance(v, ast.List) and not v.elts:
                    out.ok({"writer": f.name, "value": "[] (reset)"})
                    continue
                if not isinstance(v, ast.Name):
                    out.bad(f"dependences-written-from:{f.name}:{loc}", f"{n.targets[0].id} = {short(v)}: not the reduced output of generate_dependences", where(f, n))
                    continue
                cfg = cfg or ctx.cfg(f)
                at = cfg.stmt_node(n)
                ok = True
                chain = []
                for d in reaching_defs(cfg, v.id, at):
                    a = d.ast
                    if d.kind != "stmt" or not isinstance(a, ast.Assign) or not (isinstance(a.value, ast.Call) and call_name(a.value) == "simplify_dependences"):
                        ok = False
                        chain.append(short(a) if a is not None else "entry")
                        continue
                    arg = a.value.args[0]
                    # the argument's reaching definitions: generate_dependences(<order>, "<loc>")
                    for d2 in reaching_defs(cfg, arg.id, d) if isinstance(arg, ast.Name) else []:
                        a2 = d2.ast
                        good = d2.kind == "stmt" and isinstance(a2, ast.Assign) and isinstance(a2.value, ast.Call) and call_name(a2.value) == "generate_dependences" \
                            and len(a2.value.args) == 2 and isinstance(a2.value.args[1], ast.Constant) and a2.value.args[1].value == loc \
                            and norm(a2.value.args[0]) == f"{loc}_order"
                        if not good and not (d2 is d):
                            ok = False
                            chain.append(short(a2) if a2 is not None else "entry")
                if ok:
                    out.ok({"writer": f.name, "list": n.targets[0].id, "provenance": f"simplify_dependences(generate_dependences({loc}_order, '{loc}'))"})
                else:
                    out.bad(f"dependences-written-from:{f.name}:{loc}", f"{n.targets[0].id} can hold something else than the reduced output of "
                            f"generate_dependences({loc}_order, '{loc}'): {chain}", where(f, n))
            # in-place removal from the published lists
            if isinstance(n, ast.Call) and isinstance(n.func, ast.Attribute) and n.func.attr in ("remove", "pop", "clear") \
                    and isinstance(n.func.value, ast.Name) and n.func.value.id in ("storage_dep", "memory_dep") and n.func.value.id in decl:
                out.bad(f"dependence-removed-in-place:{f.name}", f"{short(n)} deletes an ordering edge after generation", where(f, n))
    if n_w < 4:
        raise AnalysisError("fewer than 4 writes of storage_dep/memory_dep found")


def rule_e(ctx, out):
    """Unification of two equal loads / hashes: the accesses examined for an intervening dependent store are exactly those strictly
    between the two unified accesses.  Idiom: P = L[a::].index(second); window = L[lo:up]; ...; L.pop(Q).
    Required: lo == a, Q == a + P, up == Q (as linear forms over the index variables)."""
    from ..core.idioms import linear_form
    n = 0
    for f in ctx.p.funcs_in(GO):
        idx = {}      # name -> (list name, start expr)
        for st in own_nodes(f.node):
            if isinstance(st, ast.Assign) and isinstance(st.targets[0], ast.Name) and isinstance(st.value, ast.Call) and call_name(st.value) == "index" \
                    and isinstance(st.value.func.value, ast.Subscript) and isinstance(st.value.func.value.slice, ast.Slice) \
                    and isinstance(st.value.func.value.value, ast.Name) and st.value.func.value.slice.lower is not None and st.value.func.value.slice.upper is None:
                idx[st.targets[0].id] = (st.value.func.value.value.id, st.value.func.value.slice.lower, st)
        for pname, (lname, start, pst) in idx.items():
            wins = [st for st in own_nodes(f.node) if isinstance(st, ast.Assign) and isinstance(st.value, ast.Subscript) and is_name(st.value.value, lname)
                    and isinstance(st.value.slice, ast.Slice) and st.value.slice.upper is not None
                    and any(is_name(x, pname) for x in ast.walk(st.value.slice.upper))]
            pops = [c for c in calls_in(f.node, "pop") if isinstance(c.func, ast.Attribute) and is_name(c.func.value, lname) and c.args
                    and any(is_name(x, pname) for x in ast.walk(c.args[0]))]
            if not wins or not pops:
                continue
            n += 1
            a = linear_form(start)
            want = dict(a or {})
            want[pname] = want.get(pname, 0) + 1
            for w in wins:
                lo, up = linear_form(w.value.slice.lower) if w.value.slice.lower is not None else {}, linear_form(w.value.slice.upper)
                ok_lo = lo == a
                ok_up = up == want
                if ok_lo and ok_up:
                    out.ok({"function": f.name, "window": short(w.value), "between": f"{norm(start)} .. {norm(start)} + {pname}"})
                else:
                    out.bad(f"forwarding-window:{f.name}:{norm(w.value.slice.lower) if w.value.slice.lower else ''}:{norm(w.value.slice.upper)}",
                            f"{f.name}: the second access is at position {norm(start)} + {pname}, but the accesses checked for a dependent store are "
                            f"`{short(w.value)}`: an access strictly between the two unified ones is skipped (or one outside is included)", where(f, w))
            for c in pops:
                if linear_form(c.args[0]) == want:
                    out.ok({"function": f.name, "removed": short(c)})
                else:
                    out.bad(f"forwarding-window:{f.name}:pop:{norm(c.args[0])}", f"{f.name} removes position {norm(c.args[0])}, the unified access is at "
                            f"{norm(start)} + {pname}", where(f, c))
    if n < 2:
        raise AnalysisError(f"only {n} unification windows found (expected loads and hashes)")


def rule_f(ctx, out):
    """Every earlier / later store is examined: the scans of generate_dependences are bounded only by the index, never by a flag
    that is set when a dependence was found."""
    f = ctx.func(f"{GO}.generate_dependences")
    deps = {t.id for n in own_nodes(f.node) if isinstance(n, ast.Assign) and isinstance(n.value, ast.Call) and call_name(n.value) == "are_dependent"
            for t in n.targets if isinstance(t, ast.Name)}
    # a scan = a loop (while over an index, or for over a range) in whose body are_dependent is consulted
    loops = [n for n in own_nodes(f.node) if isinstance(n, (ast.While, ast.For)) and n is not f.node.body[0]
             and any(call_name(c) == "are_dependent" for st in n.body for c in calls_in(st))
             and not any(isinstance(x, (ast.While, ast.For)) and any(call_name(c) == "are_dependent" for c in calls_in(x)) for st in n.body for x in ast.walk(st))]
    if len(loops) < 5:
        raise AnalysisError("generate_dependences: fewer than 5 scan loops found")
    for l in loops:
        head = l.test if isinstance(l, ast.While) else l.iter
        tv = {x.id for x in ast.walk(head) if isinstance(x, ast.Name)}
        # names assigned somewhere under an `if <answer of are_dependent>` inside this loop
        flags = set()
        for st in ast.walk(l):
            if isinstance(st, ast.If) and deps & {x.id for x in ast.walk(st.test) if isinstance(x, ast.Name)}:
                for a in ast.walk(st):
                    if isinstance(a, ast.Assign):
                        flags |= {t.id for t in a.targets if isinstance(t, ast.Name)}
        early = [b for b in ast.walk(l) if isinstance(b, (ast.Break, ast.Return))]
        if tv & flags or early:
            out.bad(f"scan-stops-at-first-dependence:{canon(short(head, 40), function_locals(f.node))}", f"the scan `{short(head, 50)}` ends as soon as one dependent store "
                    f"was found: other stores the access may alias get no ordering edge", where(f, l))
        else:
            out.ok({"scan": short(head, 40), "bounded_by": sorted(tv)})


def rule_g(ctx, out):
    """are_dependent_variables is the last test before the order edge between two stores of equal value is dropped; it must say
    "dependent" whenever the two addresses are not provably the same and not both constants.  Decided by abstract evaluation of
    the function's AST (own interpreter, nothing imported) over one representative per class of address pair; stack variables are
    named s(N) by the front-end (assumption), which matters because the function inspects the names."""
    from ..core.interp import ModuleInterp
    from ..core.minieval import Unsupported, Raised
    f = ctx.func(f"{GO}.are_dependent_variables")
    mi = ModuleInterp(ctx)
    env = mi.module_env(GO)
    cases = [
        # (description, u_dict, v1, v2, expected)
        ("two different input variables", {}, "s(0)", "s(1)", True),
        ("two different input variables, other digits", {}, "s(3)", "s(12)", True),
        ("input variable vs computed address", {"s(5)": (("s(1)", 32), "+")}, "s(0)", "s(5)", True),
        ("address computed from the other address", {"s(5)": (("s(1)", 32), "+")}, "s(5)", "s(1)", True),
        ("address computed from the other address (swapped)", {"s(5)": (("s(1)", 32), "+")}, "s(1)", "s(5)", True),
        ("two addresses sharing an operand", {"s(5)": (("s(1)", 32), "+"), "s(6)": (("s(1)", 64), "+")}, "s(5)", "s(6)", True),
        ("constant vs variable", {}, 64, "s(1)", True),
        ("variable vs constant", {}, "s(1)", 64, True),
        ("same variable", {}, "s(2)", "s(2)", False),
        ("two constants", {}, 0, 64, False),
    ]
    for desc, ud, v1, v2, exp in cases:
        env["u_dict"] = dict(ud)
        try:
            got = mi.call(f, v1, v2)
        except (Unsupported, Raised) as e:
            raise AnalysisError(f"cannot evaluate are_dependent_variables({v1!r}, {v2!r}): {e}")
        if bool(got) == exp:
            out.ok({"case": desc, "v1": v1, "v2": v2, "result": bool(got)})
        elif exp:
            out.bad(f"are_dependent_variables:independent:{desc}", f"are_dependent_variables({v1!r}, {v2!r}) with u_dict = {ud} answers {got!r}: {desc} may denote "
                    f"overlapping locations, and the order edge between two equal-valued stores is dropped on this answer", where(f), {"u_dict": repr(ud)})
        else:
            out.ok({"case": desc, "result": bool(got), "note": "stricter than required"})
    env.pop("u_dict", None)


def rule_h(ctx, out):
    """simplify_memory (load forwarding, dead-store elimination, store-of-load elimination) preserves what the access sequence does:
    interpreted on every access sequence of a finite family and compared with a reference memory model under a grid of address
    assignments (sa/core/memrules.py).  Bounded refutation: a defect that needs a longer sequence or another address relation is
    not found."""
    from ..core import memrules as mr
    entry = f"{GO}.simplify_memory"
    eng = mr.MemEngine(ctx, entry, GO)
    total = {"sequences": 0, "rewritten": 0}
    fails = []
    for loc in ("memory", "storage"):
        sym = ["s(0)", "s(1)"]
        if ctx.tier == "thorough":
            fams = [(4, sym + (["32"] if loc == "memory" else ["1"]), ["s(2)", "7"], False, True),
                    (3, sym + (["0", "1", "32"] if loc == "memory" else ["0", "1"]), ["s(2)", "7"], True, True)]
        else:
            fams = [(3, sym + (["32"] if loc == "memory" else ["1"]), ["s(2)", "7"], False, True),
                    (2, ["s(0)", "0", "1"], ["s(2)"], True, False)]
        # forwarding windows of 5 accesses (store A ; 3 accesses ; load A): quick over two symbolic addresses and one constant value,
        # thorough with a constant address and a symbolic value as well
        # (constant addresses matter: only there the alias test answers "independent", and a pardon can land on the wrong access)
        const = ["64", "s(1)", "0"] if loc == "memory" else ["1", "s(1)", "0"]
        if ctx.tier == "thorough":
            fams.append(("windows", 3, sym + (["32"] if loc == "memory" else ["1"]), ["7", "s(3)"], True))
            fams.append(("windows", 3, const, ["7", "s(3)"], True))
        else:
            fams.append(("windows", 3, sym, ["7"], True))
            fams.append(("windows", 3, const, ["7"], True))
        for params in fams:
            if ctx.tier == "thorough":
                st, fl = mr.examine_parallel(ctx, entry, GO, loc, params)
            else:
                st, fl = mr.examine(eng, loc, mr.windows(loc, *params[1:]) if params[0] == "windows" else mr.sequences(loc, *params))
            for k in total:
                total[k] += st[k]
            fails += [(loc, s_, r) for s_, r in fl]
    out.info["memory_simplification"] = dict(total, address_grid=mr.GRID, tier=ctx.tier)
    if total["rewritten"] < 500:
        raise AnalysisError(f"simplify_memory rewrote only {total['rewritten']} sequences of the family")
    fails.sort(key=lambda t: (t[0], t[2]["mismatch"]["kind"], len(t[1]), t[1]))
    seen = set()
    for loc, seq, r in fails:
        rule = re.sub(r"\(.*\)", "", r["rules"][0]).strip() if r["rules"] else "?"
        rule = "forwarding" if "=" in (r["rules"][0] if r["rules"] else "") else "store-of-load" if "of mload" in rule else "dead-store" if "useless" in rule else rule
        key = (loc, rule, r["mismatch"]["kind"])
        if key in seen:
            out.instances += 1
            continue
        seen.add(key)
        out.bad(f"memory-simplification:{loc}:{rule}:{r['mismatch']['kind']}", f"simplify_memory rewrites [{seq}] into [{r['mismatch'].get('after', '?')}] "
                f"({'; '.join(r['rules'][:2])}): {r['mismatch'].get('what')}" + (f" when the addresses are {r['mismatch']['addresses']}" if r['mismatch'].get('addresses') else ""),
                where(ctx.func(entry)), {"sequence": seq, "mismatch": r["mismatch"], "rules": r["rules"]})
    good = total["rewritten"] - len(fails)
    out.instances += good
    out.satisfied += good
    out.samples.append({"sequences_examined": total["sequences"], "rewritten_and_equivalent": good})


def rule_i(ctx, out):
    """When rules make the result of a load unused, update_storage_sequences takes that load out of the access order and
    re-derives the dependences.  Exactly the removed loads may leave the order: a load that is still used and loses its entry loses
    its ordering against the stores around it.  Decided by abstract evaluation on every access sequence of a small family and every
    non-empty set of its loads declared unused."""
    import itertools
    from ..core import memrules as mr
    from ..core.interp import ModuleInterp
    from ..core.minieval import Unsupported, Raised
    f = ctx.func(f"{GO}.update_storage_sequences")
    # the transitive reduction (networkx) does not touch the order lists examined here
    mi = ModuleInterp(ctx, max_steps=400000, extern={"simplify_dependences": lambda d: d})
    env = mi.module_env(GO)
    n = 0
    for loc, ld in (("memory", "MLOAD"), ("storage", "SLOAD")):
        thorough = ctx.tier == "thorough"
        addrs = (["s(0)", "s(1)", "32"] if loc == "memory" else ["s(0)", "s(1)", "1"]) if thorough else ["s(0)", "32" if loc == "memory" else "1"]
        for seq in mr.sequences(loc, 3, addrs, ["s(2)"], False, thorough and loc == "memory"):
            loads = [e for e in seq if e[0][-1].startswith(("mload", "sload"))]
            if not loads:
                continue
            for r in range(1, len(loads) + 1):
                for removed in itertools.combinations(range(len(loads)), r):
                    n += 1
                    u_dict = {f"s({100 + k})": e for k, e in enumerate(loads)}
                    recs = [{"id": f"{ld}_{k}", "disasm": ld, "inpt_sk": [loads[k][0][0]], "outpt_sk": [f"s({100 + k})"], "storage": False} for k in removed]
                    order = [(tuple(e[0]), e[1]) for e in seq]
                    env.update(extra_dep_info={}, debug=False, u_dict=u_dict, non_aliasing_disabled=False, storage_dep=[], memory_dep=[],
                               memory_order=list(order) if loc == "memory" else [], storage_order=list(order) if loc == "storage" else [])
                    got_plain = ([], [])
                    try:
                        mi.call(f, [dict(r) for r in recs], False, 2)
                        got_plain = (list(env["memory_order"]), list(env["storage_order"]))
                    except Raised as e:
                        out.bad(f"order-after-dead-loads:{loc}:raises", f"update_storage_sequences raises {e.what} on [{mr.show(seq)}] with loads {removed} unused", where(f))
                        continue
                    except Unsupported as e:
                        raise AnalysisError(f"update_storage_sequences: cannot evaluate abstractly on [{mr.show(seq)}]: {e}")
                    # the same call with the re-simplification switched on: the store instructions were generated from this sequence
                    # before (the i-th store is <LOC>STORE_i), so whatever the simplification does now, the stores of the order must stay
                    # the same ones — or the function must give up (raise: the block is then kept unoptimized)
                    env.update(extra_dep_info={}, debug=False, u_dict=dict(u_dict), non_aliasing_disabled=False, storage_dep=[], memory_dep=[],
                               variable_content={f"o{k}": f"s({100 + k})" for k in range(len(loads))}, gas_store_op=0, gas_memory_op=0, discount_op=0, rule_applied=False,
                               rules_applied=[], memory_opt=[False] * 3, storage_opt=[False] * 3, mem_delete_pos=[], sto_delete_pos=[],
                               memory_order=list(order) if loc == "memory" else [], storage_order=list(order) if loc == "storage" else [])
                    try:
                        mi.call(f, [dict(r) for r in recs], True, 2)
                        after = env["memory_order"] if loc == "memory" else env["storage_order"]
                        st_before = [e for e in order if "store" in e[0][-1]]
                        st_after = [e for e in after if "store" in e[0][-1]]
                        n += 1
                        if len(st_after) == len(st_before):
                            out.ok()
                        else:
                            out.bad(f"order-after-dead-loads:{loc}:store-dropped-after-rules", f"update_storage_sequences (re-simplifying) on [{mr.show(seq)}] with the result of "
                                    f"load #{removed} unused leaves the stores [{mr.show(st_after)}] of [{mr.show(st_before)}] in the order: the store instructions "
                                    f"were numbered from the order before, so instructions and dependences no longer correspond (a store without any ordering)", where(f),
                                    {"sequence": mr.show(seq), "unused_loads": list(removed), "order_after": mr.show(after)})
                    except Raised:
                        n += 1
                        out.ok()      # gives up: contained, the block is kept
                    except Unsupported as e:
                        raise AnalysisError(f"update_storage_sequences (with simplification): cannot evaluate abstractly on [{mr.show(seq)}]: {e}")
                    env.update(memory_order=list(got_plain[0]), storage_order=list(got_plain[1]))
                    got = env["memory_order"] if loc == "memory" else env["storage_order"]
                    gone = [loads[k] for k in removed]
                    want = [e for e in order if e not in gone]
                    if got == want:
                        out.ok()
                    else:
                        lost = [e for e in want if e not in got]
                        kept = [e for e in got if e in gone]
                        what = f"the still-used access {mr.show(lost[:1])} leaves the order" if lost else f"the unused load {mr.show(kept[:1])} stays in the order" if kept else "the order is permuted"
                        out.bad(f"order-after-dead-loads:{loc}:{'used-load-dropped' if lost else 'unused-load-kept' if kept else 'permuted'}",
                                f"update_storage_sequences on [{mr.show(seq)}] with the result of load #{removed} unused: {what}", where(f),
                                {"sequence": mr.show(seq), "unused_loads": list(removed), "order_after": mr.show(got)})
    out.samples.append({"sequences_x_unused_sets": n})
    if n < 150:
        raise AnalysisError(f"only {n} cases enumerated")


def rule_j(ctx, out):
    """unify_loads_instructions merges two loads of the same address into one; that is sound only if no write between them may touch
    the loaded location (a word store, a *byte* store, a store at a may-alias symbolic address).  The function is interpreted on every
    access sequence of a finite family (byte stores included) and the sequence before and after is run on the reference memory model
    under the address grid: what every load's consumer sees must not change."""
    from ..core import memrules as mr
    entry = f"{GO}.unify_loads_instructions"
    eng = mr.MemEngine(ctx, entry, GO, args=lambda work, location: (work, location))
    total = {"sequences": 0, "rewritten": 0}
    fails = []
    for loc in ("memory", "storage"):
        addrs = ["s(0)", "s(1)", "32"] if loc == "memory" else ["s(0)", "s(1)", "1"]
        st, fl = mr.examine(eng, loc, (s_ for s_ in mr.sequences(loc, 3, addrs, ["s(2)"], loc == "memory", False)
                                      if sum(1 for e in s_ if e[0][-1].startswith(("mload", "sload"))) >= 2))
        for k in total:
            total[k] += st[k]
        fails += [(loc, s_, r) for s_, r in fl]
    out.info["load_unification"] = dict(total, address_grid=mr.GRID)
    if total["rewritten"] < 10:
        raise AnalysisError(f"unify_loads_instructions merged loads in only {total['rewritten']} sequences of the family")
    seen = set()
    for loc, seq, r in sorted(fails, key=lambda t: (t[0], len(t[1]), t[1])):
        kinds = ("mstore8", "mstore", "mload", "sstore", "sload", "keccak256")
        between = sorted({next((k for k in kinds if e.startswith(k)), e.split("(")[0]) for e in seq.split(" ; ")[1:-1]}) or ["nothing"]
        key = (loc, r["mismatch"]["kind"], tuple(between))
        if key in seen:
            out.instances += 1
            continue
        seen.add(key)
        out.bad(f"load-unification:{loc}:across-{'+'.join(between)}:{r['mismatch']['kind']}", f"unify_loads_instructions rewrites [{seq}] into "
                f"[{r['mismatch'].get('after', '?')}]: {r['mismatch'].get('what')}" + (f" when the addresses are {r['mismatch']['addresses']}" if r['mismatch'].get('addresses') else ""),
                where(ctx.func(entry)), {"sequence": seq, "mismatch": r["mismatch"]})
    good = total["rewritten"] - len(fails)
    out.instances += good
    out.satisfied += good
    out.samples.append({"sequences_examined": total["sequences"], "merged_and_equivalent": good})


def rule_k(ctx, out):
    """unify_keccak_instructions merges two hashes into one (every use of the second becomes a use of the first).  Sound only if both read
    the same bytes: same offset, same *length*, and no write between them that may touch the range.  The function is interpreted on every
    pair of hashes (offsets and lengths equal or different) with nothing, a word store or a byte store between them; where the second hash
    disappears, the bytes the two read on the reference memory model must be identical under every address assignment of the grid."""
    from ..core import memrules as mr
    from ..core.interp import ModuleInterp
    from ..core.minieval import Unsupported, Raised
    entry = ctx.func(f"{GO}.unify_keccak_instructions")
    mi = ModuleInterp(ctx, max_steps=400000)
    env = mi.module_env(GO)
    offs, lens = ["s(0)", "s(1)", "0"], ["32", "64"]
    mids = [None] + [((a, "s(2)", k), 2) for a in ("s(0)", "s(1)", "0", "40", "100") for k in ("mstore", "mstore8")]
    n = merged = 0
    seen = set()
    for a1, l1, a2, l2, mid in itertools.product(offs, lens, offs, lens, mids):
        h1, h2 = ((a1, l1, "keccak2560"), 2), ((a2, l2, "keccak2561"), 2)
        before = [h1] + ([mid] if mid else []) + [h2]
        work = list(before)
        env.update(extra_dep_info={}, debug=False, u_dict={"u0": h1, "u1": h2}, variable_content={"o0": "u0", "o1": "u1"}, gas_store_op=0, gas_memory_op=0,
                   discount_op=0, rule_applied=False, rules_applied=[], memory_opt=[False] * 3, storage_opt=[False] * 3, mem_delete_pos=[], sto_delete_pos=[],
                   non_aliasing_disabled=False, memory_order=[], storage_order=[])
        n += 1
        try:
            mi.call(entry, work, [], "memory")
        except Raised as e:
            key = f"keccak-unification:raises:{e.what}"
            if key not in seen:
                seen.add(key)
                out.bad(key, f"unify_keccak_instructions raises {e.what} on [{mr.show(before)}]", where(entry))
            continue
        except Unsupported as e:
            raise AnalysisError(f"unify_keccak_instructions cannot be interpreted on [{mr.show(before)}]: {e}")
        if len(work) == len(before):
            out.ok({"sequence": mr.show(before), "merged": False}) if n % 40 == 0 else None
            out.instances += 0 if n % 40 == 0 else 1
            out.satisfied += 0 if n % 40 == 0 else 1
            continue
        merged += 1
        what = None
        for sigma in mr.assignments(before):
            ob = {}
            mr.Ref("memory", sigma, {}).run(before, ob)
            if ob["keccak2560"] != ob["keccak2561"]:
                what = (sigma, len(ob["keccak2560"]), len(ob["keccak2561"]))
                break
        if what is None:
            out.ok({"sequence": mr.show(before), "merged": True})
            continue
        kind = "length-differs" if l1 != l2 else "offset-differs" if a1 != a2 else f"across-{mid[0][-1]}"
        key = f"keccak-unification:{kind}"
        if key in seen:
            out.instances += 1
            continue
        seen.add(key)
        out.bad(key, f"unify_keccak_instructions merges the two hashes of [{mr.show(before)}] (the second one disappears and its uses read the first), but "
                f"with the addresses {what[0]} they hash different bytes ({what[1]} vs {what[2]} bytes read)", where(entry), {"sequence": mr.show(before)})
    out.info["keccak_unification"] = {"pairs": n, "merged": merged}
    if merged < 6:
        raise AnalysisError(f"unify_keccak_instructions merged only {merged} of {n} pairs of hashes")


def rule_l(ctx, out):
    """The dependences are published under instruction ids: compute_identifiers_storage_instructions turns the positions of the access
    order into ids by counting, and the store instructions themselves are numbered per kind (MSTORE_k, MSTORE8_k, SSTORE_k) in order of
    appearance.  Interpreted on store sequences that mix word and byte stores: the k-th word store must be called MSTORE_k and the k-th
    byte store MSTORE8_k — a byte store numbered with the other counter attaches its ordering pairs to a different instruction."""
    import itertools as it
    f = ctx.func(f"{GO}.compute_identifiers_storage_instructions")
    mi = ModuleInterp(ctx, max_steps=100000)
    env = mi.module_env(GO)
    n = 0
    seen = set()
    for loc, kinds in (("memory", ("mstore", "mstore8")), ("storage", ("sstore",))):
        for k in (1, 2, 3, 4):
            for combo in it.product(kinds, repeat=k):
                seq = [((f"a{i}", f"v{i}", kind), 2) for i, kind in enumerate(combo)]
                env.update(u_dict={}, debug=False)
                try:
                    got = mi.call(f, list(seq), loc, [])
                except Raised as e:
                    key = f"access-ids:raises:{e.what.split(' ')[0]}"
                    if key not in seen:
                        seen.add(key)
                        out.bad(key, f"compute_identifiers_storage_instructions raises {e.what} on the stores {list(combo)}", where(f))
                    continue
                except Unsupported as e:
                    raise AnalysisError(f"compute_identifiers_storage_instructions cannot be interpreted on {list(combo)}: {e}")
                n += 1
                cnt = {}
                want = []
                for kind in combo:
                    want.append(f"{kind.upper()}_{cnt.get(kind, 0)}")
                    cnt[kind] = cnt.get(kind, 0) + 1
                if list(got) == want:
                    out.ok()
                else:
                    bad = next(i for i, (g_, w_) in enumerate(zip(list(got) + [None] * len(want), want)) if g_ != w_)
                    key = f"access-ids:{combo[bad]}-numbered-wrongly"
                    if key in seen:
                        out.instances += 1
                        continue
                    seen.add(key)
                    out.bad(key, f"for the stores {list(combo)} the access order is published under the ids {list(got)}; the instructions are called {want}: "
                            f"the ordering pairs of a {combo[bad]} name another instruction", where(f))
    if n < 30:
        raise AnalysisError(f"only {n} store sequences evaluated")


RULES = [
    ("C02.l", "access positions are published under the ids the store instructions carry", 30, rule_l),
    ("C02.k", "merging two hashes needs the same offset, the same length and no possibly-overlapping write between them", 6, rule_k),
    ("C02.j", "merging two loads of one address needs no possibly-overlapping write between them (byte stores included)", 10, rule_j),
    ("C02.i", "exactly the dead loads leave the access order", 150, rule_i),
    ("C02.h", "memory/storage simplification preserves the access sequence's effect", 500, rule_h),
    ("C02.g", "different address terms are dependent", 10, rule_g),
    ("C02.e", "unification windows cover every access between the two unified ones", 2, rule_e),
    ("C02.f", "dependence scans are exhaustive", 5, rule_f),
    ("C02.a", "alias decision over-approximates byte overlap", 3000, rule_a),
    ("C02.b", "no may-overlap edge suppressed", 8, rule_b),
    ("C02.c", "order lists are built consistently by the two passes", 6, rule_c),
    ("C02.d", "published dependences = transitive reduction of generate_dependences", 6, rule_d),
]
