"""C12 — a block's result does not depend on what was processed before it (structural claim for module state).

C12.a stale-global analysis (E4): no mutable module global of the front-end can be read by a per-block entry point
      before that entry point re-binds it, except configuration constants, parameter-derived flags, idempotent
      updates and confined accumulators (which can only flow into each other)
C12.b entry sequencing: what get_sfs_dict reads is definitely assigned by evm2rbr_compiler
C12.c process-wide singletons / class-level state are idempotent; mutable constants are read as module attributes
C12.d other module-level state on the per-block path (greedy `verbose`, ...) is assigned before it is read
C12.e no other module keeps run-time state across blocks
C12.f no written mutable default argument
C12.g per-block parser state is renewed at every block boundary
"""
import ast

from ..core.globals import GlobalFacts
from ..core.flow import call_name, calls_in, is_name, node_calls
from ..core.loader import AnalysisError, short, own_nodes, norm
from ..core.report import where

TECHNIQUE = ("interprocedural def-use (must-assign / upward-exposed) analysis of module globals over the resolved call "
             "graph with per-function CFGs; confinement (non-interference) check for statistics accumulators")
LEVEL_TEXT = ("Decides that no mutable module-level state of the specification generator, the rbr compiler, the "
              "constants module, the connector registry or the greedy module can carry a value from one block into "
              "anything observable of the next: every global an entry point may read before writing is a "
              "configuration constant, a flag derived from the call's own parameters, an idempotent update, or an "
              "accumulator that provably flows only into other accumulators. This is the whole mechanism by which "
              "histories could matter, so for this state the claim is complete; files under /tmp are never read back "
              "(checked as a who-may-read rule).")
EXPLANATION = ("UpExposed(entry) is computed for ir_block.evm2rbr_compiler, ir_block.get_subblocks and "
               "gasol_optimization.get_sfs_dict over ~190 reachable functions; each exposed global is classified by "
               "rules whose premises are re-verified on every run (writers, mutators and every read site of the global "
               "are enumerated).")
NOT_DECIDED = ("state kept by third-party libraries or the solver processes; contamination through the file system "
               "beyond the who-may-read rule")
ASSUMPTIONS = ["calls are resolved precisely (direct calls, module.func, self.method); no function of the analysed modules "
               "is stored in a variable and called indirectly (checked: no such construct in the reachable set)",
               "the same options are used for every block of a process (the property's premise)"]

MODS = ["sfs_generator.gasol_optimization", "sfs_generator.ir_block", "global_params.constants"]
ENTRIES = ["sfs_generator.ir_block.evm2rbr_compiler", "sfs_generator.ir_block.get_subblocks"]
AFTER = "sfs_generator.gasol_optimization.get_sfs_dict"
DEBUG_SINKS = {"print", "check_and_print_debug_info"}


def facts(ctx):
    if "C12.facts" in ctx.cache:
        return ctx.cache["C12.facts"]
    gf = GlobalFacts(ctx, MODS)
    entries = [ctx.func(q) for q in ENTRIES + [AFTER]]
    reach = ctx.r.reachable(entries, by_name=False)
    gf.solve(reach)
    ctx.cache["C12.facts"] = (gf, reach)
    return gf, reach


def _stmt_of(n):
    cur = n
    while cur is not None and not isinstance(cur, ast.stmt):
        cur = getattr(cur, "_parent", None)
    return cur


def _global_targets(stmt, f, gf):
    """Globals (module,name) re-bound by an Assign/AugAssign statement whose targets are all plain names."""
    locs, declared = gf.func_locals(f)
    tg = stmt.targets if isinstance(stmt, ast.Assign) else [stmt.target]
    names = []
    for t in tg:
        if not isinstance(t, ast.Name):
            return None
        if t.id not in declared:
            return None
        names.append((f.module.name, t.id))
    return names


def _branch_assigns_only(stmt, f, gf, conf):
    """An if/while statement whose bodies contain only assignments to confined globals (and passes/debug prints)."""
    for sub in ast.walk(stmt):
        if sub is stmt:
            continue
        if isinstance(sub, ast.stmt):
            if isinstance(sub, (ast.Assign, ast.AugAssign)):
                tg = _global_targets(sub, f, gf)
                if tg is None or any(t not in conf for t in tg):
                    return False
            elif isinstance(sub, (ast.If, ast.Pass)):
                continue
            elif isinstance(sub, ast.Expr) and isinstance(sub.value, ast.Call) and call_name(sub.value) in DEBUG_SINKS:
                continue
            else:
                return False
    return True


def confined(gf, reach, candidates):
    """Greatest set C ⊆ candidates such that every read/mutation site of a member only feeds members of C."""
    conf = set(candidates)
    reasons = {}
    changed = True
    while changed:
        changed = False
        for g in sorted(conf):
            bad = None
            for f, node in gf.readers.get(g, []):
                st = _stmt_of(node)
                if st is None:
                    bad = (f, node, "read outside a statement")
                    break
                # inside a debug print?
                cur, dbg = node, False
                while cur is not None and cur is not st:
                    if isinstance(cur, ast.Call) and call_name(cur) in DEBUG_SINKS:
                        dbg = True
                    cur = getattr(cur, "_parent", None)
                if dbg:
                    continue
                # base of an in-place update of the same global: g[k] = v / g.append(v) (the stored value stays inside g)
                par = getattr(node, "_parent", None)
                if isinstance(par, ast.Subscript) and par.value is node and isinstance(par.ctx, (ast.Store, ast.Del)):
                    continue
                if isinstance(st, (ast.Assign, ast.AugAssign)):
                    tg = _global_targets(st, f, gf)
                    if tg is not None and all(t in conf for t in tg):
                        continue
                    bad = (f, node, f"flows into `{short(st, 50)}`")
                    break
                if isinstance(st, (ast.If, ast.While)) and any(node is x for x in ast.walk(st.test)):
                    if _branch_assigns_only(st, f, gf, conf):
                        continue
                    bad = (f, node, f"controls `{short(st.test, 40)}` whose branches do more than update accumulators")
                    break
                bad = (f, node, f"used in `{short(st, 50)}`")
                break
            if bad is None:
                # in-place mutation of a confined global is fine only if the mutated value is never read elsewhere
                pass
            if bad is not None:
                conf.discard(g)
                reasons[g] = bad
                changed = True
    return conf, reasons


def classify(ctx, gf, reach, exposed):
    """Returns dict global -> (class, reason) and list of findings (global, why, witness)."""
    verdict = {}
    cand = set()
    del STICKY_FROM_BLOCK[:]
    for g in sorted(exposed):
        w = gf.writers.get(g, set())
        m = gf.mutators.get(g, set())
        if not w and not m:
            # who else writes it project-wide (setters outside the per-block path)?
            verdict[g] = ("configuration-constant", "never re-bound or mutated by any function reachable from the per-block entry points")
            continue
        if not m and _param_flag(ctx, gf, reach, g):
            verdict[g] = ("parameter-derived-flag", "written only in an entry prologue, with a constant or a parameter, under a test of an entry parameter")
            continue
        if not m and _idempotent_update(ctx, gf, reach, g):
            verdict[g] = ("idempotent-update", "only re-bound as g = g.union(<configuration constant>) under an entry parameter")
            continue
        cand.add(g)
    conf, reasons = confined(gf, reach, cand)
    findings = []
    for g in sorted(cand):
        if g in conf:
            verdict[g] = ("confined-accumulator", "every read feeds only other confined accumulators (or a debug print)")
        else:
            f, node, why = reasons[g]
            verdict[g] = ("STALE", why)
            findings.append((g, why, f, node))
    return verdict, findings


def _param_flag(ctx, gf, reach, g):
    ws = gf.writers.get(g, set())
    if not ws:
        return False
    for q in ws:
        f = reach[q]
        params = set(f.params)
        for n in own_nodes(f.node):
            if isinstance(n, ast.Assign) and any(isinstance(t, ast.Name) and t.id == g[1] for t in n.targets):
                v = n.value
                if isinstance(v, ast.Name) and v.id in params:
                    continue
                if isinstance(v, ast.Constant):
                    p = getattr(n, "_parent", None)
                    if isinstance(p, ast.If) and isinstance(p.test, ast.Name) and p.test.id in params and p in f.node.body:
                        # set-only ("sticky") flag: it is never taken back, so what raises it must be the same for every block of a run
                        ok_, site = _run_constant(ctx, f, p.test.id)
                        if not ok_:
                            STICKY_FROM_BLOCK.append((g, f, p.test.id, site))
                        continue
                return False
            if isinstance(n, ast.AugAssign) and isinstance(n.target, ast.Name) and n.target.id == g[1]:
                return False
    return True


STICKY_FROM_BLOCK = []


def _run_constant(ctx, f, pname, depth=0, seen=None):
    """(True, None) if every call site of f passes for parameter `pname` a value that cannot differ between the blocks of one run: a
    constant, nothing (default), an attribute of an options object the caller received, or the caller's own parameter for which the
    same holds.  Otherwise (False, (caller, call))."""
    seen = seen or set()
    if (f.qual, pname) in seen or depth > 4:
        return True, None
    seen.add((f.qual, pname))
    pos = f.params.index(pname) - (1 if f.cls is not None and f.params and f.params[0] in ("self", "cls") else 0)
    for g in ctx.p.functions.values():
        for c in calls_in(g.node, f.name):
            if f not in ctx.r.resolve_call(g, c):
                continue
            a = c.args[pos] if len(c.args) > pos and not any(isinstance(x, ast.Starred) for x in c.args[:pos + 1]) else \
                next((k.value for k in c.keywords if k.arg == pname), None)
            if a is None or isinstance(a, ast.Constant):
                continue
            if isinstance(a, ast.Name) and a.id in g.params:
                ok_, site = _run_constant(ctx, g, a.id, depth + 1, seen)
                if not ok_:
                    return False, site
                continue
            root = a
            while isinstance(root, ast.Attribute):
                root = root.value
            if isinstance(a, ast.Attribute) and isinstance(root, ast.Name) and root.id in g.params:
                continue
            return False, (g, c, a)
    return True, None


def _idempotent_update(ctx, gf, reach, g):
    ws = gf.writers.get(g, set())
    seen = 0
    for q in ws:
        f = reach[q]
        for n in own_nodes(f.node):
            if isinstance(n, ast.AugAssign) and isinstance(n.target, ast.Name) and n.target.id == g[1]:
                return False
            if isinstance(n, ast.Assign) and any(isinstance(t, ast.Name) and t.id == g[1] for t in n.targets):
                seen += 1
                v = n.value
                ok = isinstance(v, ast.Call) and isinstance(v.func, ast.Attribute) and v.func.attr == "union" \
                    and is_name(v.func.value, g[1]) and len(v.args) == 1 and isinstance(v.args[0], ast.Name) \
                    and not gf.writers.get((g[0], v.args[0].id)) and not gf.mutators.get((g[0], v.args[0].id))
                # the operator spelling of the same update:  g = g | <configuration constant>
                if not ok and isinstance(v, ast.BinOp) and isinstance(v.op, ast.BitOr):
                    sides = [v.left, v.right]
                    other = [x for x in sides if not is_name(x, g[1])]
                    ok = any(is_name(x, g[1]) for x in sides) and len(other) == 1 and isinstance(other[0], ast.Name) \
                        and not gf.writers.get((g[0], other[0].id)) and not gf.mutators.get((g[0], other[0].id))
                if not ok:
                    return False
    return bool(ws) and seen > 0


def rule_a(ctx, out):
    gf, reach = facts(ctx)
    out.info["reachable_functions"] = len(reach)
    out.info["globals_tracked"] = sum(len(v) for v in gf.mod_globals.values())
    out.info["fixpoint_rounds"] = gf.rounds
    exposed = set()
    for q in ENTRIES:
        exposed |= gf.exposed[q]
    verdict, findings = classify(ctx, gf, reach, exposed)
    out.info["exposed_classification"] = {f"{m}.{n}": v[0] for (m, n), v in sorted(verdict.items())}
    # every tracked global of the generator is an obligation: either proved assigned-before-read or classified
    for m in MODS:
        for n in sorted(gf.mod_globals[m]):
            g = (m, n)
            if g in exposed:
                continue
            out.ok()
    out.samples.append({"proved_assigned_before_read": out.satisfied})
    for g, (cls, why) in sorted(verdict.items()):
        if cls != "STALE":
            out.ok({"global": f"{g[0]}.{g[1]}", "class": cls})
    for g, f, pname, (caller, call, arg) in STICKY_FROM_BLOCK:
        out.bad(f"sticky-flag-from-block-content:{g[1]}", f"module global {g[1]} is only ever raised ({f.name} sets it when its parameter `{pname}` is true, nothing "
                f"takes it back), so it must depend on the options of the run alone; {caller.name} passes `{short(arg, 50)}` for it, a value computed per "
                f"block: once a block raises the flag every later block is analysed differently", where(caller, call))
    for g, why, f, node in findings:
        entry_w = None
        for q in ENTRIES:
            if g in gf.exposed[q]:
                entry_w = gf.exposed_at.get((q, g))
        out.bad(f"stale-global:{g[0].split('.')[-1]}.{g[1]}", f"module global {g[1]} may be read by a per-block entry point before it is "
                f"re-bound, and its value is observable: {why}", where(f, node),
                {"global": f"{g[0]}.{g[1]}", "writers": sorted(gf.writers.get(g, [])), "mutators": sorted(gf.mutators.get(g, []))})
    # the reset function itself: floor on what it resets
    ig = ctx.global_initialiser("sfs_generator.gasol_optimization", 25)
    n_reset = len(gf.must.get(ig.qual, ()))
    out.info["init_globals_resets"] = n_reset
    if n_reset < 25:
        raise AnalysisError(f"init_globals re-binds only {n_reset} globals; expected >= 25 (anchor changed?)")


def rule_b(ctx, out):
    gf, reach = facts(ctx)
    need = gf.exposed[AFTER]
    have = gf.must["sfs_generator.ir_block.evm2rbr_compiler"]
    if not need:
        raise AnalysisError("get_sfs_dict reads no global (anchor changed?)")
    for g in sorted(need):
        if g in have:
            out.ok({"global": f"{g[0]}.{g[1]}", "assigned_by": "evm2rbr_compiler on every normal path"})
        else:
            w = gf.writers.get(g, set())
            if not w and not gf.mutators.get(g):
                out.ok({"global": f"{g[0]}.{g[1]}", "class": "configuration-constant"})
            else:
                out.bad(f"result-not-reassigned:{g[1]}", f"get_sfs_dict reads {g[1]}, which evm2rbr_compiler does not re-bind on every path: "
                        f"a previous block's specifications can be returned for this block", where(ctx.func(AFTER)))
    # callers pair the two entry points: get_sfs_dict() is only called right after evm2rbr_compiler in the same function
    users = [f for f in ctx.p.functions.values() if f.module.name == "gasol_asm" and calls_in(f.node, "get_sfs_dict")]
    for f in users:
        cfg = ctx.cfg(f)
        gets = [n for n in cfg.nodes if n.ast is not None and any(call_name(c) == "get_sfs_dict" for e in _exprs(n) for c in calls_in(e))]
        comps = [n for n in cfg.nodes if n.ast is not None and any(call_name(c) == "evm2rbr_compiler" for e in _exprs(n) for c in calls_in(e))]
        for g in gets:
            if any(cfg.dominates(c, g) for c in comps):
                out.ok({"function": f.qual, "get_sfs_dict": "dominated by evm2rbr_compiler"})
            else:
                out.bad(f"{f.name}:get_sfs_dict-without-compile", "get_sfs_dict() is reachable without a preceding evm2rbr_compiler call in the same function", where(f, g.ast))


def _exprs(n):
    from ..core.flow import node_exprs
    return node_exprs(n)


def rule_c(ctx, out):
    # (1) Singleton metaclass: instance created once, keyed by class; Connectors.register_connector guards on membership
    reg = ctx.func("smt_encoding.constraints.connector_factory.Connectors.register_connector")
    guarded = False
    for n in own_nodes(reg.node):
        if isinstance(n, ast.If) and isinstance(n.test, ast.Compare) and isinstance(n.test.ops[0], ast.NotIn) and is_name(n.test.left, reg.params[1]):
            stores = [s for s in ast.walk(n) if isinstance(s, (ast.Assign,)) or (isinstance(s, ast.Call) and call_name(s) == "add")]
            outside = [s for s in own_nodes(reg.node) if isinstance(s, ast.Assign) and s not in list(ast.walk(n))]
            if stores and not outside:
                guarded = True
    if guarded:
        out.ok({"function": reg.qual, "idempotent": "registration only when the name is not registered yet"})
    else:
        out.bad("Connectors.register_connector:not-idempotent", "re-registering a connector can overwrite arity/commutativity/simplifier of the "
                "process-wide registry", where(reg))
    # registrations happen at import time only (module level), never from per-block code
    late = []
    for f in ctx.p.functions.values():
        for c in calls_in(f.node, "register_connector"):
            late.append((f, c))
    if late:
        for f, c in late:
            out.bad(f"register_connector-called-at-run-time:{f.qual}", "the connector registry is modified from a function (per-block code could change "
                    "formula construction for later blocks)", where(f, c))
    else:
        out.ok({"register_connector": "called at module level only"})
    # (2) other class-level mutable state in the per-block path: class attributes that are containers and are mutated via cls./Class.
    n_cls = 0
    for ci in ctx.p.classes.values():
        if not ci.module.name.startswith(("smt_encoding", "sfs_generator", "greedy", "solution_generation", "verification")):
            continue
        for st in ci.node.body:
            if isinstance(st, ast.Assign) and isinstance(st.value, (ast.Dict, ast.List, ast.Set)) or \
                    (isinstance(st, ast.Assign) and isinstance(st.value, ast.Call) and call_name(st.value) in ("dict", "list", "set", "defaultdict")):
                n_cls += 1
                name = st.targets[0].id if isinstance(st.targets[0], ast.Name) else None
                if ci.qual == "smt_encoding.singleton.Singleton" and name == "_instances":
                    # keyed by class, filled once: idempotent
                    call = ci.methods.get("__call__")
                    ok = call is not None and any(isinstance(n, ast.If) and isinstance(n.test, ast.Compare) and isinstance(n.test.ops[0], ast.NotIn)
                                                  for n in own_nodes(call.node))
                    if ok:
                        out.ok({"class_state": f"{ci.qual}.{name}", "idempotent": True})
                    else:
                        out.bad("Singleton._instances:not-guarded", "singleton instances are re-created or replaced", where(call or ci.module))
                    continue
                # mutated anywhere through the class?
                muts = []
                for f in ctx.p.functions.values():
                    for n in own_nodes(f.node):
                        if isinstance(n, ast.Attribute) and n.attr == name and isinstance(n.value, ast.Name) and n.value.id in (ci.name, "cls") \
                                and isinstance(getattr(n, "_parent", None), (ast.Subscript, ast.Attribute)):
                            p = n._parent
                            if isinstance(getattr(p, "ctx", None), ast.Store) or (isinstance(p, ast.Attribute) and p.attr in ("append", "add", "update", "pop", "clear")):
                                muts.append((f, n))
                # ... or through an instance: self.<name> mutated in place by a method while __init__ never gives the instance its own
                init = ci.methods.get("__init__")
                own = init is not None and any(isinstance(n, ast.Assign) and any(isinstance(t, ast.Attribute) and t.attr == name and is_name(t.value, "self")
                                                                              for t in n.targets) for n in own_nodes(init.node))
                if not own:
                    from ..core.absint import MUTATORS
                    for m_ in ci.methods.values():
                        for n in own_nodes(m_.node):
                            if isinstance(n, ast.Attribute) and n.attr == name and is_name(n.value, "self"):
                                p = getattr(n, "_parent", None)
                                in_place = (isinstance(p, ast.Attribute) and p.attr in MUTATORS and isinstance(getattr(p, "_parent", None), ast.Call)) or \
                                    (isinstance(p, ast.Subscript) and isinstance(p.ctx, (ast.Store, ast.Del))) or \
                                    (isinstance(p, ast.AugAssign) and p.target is n)
                                if in_place:
                                    muts.append((m_, n))
                if muts:
                    out.bad(f"class-level-state:{ci.qual}.{name}", f"class attribute {ci.name}.{name} is a container mutated at run time: shared by all blocks",
                            where(muts[0][0], muts[0][1]))
                else:
                    out.ok({"class_state": f"{ci.qual}.{name}", "mutated": False})
    out.info["class_level_containers"] = n_cls
    # (3) mutable constants are never imported by value
    mutable_consts = {"split_block", "push0_enabled"}
    n_imp = 0
    for m in ctx.p.modules.values():
        for n in ast.walk(m.tree):
            if isinstance(n, ast.ImportFrom) and n.module and n.module.endswith("constants"):
                n_imp += 1
                for a in n.names:
                    if a.name in mutable_consts or a.name == "*":
                        out.bad(f"mutable-constant-imported-by-value:{m.name}:{a.name}", f"`from {n.module} import {a.name}` snapshots a value that "
                                f"constants re-binds at run time", f"{m.rel}:{n.lineno}")
    out.ok({"by_value_imports_of_mutable_constants": 0, "from_imports_of_constants_seen": n_imp})
    # (4) who re-binds split_block: only its setter
    for f in ctx.p.functions.values():
        for n in own_nodes(f.node):
            tg = n.targets if isinstance(n, ast.Assign) else [n.target] if isinstance(n, (ast.AugAssign,)) else []
            for t in tg:
                if (isinstance(t, ast.Attribute) and t.attr == "split_block") or \
                        (isinstance(t, ast.Name) and t.id == "split_block" and f.module.name == "global_params.constants"
                         and any(isinstance(g, ast.Global) and "split_block" in g.names for g in own_nodes(f.node))):
                    if f.module.name == "global_params.constants" and f.cls is None:
                        out.ok({"writer": f.qual})
                    else:
                        out.bad(f"split_block-writer:{f.qual}", "constants.split_block is re-bound outside the setter of its own module", where(f, n))
    # (5) temporary files are written, never read back by the pipeline
    reads = []
    for f in ctx.p.functions.values():
        if f.module.name.startswith(("statistics", "verification.forves")):
            continue
        for c in calls_in(f.node, "open"):
            mode = c.args[1].value if len(c.args) > 1 and isinstance(c.args[1], ast.Constant) else \
                next((k.value.value for k in c.keywords if k.arg == "mode" and isinstance(k.value, ast.Constant)), "r")
            target = norm(c.args[0]) if c.args else ""
            if "r" in str(mode) and ("gasol_path" in target or "json_path" in target or "smt_encoding_path" in target or "solutions_path" in target):
                reads.append((f, c))
    if reads:
        for f, c in reads:
            out.bad(f"tmp-file-read-back:{f.qual}", f"{short(c)} reads a file under the per-process temporary folder back into the pipeline", where(f, c))
    else:
        out.ok({"tmp_folder_reads": 0})


def rule_d(ctx, out):
    # greedy module: `verbose` (and any other module global) is assigned before any read on the path from greedy_from_json
    mods = ["greedy.block_generation"]
    gf = GlobalFacts(ctx, mods)
    entry = ctx.func("greedy.block_generation.greedy_from_json")
    reach = ctx.r.reachable([entry], by_name=False)
    gf.solve(reach)
    exposed = gf.exposed[entry.qual]
    n = 0
    for g in sorted(gf.mod_globals[mods[0]]):
        n += 1
        if (mods[0], g) not in exposed:
            out.ok({"global": f"{mods[0]}.{g}", "status": "assigned before read / not used"})
        elif not gf.writers.get((mods[0], g)) and not gf.mutators.get((mods[0], g)):
            out.ok({"global": f"{mods[0]}.{g}", "class": "configuration-constant"})
        else:
            wit = gf.exposed_at.get((entry.qual, (mods[0], g)))
            out.bad(f"stale-global:block_generation.{g}", f"greedy module global {g} may be read before greedy_from_json re-binds it", where(entry, wit))
    if n < 1:
        raise AnalysisError("no module globals found in greedy.block_generation")
    # ir_block / gasol_asm statistics globals: totals are written only by the update_* helpers and init
    ga = ctx.p.module("gasol_asm")
    totals = {"previous_gas", "new_gas", "previous_size", "new_size", "new_n_instrs", "prev_n_instrs"}
    for f in ctx.p.funcs_in("gasol_asm"):
        decl = {x for n in own_nodes(f.node) if isinstance(n, ast.Global) for x in n.names}
        for n in own_nodes(f.node):
            tg = n.targets if isinstance(n, ast.Assign) else [n.target] if isinstance(n, ast.AugAssign) else []
            for t in tg:
                if isinstance(t, ast.Name) and t.id in totals and t.id in decl:
                    if f.name in ("init", "update_gas_count", "update_size_count", "update_length_count"):
                        out.ok()
                    else:
                        out.bad(f"totals-written-by:{f.name}", f"running total {t.id} is written outside init/update_* helpers", where(f, n))
        # totals are never read on the per-block path (only printed at the end)
        if f.name not in ("execute_gasol", "init", "update_gas_count", "update_size_count", "update_length_count"):
            for n in own_nodes(f.node):
                if isinstance(n, ast.Name) and n.id in totals and isinstance(n.ctx, ast.Load) and n.id in decl:
                    out.bad(f"totals-read-by:{f.name}", f"running total {n.id} is read on the per-block path", where(f, n))


def _memo_idiom(gf, key):
    """dict used only inside one function as g[k] / k in g / g.get(k) / g[k] = v with k built from that function's parameters."""
    users = {f.qual for f, _ in gf.readers.get(key, [])} | gf.writers.get(key, set()) | gf.mutators.get(key, set())
    if len(users) != 1 or gf.writers.get(key):
        return False
    f = gf.readers[key][0][0] if gf.readers.get(key) else None
    if f is None:
        return False
    params = set(f.params)
    for _, node in gf.readers[key]:
        p = getattr(node, "_parent", None)
        if isinstance(p, ast.Subscript) and p.value is node:
            k = p.slice
        elif isinstance(p, ast.Compare) and node in p.comparators and isinstance(p.ops[0], (ast.In, ast.NotIn)):
            k = p.left
        elif isinstance(p, ast.Attribute) and p.attr == "get" and isinstance(getattr(p, "_parent", None), ast.Call) and p._parent.args:
            k = p._parent.args[0]
        else:
            return False
        names = {x.id for x in ast.walk(k) if isinstance(x, ast.Name)}
        if not names or not names <= params:
            return False
    return True


def rule_e(ctx, out):
    """Project-wide: any other module-level state that per-block code writes or mutates and something reads."""
    handled = set(MODS) | {"greedy.block_generation"}
    reach = ctx.r.reachable([ctx.func("gasol_asm.execute_gasol")], by_name=True)
    mods = sorted({f.module.name for f in reach.values()} - handled)
    gf = GlobalFacts(ctx, mods)
    gf.collect({q: f for q, f in reach.items() if f.module.name in mods})
    allowed = {
        ("gasol_asm", n): "running totals: written only by init/update_* helpers, read only for the final report (C12.d)"
        for n in ("previous_gas", "new_gas", "previous_size", "new_size", "new_n_instrs", "prev_n_instrs")}
    n = 0
    for m in mods:
        for g in sorted(gf.mod_globals[m]):
            key = (m, g)
            w, mu = gf.writers.get(key, set()), gf.mutators.get(key, set())
            n += 1
            if not w and not mu:
                out.ok()
                continue
            if key in allowed:
                out.ok({"global": f"{m}.{g}", "allowed": allowed[key]})
                continue
            rd = [f.qual for f, _ in gf.readers.get(key, [])]
            if _memo_idiom(gf, key):
                out.ok({"global": f"{m}.{g}", "idiom": "memo table keyed by the parameters of the only function that touches it"})
                continue
            out.bad(f"module-state:{m}.{g}", f"module-level name {m}.{g} is re-bound/mutated at run time by {sorted(w | mu)[:3]} and read by "
                    f"{sorted(set(rd))[:3]}: its value survives from one block to the next", f"{ctx.p.modules[m].rel}")
    out.info["modules_scanned"] = len(mods)
    out.info["module_level_names_scanned"] = n
    if n < 25:
        raise AnalysisError(f"only {n} module-level names scanned")


def rule_f(ctx, out):
    """A mutable default argument is created once at import and shared by every call: when the function also writes to it, it is
    process-wide state that survives from block to block."""
    from ..core.absint import MUTATORS
    reach = ctx.r.reachable([ctx.func("gasol_asm.execute_gasol")], by_name=True)
    n = 0
    for q, f in sorted(reach.items()):
        a = f.node.args
        pos = a.posonlyargs + a.args
        pairs = list(zip(pos[len(pos) - len(a.defaults):], a.defaults)) + [(k, d) for k, d in zip(a.kwonlyargs, a.kw_defaults) if d is not None]
        for arg, d in pairs:
            n += 1
            mutable = isinstance(d, (ast.Dict, ast.List, ast.Set)) or (isinstance(d, ast.Call) and call_name(d) in ("dict", "list", "set", "defaultdict", "OrderedDict"))
            if not mutable:
                out.ok()
                continue
            name = arg.arg
            written = False
            for x in own_nodes(f.node):
                if isinstance(x, ast.Call) and isinstance(x.func, ast.Attribute) and x.func.attr in MUTATORS and is_name(x.func.value, name):
                    written = True
                if isinstance(x, (ast.Assign, ast.AugAssign, ast.Delete)):
                    for t in (x.targets if isinstance(x, (ast.Assign, ast.Delete)) else [x.target]):
                        if isinstance(t, ast.Subscript) and is_name(t.value, name):
                            written = True
                if isinstance(x, ast.Call) and any(is_name(y, name) for y in x.args) and call_name(x) == f.name:
                    pass    # handed on to the recursive call: same object
            if written:
                out.bad(f"mutable-default-argument:{f.qual.split('.', 1)[-1]}:{name}", f"{f.qual} has the mutable default `{name}={norm(d)}` and writes to it: the "
                        f"object is created once at import, so what one block stores is seen while the next block is processed", where(f, d))
            else:
                out.ok({"function": f.qual, "default": f"{name}={norm(d)}", "never_written": True})
    out.samples.append({"default_arguments_examined": n})
    if n < 20:
        raise AnalysisError(f"only {n} default arguments examined")


def rule_g(ctx, out):
    """The parser cuts an instruction list into blocks with a small state machine: the current block and its per-block tables are
    created together and must be renewed together at every block boundary.  A boundary that starts a new block but keeps a table
    lets the next block's content (PUSHLIB numbering) depend on the block before it."""
    from ..core.idioms import co_renewed_state
    n = 0
    for f, loop, group, places in co_renewed_state(ctx, ("sfs_generator.", "gasol_asm", "solution_generation.", "greedy.", "smt_encoding.", "verification.")):
        for stmts, renewed, missing in places:
            n += 1
            if missing:
                out.bad(f"segment-state-not-renewed:{f.name}:{','.join(missing)}", f"{f.qual}: where {', '.join(renewed)} is renewed (a new segment starts) "
                        f"{', '.join(missing)} is kept: the next segment inherits it", where(f, stmts[0]), {"group": group})
            else:
                out.ok({"function": f.qual, "renewed_together": renewed})
    if n < 2:
        raise AnalysisError(f"only {n} segment boundaries with co-renewed state found (parser_asm.build_blocks_from_asm_representation expected)")


def rule_h(ctx, out):
    """What a block is searched with depends on that block and the options alone.  In the per-block loops of the driver (gasol_asm) every
    local handed to the search / the optimizer (search_optimal, BlockOptimizer, greedy_standalone, generate_statistics_info) is either
    never written inside the loop, or (re)assigned in the same iteration before the call on every path.  A value that is only updated in
    place inside the loop (`tout *= ...`) or assigned on some paths only carries over from the blocks processed before."""
    SINKS = {"search_optimal", "BlockOptimizer", "greedy_standalone", "greedy_from_json", "generate_statistics_info"}
    n = 0
    for f in ctx.p.funcs_in("gasol_asm"):
        loops = [l for l in own_nodes(f.node) if isinstance(l, ast.For)]
        if not loops:
            continue
        cfg = None
        for loop in loops:
            inner = {id(x) for st in loop.body for x in ast.walk(st)}
            calls = [c for st in loop.body for c in calls_in(st) if call_name(c) in SINKS]
            for c in calls:
                for a in list(c.args) + [k.value for k in c.keywords]:
                    if not isinstance(a, ast.Name):
                        continue
                    writes_in = [w for w in own_nodes(f.node) if id(w) in inner and (
                        (isinstance(w, ast.Assign) and any(isinstance(t, ast.Name) and t.id == a.id for tg in w.targets for t in ast.walk(tg)))
                        or (isinstance(w, ast.AugAssign) and isinstance(w.target, ast.Name) and w.target.id == a.id))]
                    loop_vars = {x.id for x in ast.walk(loop.target) if isinstance(x, ast.Name)}
                    if a.id in loop_vars:
                        continue
                    n += 1
                    if not writes_in:
                        out.ok({"function": f.qual, "argument": a.id, "of": call_name(c), "written_in_loop": False})
                        continue
                    cfg = cfg or ctx.cfg(f)
                    head = next((x for x in cfg.nodes if x.kind == "iter" and x.owner is loop), None)
                    call_node = next((x for x in cfg.nodes if x.kind == "stmt" and any(cc is c for cc in node_calls(x))), None)
                    if head is None or call_node is None:
                        raise AnalysisError(f"{f.name}: flow-graph nodes of the per-block loop not found")
                    plain = {x.id for x in cfg.nodes if x.kind == "stmt" and isinstance(x.ast, ast.Assign) and id(x.ast) in inner
                             and any(isinstance(t, ast.Name) and t.id == a.id for tg in x.ast.targets for t in ast.walk(tg))
                             # an assignment that reads the variable it writes (`tout = tout + ...`, also inside a conditional expression) is an update
                             and not any(isinstance(r, ast.Name) and r.id == a.id for r in ast.walk(x.ast.value))}
                    if cfg.paths_avoiding(head, call_node, plain, src_labels={"T"}, skip_exc=True):
                        w = writes_in[0]
                        out.bad(f"loop-carried-search-parameter:{f.name}:{a.id}", f"{f.name}: `{a.id}`, handed to {call_name(c)} for every block, is updated inside the loop "
                                f"(`{short(w, 60)}`) but not assigned afresh on every path of the iteration before the call: the value a block is searched with "
                                f"depends on the blocks processed before it", where(f, w))
                    else:
                        out.ok({"function": f.qual, "argument": a.id, "of": call_name(c), "assigned_afresh_each_iteration": True})
    if n < 5:
        raise AnalysisError(f"only {n} search parameters in per-block loops examined")


RULES = [
    ("C12.h", "what a block is searched with is computed in its own iteration", 5, rule_h),
    ("C12.g", "per-block parser state is renewed at every block boundary", 2, rule_g),
    ("C12.f", "no written mutable default argument", 20, rule_f),
    ("C12.e", "no other module keeps run-time state across blocks", 25, rule_e),
    ("C12.a", "no stale module global can reach a specification", 55, rule_a),
    ("C12.b", "get_sfs_dict returns this block's specifications", 2, rule_b),
    ("C12.c", "singletons, class-level state, mutable constants, temp files", 6, rule_c),
    ("C12.d", "other module state on the per-block path", 4, rule_d),
]
