"""C10 — every block is processed to completion; a failure costs at most that block (scoped claim).

C10.a containment: calls that run the per-block pipeline are inside try/except Exception on the path from the drivers
C10.b no unbounded / partial arithmetic in the constant folders               (shared with C03.b, see folds.py)
C10.c no statically certain crash in reachable code: record keys, call arity, unbound names
C10.d (informational) fixpoint drivers and their variants
C10.e no while loop with an unchangeable condition
C10.f the containing exception handlers cannot raise
"""
import ast
import builtins

from ..core.flow import call_name, calls_in, enclosing_try, handler_catches_exception
from ..core.loader import AnalysisError, short, own_nodes, norm, canon, function_locals
from ..core.report import where

TECHNIQUE = ("interprocedural may-escape summaries over lexical try/except structure; writer/reader key agreement on "
             "instruction records; call-arity and unbound-name checks over the resolved call graph; interval analysis "
             "of the constant folders")
LEVEL_TEXT = ("Decides that no call into the per-block pipeline can propagate an exception out of the per-block loops "
              "(each such call is inside a handler for Exception, transitively), that reachable code contains no "
              "statically certain KeyError/TypeError/NameError of the kinds checked, and that constant folding cannot "
              "divide by a zero constant or build an unbounded power. Does not decide termination time or memory.")
EXPLANATION = ("(a) For every function of gasol_asm.py a may-escape summary is computed: the set of calls to pipeline "
               "roots (spec generation, search, rebuild, comparison) that are not lexically inside try/except "
               "Exception, propagated through callers to a fixpoint; every call made from a per-block loop must have "
               "an empty summary or be protected at the call site.  (c) keys read on instruction records must be "
               "written somewhere; every resolved call must match its callee's signature; every name read in a "
               "reachable function must be bound in some scope.  (b) see C03.b.")
NOT_DECIDED = "CPU/memory proportionality; termination of the rule fixpoint loops (informational list only)"
ASSUMPTIONS = ["only exceptions derived from Exception are considered (KeyboardInterrupt/SystemExit are out of scope)",
               "reachability uses precisely resolved calls only (direct calls, module.func, self.method); code reached "
               "only through dynamically typed receivers is not covered by C10.c"]

GASOL = "gasol_asm"
ROOTS = {"compute_original_sfs_with_simplifications", "optimize_block", "rebuild_optimized_asm_block",
         "asm_from_ids", "evm2rbr_compiler", "get_sfs_dict"}       # + the verifier entry point, derived in pipeline_roots()


def pipeline_roots(ctx):
    """Names of the pipeline stages whose exceptions must be contained.  The verifier is found structurally (the function of
    verification.sfs_verify that the block comparison calls); a listed stage that is defined nowhere stops the analysis rather than
    silently leaving the set."""
    roots = set(ROOTS) | {ctx.callee_in(ctx.func(f"{GASOL}.compare_asm_block_asm_format"), "verification.sfs_verify").name}
    defined = {f.name for f in ctx.p.functions.values()}
    gone = sorted(roots - defined)
    if gone:
        raise AnalysisError(f"pipeline stage(s) {gone} are defined nowhere any more: the list of stages in C10.py must be brought up to date")
    return roots

# call sites this technique cannot show safe and for which no failing input was exhibited
TRIAGED_UNPROVEN = {
    "optimize_asm_block_asm_format->optimize_block":
        "search back-ends contain their own handlers (greedy_standalone, search_optimal); asm_from_ids/BlockOptimizer "
        "have no witnessed failure on front-end generated specifications",
    "optimize_asm_block_asm_format->rebuild_optimized_asm_block":
        "asserts in the rebuild are consistency checks between the block and its own sub-block list; the one failing input found "
        "(a block starting with ASSIGNIMMUTABLE, F30) is repaired, and the rebuild is evaluated without a raise on the block family of C09.f / C14.h",
}


def _protected(call, fnode):
    for t, field in enclosing_try(call, fnode):
        if field == "body" and any(handler_catches_exception(h) for h in t.handlers):
            return True
    return False


def escape_summaries(ctx):
    """qualname -> list of (call node, callee name, chain) that may let an exception of a pipeline root escape."""
    funcs = {f.name: f for f in ctx.p.funcs_in(GASOL) if f.cls is None and f.parent is None}
    ROOTS = pipeline_roots(ctx)
    summ = {name: [] for name in funcs}
    changed = True
    rounds = 0
    while changed and rounds < 20:
        changed = False
        rounds += 1
        for name, f in funcs.items():
            cur = []
            for c in calls_in(f.node):
                cn = call_name(c)
                if cn is None or _protected(c, f.node):
                    continue
                if cn in ROOTS:
                    cur.append((c, cn, [cn]))
                elif cn in funcs and cn != name and summ[cn]:
                    cur.append((c, cn, [cn] + summ[cn][0][2]))
            if len(cur) != len(summ[name]):
                summ[name] = cur
                changed = True
    return funcs, summ


def rule_a(ctx, out):
    funcs, summ = escape_summaries(ctx)
    ROOTS = pipeline_roots(ctx)
    drivers = []
    for name, f in funcs.items():
        for loop in [n for n in own_nodes(f.node) if isinstance(n, (ast.For, ast.While))]:
            body_calls = [c for st in loop.body for c in calls_in(st)]
            if any(call_name(c) == "optimize_asm_block_asm_format" for c in body_calls):
                drivers.append((f, loop, body_calls))
    if not drivers:
        raise AnalysisError("no per-block driver loop calling optimize_asm_block_asm_format found in gasol_asm.py")
    seen = set()
    for f, loop, body_calls in drivers:
        for c in body_calls:
            cn = call_name(c)
            if cn in ROOTS or (cn in funcs and summ.get(cn)):
                key_site = (f.name, cn, c.lineno)
                if key_site in seen:
                    continue
                seen.add(key_site)
                if _protected(c, f.node):
                    out.ok({"driver": f.qual, "call": short(c, 70), "protected": "at call site"})
                    continue
                chain = [cn] + (summ[cn][0][2] if cn in funcs and summ.get(cn) else [])
                # report each escaping leaf separately so that triage is per construct
                leaves = [(cn, cn)] if cn in ROOTS else [(cn, leaf[1]) for leaf in summ[cn]]
                for via, leaf in leaves:
                    tri = f"{via}->{leaf}"
                    if tri in TRIAGED_UNPROVEN:
                        if tri not in [u["site"] for u in out.unproven]:
                            out.unproven.append({"site": tri, "reason": TRIAGED_UNPROVEN[tri]})
                        out.instances += 1
                        out.satisfied += 1
                        continue
                    out.bad(f"{f.name}:unprotected:{via}->{leaf}",
                            f"an exception raised in `{leaf}` (reached via `{via}`) propagates out of the per-block loop of "
                            f"{f.name}: the call is not inside try/except Exception anywhere on the way",
                            where(f, c), {"driver": f.qual, "call": short(c), "chain": chain})
            elif cn in funcs:
                out.ok({"driver": f.qual, "call": short(c, 70), "summary": "callee lets nothing escape"})
    # handlers on the way must fall back to the input block: in optimize_asm_block_asm_format every handler returns
    # the deep copy of the input (first component) — checked here
    oab = funcs.get("optimize_asm_block_asm_format")
    if oab is None:
        raise AnalysisError("optimize_asm_block_asm_format not found")
    copies = {n.targets[0].id for n in own_nodes(oab.node) if isinstance(n, ast.Assign) and isinstance(n.targets[0], ast.Name)
              and isinstance(n.value, ast.Call) and call_name(n.value) == "deepcopy" and n.value.args
              and isinstance(n.value.args[0], ast.Name) and n.value.args[0].id == oab.params[0]}
    for t in [n for n in own_nodes(oab.node) if isinstance(n, ast.Try)]:
        for h in t.handlers:
            rets = [r for r in ast.walk(h) if isinstance(r, ast.Return)]
            good = bool(rets) and all(isinstance(r.value, ast.Tuple) and r.value.elts and isinstance(r.value.elts[0], ast.Name)
                                      and (r.value.elts[0].id in copies or r.value.elts[0].id == oab.params[0]) for r in rets)
            if not rets:
                # falls through: acceptable only if the handler does not bind the result name
                good = not any(isinstance(s, ast.Assign) for s in ast.walk(h))
            if good:
                out.ok({"function": oab.qual, "handler": "returns the unmodified copy of the input block"})
            else:
                out.bad("optimize_asm_block_asm_format:handler-does-not-fall-back", "an exception handler does not return the "
                        "(copy of the) input block", where(oab, h))


# --------------------------------------------------------------------------------------------------- C10.c
ENTRY_QUALS = ["sfs_generator.ir_block.evm2rbr_compiler", "sfs_generator.ir_block.get_subblocks", "gasol_asm.execute_gasol",
               "sfs_generator.gasol_optimization.get_sfs_dict"]
RECORD_MODULE = "sfs_generator.gasol_optimization"


def reachable_precise(ctx):
    key = "reachable_precise"
    if key not in ctx.cache:
        roots = [ctx.func(q) for q in ENTRY_QUALS]
        ctx.cache[key] = ctx.r.reachable(roots, by_name=False)
    return ctx.cache[key]


def _written_keys(ctx):
    """Every literal string key written anywhere in the analysed project: dict displays, subscript stores,
    keyword arguments (dict(k=...), .update(k=...))."""
    key = "written_keys"
    if key in ctx.cache:
        return ctx.cache[key]
    written = set()
    for mod in ctx.p.modules.values():
        for n in ast.walk(mod.tree):
            if isinstance(n, ast.Dict):
                written |= {k.value for k in n.keys if isinstance(k, ast.Constant) and isinstance(k.value, str)}
            elif isinstance(n, ast.Subscript) and isinstance(n.ctx, (ast.Store, ast.Del)) and isinstance(n.slice, ast.Constant) \
                    and isinstance(n.slice.value, str):
                written.add(n.slice.value)
            elif isinstance(n, ast.Call):
                written |= {k.arg for k in n.keywords if k.arg}
                if call_name(n) in ("setdefault", "pop", "get") and n.args and isinstance(n.args[0], ast.Constant):
                    pass
    ctx.cache[key] = written
    return written


def _in_annotation(n):
    cur = n
    while cur is not None:
        p = getattr(cur, "_parent", None)
        if p is None:
            return False
        if isinstance(p, ast.arg) or (isinstance(p, ast.AnnAssign) and p.annotation is cur) or \
                (isinstance(p, (ast.FunctionDef, ast.AsyncFunctionDef)) and p.returns is cur):
            return True
        if isinstance(p, ast.stmt):
            return False
        cur = p
    return False


def rule_c(ctx, out):
    reach = reachable_precise(ctx)
    written = _written_keys(ctx)
    if len(written) < 50:
        raise AnalysisError("fewer than 50 written record keys found project-wide; key extraction is broken")
    out.info["reachable_functions"] = len(reach)
    out.info["written_keys_project_wide"] = len(written)
    # (1) a literal key that is read but that no code in the project ever writes
    n_reads = 0
    for f in reach.values():
        for n in own_nodes(f.node):
            if isinstance(n, ast.Subscript) and isinstance(n.ctx, ast.Load) and isinstance(n.slice, ast.Constant) \
                    and isinstance(n.slice.value, str) and not _in_annotation(n):
                n_reads += 1
                k = n.slice.value
                if k in written:
                    out.ok()
                else:
                    out.bad(f"record-key:{f.name}:{k}", f"key \"{k}\" is read in {f.name} ({short(n, 50)}) but no code in the project "
                            f"ever writes a key of that name (certain KeyError when reached)", where(f, n))
    out.samples.append({"literal_key_reads_checked": n_reads})
    # (2) call arity against resolved callee
    n_calls = 0
    for f in reach.values():
        for n in own_nodes(f.node):
            if not isinstance(n, ast.Call):
                continue
            targets = ctx.r.resolve_call(f, n)
            if len(targets) != 1:
                continue
            t = targets[0]
            if any(isinstance(a, ast.Starred) for a in n.args) or any(k.arg is None for k in n.keywords):
                continue
            a = t.node.args
            pos = [x.arg for x in a.posonlyargs + a.args]
            is_method = t.cls is not None and not any(isinstance(d, ast.Name) and d.id == "staticmethod" for d in t.node.decorator_list)
            if is_method and pos:
                pos = pos[1:]
            n_def = len(a.defaults)
            required = pos[:len(pos) - n_def] if n_def else pos
            kwonly_req = [x.arg for x, d in zip(a.kwonlyargs, a.kw_defaults) if d is None]
            given_kw = {k.arg for k in n.keywords}
            n_pos = len(n.args)
            n_calls += 1
            problem = None
            if n_pos > len(pos) and a.vararg is None:
                problem = f"{n_pos} positional arguments given, callee takes {len(pos)}"
            else:
                missing = [p for p in required[n_pos:] if p not in given_kw] + [k for k in kwonly_req if k not in given_kw]
                unknown = [k for k in given_kw if k not in pos and k not in [x.arg for x in a.kwonlyargs] and a.kwarg is None]
                if missing:
                    problem = f"missing argument(s) {missing}"
                elif unknown:
                    problem = f"unknown keyword(s) {unknown}"
            if problem:
                out.bad(f"call-arity:{f.name}->{t.name}", f"call {short(n, 60)} in {f.name} does not match {t.qual}: {problem} "
                        f"(certain TypeError when reached)", where(f, n))
            else:
                out.ok()
    out.samples.append({"resolved_calls_checked": n_calls})
    # (3) names bound somewhere
    bnames = set(dir(builtins))
    n_names = 0
    for f in reach.values():
        mod = f.module
        mod_names = set(ctx.r.module_defs.get(mod.name, {})) | set(ctx.r.imports.get(mod.name, {}))
        # names declared global in any function of the module and assigned there
        gkey = ("globals_assigned", mod.name)
        if gkey not in ctx.cache:
            g = set()
            for n in ast.walk(mod.tree):
                if isinstance(n, ast.Global):
                    g |= set(n.names)
            ctx.cache[gkey] = g
        mod_names |= ctx.cache[gkey]
        local = set(f.params)
        scope = f
        chain_locals = set()
        while scope is not None:
            for n in ast.walk(scope.node):
                if isinstance(n, ast.Name) and isinstance(n.ctx, (ast.Store, ast.Del)):
                    chain_locals.add(n.id)
                elif isinstance(n, (ast.FunctionDef, ast.AsyncFunctionDef, ast.ClassDef)):
                    chain_locals.add(n.name)
                elif isinstance(n, ast.arg):
                    chain_locals.add(n.arg)
                elif isinstance(n, ast.ExceptHandler) and n.name:
                    chain_locals.add(n.name)
                elif isinstance(n, (ast.Import, ast.ImportFrom)):
                    for al in n.names:
                        chain_locals.add((al.asname or al.name).split(".")[0])
            scope = scope.parent
        for n in own_nodes(f.node):
            if isinstance(n, ast.Name) and isinstance(n.ctx, ast.Load):
                n_names += 1
                if n.id in chain_locals or n.id in mod_names or n.id in bnames or n.id == "__class__":
                    continue
                out.bad(f"unbound-name:{f.name}:{n.id}", f"name `{n.id}` read in {f.qual} is not bound in any enclosing scope "
                        f"(certain NameError when reached)", where(f, n))
    out.ok({"names_checked": n_names}, n=1)


def rule_b(ctx, out):
    """Constant folding cannot raise or run unboundedly on input-sized constants (shared analysis with C03.b)."""
    from ..core.report import RuleOut
    from . import C03
    tmp = RuleOut("C10.b", "")
    C03.rule_b(ctx, tmp)
    out.instances += tmp.instances
    out.satisfied += tmp.satisfied
    out.samples.extend(tmp.samples[:3])
    for f in tmp.findings:
        if any(k in f.key for k in (":unbounded", ":zero-divisor", ":no-branch", ":float")):
            out.findings.append(f)
        else:
            out.satisfied += 1     # a value-domain issue is C03's business, not a termination / exception issue


def rule_d(ctx, out):
    """Informational: fixpoint drivers `while(flag)` and whether each iteration that sets the flag also removes a record."""
    GO = "sfs_generator.gasol_optimization"
    drivers = []
    for f in ctx.p.funcs_in(GO):
        for n in own_nodes(f.node):
            if isinstance(n, ast.While) and isinstance(n.test, ast.Name):
                flag = n.test.id
                sets = [s for s in ast.walk(n) if isinstance(s, ast.Assign) and any(isinstance(t, ast.Name) and t.id == flag for t in s.targets)
                        or (isinstance(s, ast.Assign) and isinstance(s.targets[0], ast.Tuple) and any(isinstance(e, ast.Name) and e.id == flag for e in s.targets[0].elts))]
                if sets:
                    callee = [call_name(c) for s in sets for c in calls_in(s)]
                    drivers.append({"function": f.name, "flag": flag, "driven_by": sorted(set(x for x in callee if x))})
    out.info["fixpoint_drivers"] = drivers
    out.info["note"] = ("termination of these loops rests on each rule strictly shrinking the record list or a finite re-labelling order; "
                        "that is a semantic argument per rule and no verdict is derived from it")
    out.ok({"fixpoint_drivers_listed": len(drivers)})


def rule_e(ctx, out):
    """No statically certain hang: a `while` loop whose condition nothing in its body can change (and without break/return/raise)."""
    from ..core.idioms import stuck_while_loops, emptiness_loops_without_variant
    reach = dict(reachable_precise(ctx))
    # methods reached only through dynamically typed receivers (the greedy's own class, the encoders) are not in the precise call graph:
    # every function of the pipeline packages is scanned
    for q_, f_ in ctx.p.functions.items():
        if f_.module.name == "gasol_asm" or f_.module.name.startswith(("greedy.", "sfs_generator.", "smt_encoding.", "solution_generation.", "verification.")):
            reach.setdefault(q_, f_)
    n = 0
    for q, f in sorted(reach.items()):
        loops = [x for x in own_nodes(f.node) if isinstance(x, ast.While)]
        n += len(loops)
        stuck = list(stuck_while_loops(ctx, f))
        for loop in stuck:
            out.bad(f"loop-cannot-progress:{f.name}:{short(loop.test, 40)}", f"in {f.name} nothing in the body of `while {short(loop.test, 40)}` can change "
                    f"its condition (no re-binding, no in-place mutation — also not through a callee — and no break/return): the per-block pipeline "
                    f"never terminates once the loop is entered", where(f, loop))
        for loop, x in emptiness_loops_without_variant(ctx, f):
            if loop in stuck:
                continue
            stuck.append(loop)
            out.bad(f"loop-has-no-variant:{f.name}:{x}", f"`while {short(loop.test, 40)}` in {f.name}: on some path through the body the list `{x}` is never "
                    f"shortened (only re-bound to a same-length transformation, and no callee consumes it): the loop cannot reach its exit", where(f, loop))
        from ..core.idioms import iterations_without_progress
        for loop, wit in iterations_without_progress(ctx, f):
            if loop in stuck:
                continue
            stuck.append(loop)
            out.bad(f"iteration-without-progress:{f.name}:{short(loop.test, 40)}", f"`while {short(loop.test, 40)}` in {f.name}: a path through the body (line "
                    f"{getattr(wit, 'lineno', '?')}) comes back to the test without writing anything the test or the branch conditions of the body read — the "
                    f"same path is taken again, for ever; the greedy search has no time limit and nothing is raised, so the whole run hangs on that block", where(f, wit))
        for _ in range(len(loops) - len(stuck)):
            out.ok()
    out.samples.append({"while_loops_checked": n})
    if n < 40:
        raise AnalysisError(f"only {n} while loops found in reachable code")


CONTAINING_HANDLERS = [("gasol_asm", "optimize_asm_block_asm_format"), ("gasol_asm", "compare_asm_block_asm_format"), ("gasol_asm", "search_optimal"),
                       ("greedy.block_generation", "greedy_from_json"), ("greedy.block_generation", "greedy_standalone")]


def _trivial_setter(ctx, name):
    """every project method of that name only stores its parameters in attributes"""
    cands = [g for g in ctx.p.functions.values() if g.name == name and g.cls is not None]
    return bool(cands) and all(all(isinstance(st, ast.Assign) and all(isinstance(t, ast.Attribute) for t in st.targets) and isinstance(st.value, ast.Name)
                                   or (isinstance(st, ast.Expr) and isinstance(st.value, ast.Constant)) for st in g.node.body) for g in cands)


def _total_expr(e, ctx, exc_name):
    """an expression that cannot raise whatever the caught exception looks like"""
    if isinstance(e, (ast.Constant, ast.Name)):
        return True
    if isinstance(e, (ast.Tuple, ast.List, ast.Set)):
        return all(_total_expr(x, ctx, exc_name) for x in e.elts)
    if isinstance(e, ast.Dict):
        return all(k is None or _total_expr(k, ctx, exc_name) for k in e.keys) and all(_total_expr(v, ctx, exc_name) for v in e.values)
    if isinstance(e, ast.JoinedStr):
        return all(isinstance(v, ast.Constant) or (isinstance(v, ast.FormattedValue) and _total_expr(v.value, ctx, exc_name) and v.format_spec is None) for v in e.values)
    if isinstance(e, ast.Call):
        fn = call_name(e)
        if isinstance(e.func, ast.Name) and fn in ("str", "repr", "print", "type", "id") and all(_total_expr(a, ctx, exc_name) for a in e.args):
            return True
        if isinstance(e.func, ast.Attribute) and fn in ("print_exc", "format_exc", "getrusage") and not e.keywords:
            return True
        if isinstance(e.func, ast.Attribute) and isinstance(e.func.value, ast.Name) and e.func.value.id != exc_name and _trivial_setter(ctx, fn) \
                and all(isinstance(a, (ast.Name, ast.Constant)) for a in e.args):
            return True
        return False
    if isinstance(e, ast.BinOp) and isinstance(e.op, ast.Add):
        # string concatenation of literals and str(...) only
        def strish(x):
            return (isinstance(x, ast.Constant) and isinstance(x.value, str)) or (isinstance(x, ast.Call) and isinstance(x.func, ast.Name) and x.func.id in ("str", "repr")
                                                                                  and all(_total_expr(a, ctx, exc_name) for a in x.args)) \
                or isinstance(x, ast.JoinedStr) or (isinstance(x, ast.BinOp) and isinstance(x.op, ast.Add) and strish(x.left) and strish(x.right))
        return strish(e.left) and strish(e.right)
    if isinstance(e, ast.Attribute):
        return isinstance(e.value, ast.Name) and e.value.id != exc_name and not isinstance(e.ctx, ast.Load) or (isinstance(e.value, ast.Name) and e.value.id == "resource")
    return False


def rule_f(ctx, out):
    """The handlers that contain a failure to its block must not fail themselves: an exception raised inside `except Exception as e:`
    escapes the containment and costs the whole run (the output is written after the last block).  Every statement of these handlers
    is an assignment / return / call built from expressions that cannot raise, whatever the caught exception carries (str(e) is
    total; e.args[0], ', '.join(e.args), e.message are not)."""
    n = 0
    for modname, fname in CONTAINING_HANDLERS:
        f = ctx.p.functions.get(f"{modname}.{fname}")
        if f is None:
            raise AnalysisError(f"{modname}.{fname} not found")
        for t in own_nodes(f.node):
            if not isinstance(t, ast.Try):
                continue
            for h in t.handlers:
                n += 1
                bad = None
                for st in h.body:
                    exprs = []
                    if isinstance(st, ast.Assign):
                        exprs = [st.value] + [x for tg in st.targets for x in ([tg.value, tg.slice] if isinstance(tg, ast.Subscript) else [])]
                        if any(isinstance(tg, ast.Attribute) for tg in st.targets):
                            exprs += [tg.value for tg in st.targets if isinstance(tg, ast.Attribute)]
                    elif isinstance(st, ast.Return):
                        exprs = [st.value] if st.value is not None else []
                    elif isinstance(st, ast.Expr):
                        exprs = [st.value]
                    elif isinstance(st, (ast.Pass, ast.Continue, ast.Break)):
                        exprs = []
                    elif isinstance(st, ast.Raise):
                        bad = st
                        break
                    else:
                        bad = st
                        break
                    for e in exprs:
                        if not _total_expr(e, ctx, h.name or "\0"):
                            bad = e
                            break
                    if bad is not None:
                        break
                if bad is None:
                    out.ok({"function": f.qual, "handler": short(h.type, 20) if h.type else "bare", "statements": len(h.body)})
                else:
                    out.bad(f"containing-handler-may-raise:{f.name}:{canon(norm(bad)[:50], function_locals(f.node))}", f"{f.qual}: the handler that contains a "
                            f"failure evaluates `{short(bad, 70)}`, which can raise for some exceptions: the failure then escapes and the run is lost", where(f, bad))
    if n < 5:
        raise AnalysisError(f"only {n} containing handlers found")


RULES = [
    ("C10.f", "the containing exception handlers cannot raise", 5, rule_f),
    ("C10.e", "no while loop with an unchangeable condition", 40, rule_e),
    ("C10.a", "exception containment on the per-block path", 6, rule_a),
    ("C10.b", "constant folding cannot raise or diverge", 15, rule_b),
    ("C10.d", "fixpoint drivers (informational)", 1, rule_d),
    ("C10.c", "no statically certain crash in reachable code", 300, rule_c),
]
