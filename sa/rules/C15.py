"""C15 — parsing and serialization round-trip (scoped claim).

C15.a key agreement at every level of the assembly JSON, including the key -> field -> key chain of instruction items
      and the optional-field discipline (read with .get  <->  written under `is not None`)
C15.b the PUSH0 spelling is the only place where an item's name may change between parse and serialise
C15.c PUSHLIB index / real value: `value` is renumbered only for PUSHLIB and the writer emits real_value
C15.d per-section containers of the serialiser are fresh
C15.e plain-text constants keep their value in every spelling
"""
import ast

from ..core.flow import call_name, calls_in, is_name
from ..core.keys import keys_read, keys_written
from ..core.loader import AnalysisError, short, own_nodes, norm
from ..core.report import where

TECHNIQUE = ("writer/reader key-set agreement per JSON level; def-use chain key -> local -> constructor parameter -> "
             "attribute -> written key; optional-field pairing rule")
LEVEL_TEXT = ('Decides that every key the parser reads at each level of the solc assembly JSON is written back under the '
              'same key from the field it was stored in, that optional keys are omitted exactly when they were absent, that '
              "nothing but the documented PUSH0 branch can alter an item's name or value between parse and serialise, and "
              'that PUSHLIB values survive renumbering; by abstract evaluation, parse -> serialise is the identity on 17 '
              'kinds of assembly record x PUSH0 flag (C15.b/c) and on 32 contract documents with every combination of '
              'optional parts (C15.f). It does not decide the numeric reading of constants in the plain-text format.'
              ' Added in seeding rounds 7-9: the plain rendering of a block keeps every instruction but the tags and every operand-carrying item shows its operand (C15.g); child assemblies nested in .data round-trip (C15.f).')
EXPLANATION = ("Levels: instruction item (build_asm_bytecode / AsmBytecode.to_json), contract (build_asm_contract / "
               "AsmContract.to_asm_json / to_json, plus the internal setters/getters), document (parse_asm / "
               "AsmJSON.to_json). Reader and writer key sets must be equal and each item key must travel through the "
               "same field.")
NOT_DECIDED = ("value of constants across textual spellings in the plain-text reader (PUSH1 10 decimal vs PUSH 10 hex): a "
               "format convention, not a shape")
ASSUMPTIONS = ["the input document has all mandatory solc keys (begin,end,name,source on items; .code/.data on contracts)"]

P = "sfs_generator.parser_asm"
BC = "sfs_generator.asm_bytecode.AsmBytecode"
ITEM_KEYS = {"begin", "end", "name", "source", "value", "jumpType", "modifierDepth"}


def rule_a(ctx, out):
    # ------------------------------------------------------------------ instruction items
    rd = ctx.func(f"{P}.build_asm_bytecode")
    cls = ctx.p.cls(BC)
    wr = cls.methods.get("to_json")
    init = cls.methods.get("__init__")
    if wr is None or init is None:
        raise AnalysisError("AsmBytecode.to_json / __init__ not found")
    item = rd.params[0]
    r = keys_read(rd.node, {item})
    w = keys_written(wr.node)
    rset, wset = set(r), set(w)
    for k in sorted(rset | wset):
        if k in rset and k in wset:
            out.ok({"level": "item", "key": k})
        elif k in rset:
            out.bad(f"item-key-read-not-written:{k}", f"item key \"{k}\" is parsed but never written back by AsmBytecode.to_json", where(wr))
        else:
            out.bad(f"item-key-written-not-read:{k}", f"item key \"{k}\" is written by AsmBytecode.to_json but never read by the parser", where(rd))
    if not ITEM_KEYS <= (rset | wset):
        raise AnalysisError(f"expected item keys {sorted(ITEM_KEYS)} not all seen (reader {sorted(rset)}, writer {sorted(wset)})")
    # (that every parsed key reaches the field it is serialised from — whatever locals, positional or keyword arguments carry it — is
    # decided by evaluation: C15.b round-trips 17 kinds of record with every key through the parser and the serialiser)
    # optional keys: read with .get(k, None)  <->  written under `if self.<attr> is not None`
    for k in sorted(rset & wset):
        how = {h for _, h in r[k]}
        opt_read = any(h == "get" and (len(u.args) == 1 or (isinstance(u.args[1], ast.Constant) and u.args[1].value is None))
                       for u, h in r[k] if h == "get") and "index" not in how
        guards = [g for _, _, g in w[k]]
        opt_written = all(g is not None for g in guards)
        if k == "value":
            opt_read = True   # PUSHLIB branch indexes it, every other item uses .get
        if opt_read == opt_written:
            if opt_written:
                g = guards[0]
                okg = isinstance(g, ast.Compare) and isinstance(g.ops[0], ast.IsNot) and isinstance(g.comparators[0], ast.Constant) \
                    and g.comparators[0].value is None and isinstance(g.left, ast.Attribute) and is_name(g.left.value, "self")
                if okg:
                    out.ok({"item_key": k, "optional": True, "written_iff": norm(g)})
                else:
                    out.bad(f"item-optional-guard:{k}", f"optional key \"{k}\" is written under `{norm(g)}`, expected `self.<field> is not None`", where(wr))
            else:
                out.ok({"item_key": k, "optional": False})
        else:
            out.bad(f"item-optionality-mismatch:{k}", f"key \"{k}\" is {'optional' if opt_read else 'mandatory'} for the parser but "
                    f"{'conditionally' if opt_written else 'always'} written", where(wr))
    # ------------------------------------------------------------------ contract level
    rc = ctx.func(f"{P}.build_asm_contract")
    ccls = ctx.p.cls("sfs_generator.asm_contract.AsmContract")
    wc = ccls.methods.get("to_asm_json")
    if wc is None:
        raise AnalysisError("AsmContract.to_asm_json not found")
    r2, w2 = set(keys_read(rc.node)), set(keys_written(wc.node))
    for k in sorted(r2 | w2):
        if k in r2 and k in w2:
            out.ok({"level": "contract", "key": k})
        else:
            out.bad(f"contract-key-mismatch:{k}", f"contract-level key \"{k}\" is {'read but not written' if k in r2 else 'written but not read'}",
                    where(wc if k in r2 else rc))
    if not {".code", ".data", ".auxdata", "sourceList"} <= (r2 | w2):
        raise AnalysisError("contract-level keys not recognised")
    # internal storage keys of AsmContract: setters vs getters
    set_keys, get_keys = set(), set()
    for name, m in ccls.methods.items():
        if name.startswith("set_"):
            set_keys |= set(keys_written(m.node))
        elif name.startswith("get_") or name in ("build_static_edges_runtime",):
            get_keys |= set(keys_read(m.node))
    for k in sorted(set_keys | get_keys):
        if k in set_keys and k in get_keys:
            out.ok({"level": "AsmContract storage", "key": k})
        elif k in get_keys:
            out.bad(f"contract-storage-key:{k}", f"AsmContract getter reads internal key \"{k}\" that no setter writes", where(ccls.module))
        else:
            out.info.setdefault("storage_keys_never_read", []).append(k)
    # optional contract fields written iff present
    for key, getter in ((".auxdata", "get_auxdata"), (".data", "get_data_field"), ("sourceList", "source_list")):
        ents = keys_written(wc.node).get(key, [])
        cond = [g for _, st, g in ents if isinstance(st, ast.Assign) and g is not None]
        uncond_inner = [1 for _, st, g in ents if isinstance(st, ast.Assign) and g is None]
        if key == ".data":
            # top-level ".data" is mandatory (written unconditionally once), the nested one optional
            ok = len(cond) >= 1 and len(uncond_inner) == 1
        else:
            ok = len(cond) >= 1 and not uncond_inner
        if ok:
            out.ok({"contract_key": key, "optional": True})
        else:
            out.bad(f"contract-optional-field:{key}", f"optional contract field \"{key}\" is not written under an `is not None` test", where(wc))
    # ------------------------------------------------------------------ document level
    rp = ctx.func(f"{P}.parse_asm")
    jcls = ctx.p.cls("sfs_generator.asm_json.AsmJSON")
    wj = jcls.methods.get("to_json")
    wcj = ccls.methods.get("to_json")
    r3 = set(keys_read(rp.node))
    w3 = set(keys_written(wj.node)) | set(keys_written(wcj.node))
    for k in sorted(r3 | w3):
        if k in r3 and k in w3:
            out.ok({"level": "document", "key": k})
        else:
            out.bad(f"document-key-mismatch:{k}", f"document-level key \"{k}\" is {'read but not written' if k in r3 else 'written but not read'}",
                    where(wj if k in r3 else rp))
    # version is copied
    vers = [v for v, _, _ in keys_written(wj.node).get("version", [])]
    if vers and all("version" in norm(v) for v in vers):
        out.ok({"document": "version copied"})
    else:
        out.bad("document-version-not-copied", "the compiler version written is not the one read", where(wj))


def _parse_serialise(ctx, records, flag):
    """[(record, item stand-in, serialised dict)] for a list of assembly records parsed in sequence by the repository's own
    build_asm_bytecode (one PUSHLIB table for the sequence) and serialised by its own AsmBytecode.to_json — abstract evaluation."""
    from ..core.interp import ModuleInterp
    from ..core.minieval import Unsupported, Raised
    cls = ctx.p.cls(BC)
    rd = ctx.func(f"{P}.build_asm_bytecode")
    mi = ModuleInterp(ctx, max_steps=200000)
    Item = mi.fake_class(cls)
    mi.extern["AsmBytecode"] = mi.constructor(cls, lambda: Item())
    mi.module_env("global_params.constants")["push0_enabled"] = flag
    table, res = {}, []
    for r in records:
        try:
            it = mi.call(rd, dict(r), table)
            js = mi.call(cls.methods["to_json"], it)
        except Raised as e:
            res.append((r, None, ("raises", e.what)))
            continue
        except Unsupported as e:
            raise AnalysisError(f"build_asm_bytecode / to_json cannot be evaluated abstractly on {r}: {e}")
        res.append((r, it, js))
    return res, mi, Item


def _rec(name, value=None, **kw):
    r = {"begin": 3, "end": 9, "name": name, "source": 2}
    if value is not None:
        r["value"] = value
    r.update(kw)
    return r


def rule_b(ctx, out):
    """Between parse and serialise an item changes only through the documented PUSH0 spelling: for every kind of record, to_json of
    the parsed item is the record again; with the flag on, `PUSH 0` becomes `PUSH0` without operand and nothing else changes."""
    rd = ctx.func(f"{P}.build_asm_bytecode")
    family = [_rec("PUSH", "0"), _rec("PUSH", "1"), _rec("PUSH", "FF"), _rec("PUSH", "00"), _rec("PUSH [tag]", "5"), _rec("tag", "3"), _rec("JUMPDEST"),
              _rec("JUMP", None, jumpType="[in]"), _rec("ADD"), _rec("PUSHIMMUTABLE", "ab12"), _rec("ASSIGNIMMUTABLE", "ab12"), _rec("PUSH data", "A1"),
              _rec("PUSH #[$]", "0000000000000000000000000000000000000000000000000000000000000001"), _rec("PUSHSIZE"), _rec("PUSHDEPLOYADDRESS"),
              _rec("SWAP1", None, modifierDepth=1), _rec("PUSH0"), _rec("PUSH", "0", modifierDepth=2), _rec("PUSH", "0", jumpType="[in]", modifierDepth=1),
              _rec("PUSH [tag]", "0", modifierDepth=3), _rec("PUSHLIB", "lib/L.sol:L", modifierDepth=1)]
    for flag in (False, True):
        res, _, _ = _parse_serialise(ctx, family, flag)
        for r, it, js in res:
            want = dict(r)
            if flag and r["name"] == "PUSH" and r.get("value") == "0":
                want = {k: v for k, v in r.items() if k != "value"}
                want["name"] = "PUSH0"
            if js == want:
                out.ok({"record": f"{r['name']} {r.get('value', '')}".strip(), "push0_flag": flag, "round_trip": "identical" if want == r else "PUSH0 spelling"})
            elif isinstance(js, tuple):
                out.bad(f"build_asm_bytecode:raises:{r['name']}", f"parsing/serialising the record {r} raises {js[1]}", where(rd))
            else:
                field = next((k for k in sorted(set(js) | set(want)) if js.get(k) != want.get(k)), "?")
                what = "name-rewritten" if field == "name" else "push0-with-operand" if want.get("name") == "PUSH0" and field == "value" else f"field-changed:{field}"
                out.bad(f"build_asm_bytecode:{what}:{r['name']}", f"the record {r} is serialised as {js} (PUSH0 flag {'on' if flag else 'off'}): only the PUSH0 "
                        f"spelling of `PUSH 0` may differ from what was parsed", where(rd))
    # nobody else mutates item fields (shared with C09.b)
    n = check_item_immutability(ctx, out)
    out.ok({"item_fields_assigned_only_in": "AsmBytecode.__init__", "fields_checked": n})


def item_fields(ctx):
    """(all fields assigned in AsmBytecode.__init__, those that no other class also defines)."""
    cls = ctx.p.cls(BC)
    fields = set()
    for n in own_nodes(cls.methods["__init__"].node):
        if isinstance(n, ast.Assign):
            for t in n.targets:
                if isinstance(t, ast.Attribute) and is_name(t.value, "self"):
                    fields.add(t.attr)
    others = set()
    for ci in ctx.p.classes.values():
        if ci.qual == BC:
            continue
        for m in ci.methods.values():
            others.add(m.name)    # properties
            for n in own_nodes(m.node):
                if isinstance(n, (ast.Assign, ast.AugAssign, ast.AnnAssign)):
                    tg = n.targets if isinstance(n, ast.Assign) else [n.target]
                    for t in tg:
                        if isinstance(t, ast.Attribute) and is_name(t.value, "self"):
                            others.add(t.attr)
    return fields, fields - others


def check_item_immutability(ctx, out):
    fields, unique = item_fields(ctx)
    if len(fields) < 7:
        raise AnalysisError("AsmBytecode.__init__ assigns fewer than 7 fields (anchor changed)")
    for f in ctx.p.functions.values():
        in_bc = f.cls is not None and f.cls.qual == BC
        for n in own_nodes(f.node):
            tg = n.targets if isinstance(n, ast.Assign) else [n.target] if isinstance(n, (ast.AugAssign, ast.AnnAssign)) else []
            for t in tg:
                for x in ast.walk(t):
                    if not (isinstance(x, ast.Attribute) and isinstance(x.ctx, ast.Store)):
                        continue
                    on_self = is_name(x.value, "self")
                    if on_self and in_bc and x.attr in fields and f.name != "__init__":
                        out.bad(f"item-field-mutated:AsmBytecode.{f.name}:{x.attr}", f"AsmBytecode.{f.name} re-assigns self.{x.attr}: a parsed item can "
                                f"change between parse and serialise", where(f, n))
                    elif not on_self and x.attr in unique:
                        out.bad(f"item-field-mutated:{f.qual.split('.', 1)[-1]}:{x.attr}", f"{norm(x)} is assigned outside AsmBytecode.__init__: a parsed "
                                f"item can change between parse and serialise", where(f, n))
            if isinstance(n, ast.Call) and call_name(n) == "setattr" and len(n.args) >= 2 and isinstance(n.args[1], ast.Constant) and n.args[1].value in fields:
                out.bad(f"item-field-mutated:{f.qual.split('.', 1)[-1]}:setattr", "setattr on an item field", where(f, n))
    return len(fields)


def rule_c(ctx, out):
    """Library references: while a block is parsed every PUSHLIB gets the number of its library in order of first occurrence (the
    internal value the specification works with), the item keeps the library name as real_value, and to_json writes the name.  An
    item constructed without a real value (what ids2asm does) takes its value as real value."""
    rd = ctx.func(f"{P}.build_asm_bytecode")
    libs = ["c/B.sol:LibB", "c/A.sol:LibA", "c/B.sol:LibB", "c/C.sol:LibC", "c/A.sol:LibA"]
    family = [_rec("PUSHLIB", libs[0]), _rec("PUSH", "1"), _rec("PUSHLIB", libs[1]), _rec("PUSHLIB", libs[2]), _rec("ADD"), _rec("PUSHLIB", libs[3]), _rec("PUSHLIB", libs[4])]
    res, mi, Item = _parse_serialise(ctx, family, False)
    order = []
    for r, it, js in res:
        if isinstance(js, tuple):
            out.bad(f"build_asm_bytecode:raises:{r['name']}", f"parsing/serialising the record {r} raises {js[1]}", where(rd))
            continue
        if r["name"] == "PUSHLIB":
            if r["value"] not in order:
                order.append(r["value"])
            idx = order.index(r["value"])
            if str(it.value) != str(idx):
                out.bad("build_asm_bytecode:pushlib-numbering", f"the {len(order)}-th library of the block ({r['value']}) gets the internal value {it.value!r}; the "
                        f"specification identifies libraries by order of first occurrence ({idx})", where(rd))
            elif it.real_value != r["value"]:
                out.bad("build_asm_bytecode:pushlib-real-value-lost", f"the item parsed from {r} has real_value {it.real_value!r}", where(rd))
            elif js != r:
                out.bad("AsmBytecode.to_json:writes-index-instead-of-real-value", f"the PUSHLIB record {r} is serialised as {js}", where(ctx.p.cls(BC).methods["to_json"]))
            else:
                out.ok({"PUSHLIB": r["value"], "internal_value": it.value, "serialised": js.get("value")})
        else:
            if it.value != r.get("value") or it.real_value != r.get("value"):
                out.bad("build_asm_bytecode:value-renumbered-outside-pushlib", f"the item parsed from {r} has value {it.value!r} / real_value {it.real_value!r}", where(rd))
            else:
                out.ok()
    # default of real_value
    make = mi.extern["AsmBytecode"]
    try:
        it = make(-1, -1, -1, "PUSH [tag]", "7")
    except Exception as e:   # Unsupported / Raised from the interpreted __init__
        raise AnalysisError(f"AsmBytecode.__init__ cannot be evaluated abstractly: {e}")
    if it.real_value == "7" and it.value == "7":
        out.ok({"init": "real_value defaults to value"})
    else:
        out.bad("AsmBytecode.__init__:real-value-default", f"an item constructed with value '7' and no real value has real_value {it.real_value!r}",
                where(ctx.p.cls(BC).methods["__init__"]))


def rule_d(ctx, out):
    from . import C09
    C09.rule_e(ctx, out, modules=("sfs_generator.asm_contract", "sfs_generator.asm_json", "sfs_generator.parser_asm", "sfs_generator.asm_block"))


def rule_e(ctx, out):
    """Every constant keeps its numeric value regardless of spelling.  The plain-text parser is evaluated abstractly on one block per
    spelling class of a pushed constant: PUSHn takes decimal or 0x-hexadecimal operands (leading zeros allowed), the generic PUSH
    takes bare hexadecimal digits, PUSH0 is zero."""
    from ..core.interp import ModuleInterp
    from ..core.minieval import Unsupported, Raised
    f = ctx.func(f"{P}.plain_instructions_to_asm_representation")
    mi = ModuleInterp(ctx, max_steps=200000)
    cases = [("PUSH1 10", 10, "decimal"), ("PUSH1 010", 10, "decimal-leading-zero"), ("PUSH2 0010", 10, "decimal-leading-zeros"), ("PUSH2 0100", 100, "decimal-leading-zero"),
             ("PUSH1 0255", 255, "decimal-leading-zero"), ("PUSH1 09", 9, "decimal-leading-zero"), ("PUSH1 0x0a", 10, "hex-prefixed"), ("PUSH1 0x0A", 10, "hex-prefixed-uppercase"),
             ("PUSH1 0xa", 10, "hex-prefixed"), ("PUSH2 0x0100", 256, "hex-prefixed-leading-zero"), ("PUSH a", 10, "generic-hex"), ("PUSH 0a", 10, "generic-hex-leading-zero"),
             ("PUSH 10", 16, "generic-hex"), ("PUSH 010", 16, "generic-hex-leading-zero"), ("PUSH1 0", 0, "zero"), ("PUSH1 00", 0, "zero"), ("PUSH1 0x0", 0, "zero"),
             ("PUSH1 0x00", 0, "zero"), ("PUSH0", 0, "push0"), ("PUSH 0", 0, "zero"), ("PUSH32 115792089237316195423570985008687907853269984665640564039457584007913129639935", 2 ** 256 - 1, "decimal-max"),
             ("PUSH32 0xffffffffffffffffffffffffffffffffffffffffffffffffffffffffffffffff", 2 ** 256 - 1, "hex-max")]
    for text, number, cls in cases:
        try:
            items = mi.call(f, text + " ADD")
        except Raised as e:
            out.bad(f"plain-constant:{cls}:raises", f"the plain-text parser raises {e.what} on `{text}`", where(f))
            continue
        except Unsupported as e:
            raise AnalysisError(f"plain_instructions_to_asm_representation: cannot evaluate abstractly on `{text}`: {e}")
        ok = isinstance(items, list) and len(items) == 2 and items[0].get("name") == "PUSH" and items[1].get("name") == "ADD"
        got = None
        if ok:
            try:
                got = int(str(items[0].get("value")), 16)
            except ValueError:
                ok = False
        if ok and got == number:
            out.ok({"text": text[:40], "value": items[0]["value"][:20], "class": cls})
        else:
            out.bad(f"plain-constant:{cls}", f"`{text[:50]}` is parsed as {items[0] if isinstance(items, list) and items else items!r}: the constant is {number}, the item holds "
                    f"{got if got is not None else 'no hexadecimal value'}", where(f), {"text": text, "parsed": repr(items)[:200]})


def rule_f(ctx, out):
    """A contract's assembly survives parse -> serialise whatever optional parts it has.  build_asm_contract and AsmContract.to_asm_json
    (with the block builder, the item parser and the classes' own constructors, setters and methods) are interpreted on a family of
    assembly dictionaries: sub-assemblies with and without .auxdata, with and without a nested .data (strings only, or a child assembly too), string-valued data entries, with
    and without sourceList, one or two sub-assemblies; the result must be the input again (and parsing must not raise)."""
    import itertools
    from ..core.interp import ModuleInterp
    from ..core.minieval import Unsupported, Raised
    bc = ctx.func(f"{P}.build_asm_contract")
    classes = {n: ctx.p.cls(q) for n, q in (("AsmContract", "sfs_generator.asm_contract.AsmContract"), ("AsmBlock", "sfs_generator.asm_block.AsmBlock"),
                                             ("AsmBytecode", BC))}
    mi = ModuleInterp(ctx, max_steps=400000, extern={"sfs_generator.utils.compute_stack_size": lambda *a, **k: 0, "compute_stack_size": lambda *a, **k: 0})
    fakes = {}
    for n, ci in classes.items():
        fakes[n] = mi.fake_class(ci)
        mi.extern[n] = mi.constructor(ci, (lambda F: (lambda: F()))(fakes[n]))
    mi.module_env("global_params.constants")["push0_enabled"] = False
    code_a = [_rec("tag", "1"), _rec("JUMPDEST"), _rec("PUSH", "80"), _rec("PUSH", "40"), _rec("MSTORE"), _rec("PUSH [tag]", "2"), _rec("JUMP", None, jumpType="[in]"),
              _rec("tag", "2"), _rec("JUMPDEST"), _rec("STOP")]
    code_b = [_rec("PUSH", "0"), _rec("DUP1"), _rec("REVERT")]
    n = 0
    for aux, nested, address, srcs, two in itertools.product((False, True), (0, 1, 2), (False, True), (False, True), (False, True)):
        sub = {".code": [dict(r) for r in code_a]}
        if aux:
            sub[".auxdata"] = "a264"
        if nested:
            sub[".data"] = {"A1B2": "6080"}
        if nested == 2:
            # the creation code of a child contract deployed from the run-time code: an assembly nested in the sub-assembly's .data
            sub[".data"]["0"] = {".auxdata": "bb", ".code": [dict(r) for r in code_b]}
        data = {"0": sub}
        if two:
            data["1"] = {".auxdata": "ff", ".code": [dict(r) for r in code_b]}
        if address:
            data["ACAB"] = "00112233"
        doc = {".code": [dict(r) for r in code_b], ".data": data}
        if srcs:
            doc["sourceList"] = ["a.sol", "#utility.yul"]
        label = ", ".join(k for k, v in (("no .auxdata", not aux), ("nested .data", nested == 1), ("nested .data with a child assembly", nested == 2), ("address entry", address), ("sourceList", srcs), ("two sub-assemblies", two)) if v) or "plain"
        import copy
        try:
            contract = mi.call(bc, "dir/file.sol:Name", copy.deepcopy(doc))
            back = mi.call(classes["AsmContract"].methods["to_asm_json"], contract)
        except Raised as e:
            n += 1
            out.bad(f"contract-parse-raises:{e.what.split(' ')[0]}", f"parsing / serialising a well-formed assembly ({label}) raises {e.what}", where(bc), {"document": label})
            continue
        except Unsupported as e:
            raise AnalysisError(f"build_asm_contract / to_asm_json cannot be evaluated abstractly ({label}): {e}")
        n += 1
        if back == doc:
            out.ok({"document": label, "round_trip": "identical"})
        else:
            diff = [k for k in sorted(set(doc) | set(back if isinstance(back, dict) else {})) if not isinstance(back, dict) or doc.get(k) != back.get(k)]
            out.bad(f"contract-round-trip:{(diff or ['?'])[0]}", f"an assembly ({label}) is not serialised back to itself: differs in {diff}", where(bc),
                    {"document": label, "serialised": repr(back)[:400]})
    if n < 32:
        raise AnalysisError(f"only {n} documents evaluated")


def rule_g(ctx, out):
    """The plain-text rendering of a block has every instruction of the block except the `tag` pseudo-items (which the plain format
    has no spelling for): AsmBlock.to_plain / to_plain_with_byte_number are interpreted on blocks with tags, JUMPDEST, pushes, pseudo
    pushes and jumps; the rendering must be the items' own renderings, in order.  (JUMPDEST is a real opcode: a rendering that drops it
    reads back as a shorter block.)"""
    from ..core.interp import ModuleInterp
    from ..core.minieval import Unsupported, Raised
    bcls = ctx.p.cls("sfs_generator.asm_block.AsmBlock")
    icls = ctx.p.cls(BC)
    mi = ModuleInterp(ctx, max_steps=100000)
    Item = mi.fake_class(icls)
    Blk = mi.fake_class(bcls)
    make = mi.constructor(icls, lambda: Item())
    mi.module_env("global_params.constants")["push0_enabled"] = False
    shapes = [[("tag", "1"), ("JUMPDEST", None), ("PUSH", "80"), ("PUSH", "40"), ("MSTORE", None), ("PUSH [tag]", "2"), ("JUMP", None)],
              [("JUMPDEST", None), ("PUSH", "1"), ("ADD", None)],
              [("tag", "7"), ("JUMPDEST", None), ("STOP", None)],
              [("PUSH", "0"), ("DUP1", None), ("REVERT", None)],
              [("tag", "3"), ("PUSH", "1"), ("tag", "4"), ("JUMPDEST", None), ("POP", None)]]
    n = 0
    for shape in shapes:
        try:
            items = [make(-1, -1, -1, d, v) for d, v in shape]
            blk = Blk(_instructions=items)
            for meth, each in (("to_plain", "to_plain"), ("to_plain_with_byte_number", "to_plain_with_byte_number")):
                if meth not in bcls.methods:
                    continue
                got = mi.call(bcls.methods[meth], blk)
                want = " ".join(mi.call(icls.methods[each], it) for it, (d, _) in zip(items, shape) if not (d == "tag" and meth == "to_plain"))
                n += 1
                if got == want or (meth != "to_plain" and got.split() == [w for w in want.split()]):
                    out.ok({"block": " ".join(d for d, _ in shape), "rendering": meth})
                elif meth == "to_plain":
                    missing = [w for w in want.split() if w not in got.split()]
                    out.bad(f"block-rendering-drops-instruction:{(missing or ['?'])[0]}", f"AsmBlock.{meth} renders the block `{' '.join(d for d, _ in shape)}` as `{got}`; "
                            f"its instructions are `{want}`: the text reads back as a different block", where(bcls.methods[meth]))
                else:
                    out.ok({"block": " ".join(d for d, _ in shape), "rendering": meth, "note": "byte-number rendering differs from the items' (informational)"})
        except Raised as e:
            out.bad("block-rendering-raises", f"rendering the block {shape} raises {e.what}", where(bcls.methods["to_plain"]))
        except Unsupported as e:
            raise AnalysisError(f"AsmBlock.to_plain cannot be evaluated abstractly: {e}")
    # every item that carries an operand shows it: the plain text is read back token by token, and an item rendered without its operand
    # swallows the next opcode as its operand (ASSIGNIMMUTABLE <hash> POP ... reads back as ASSIGNIMMUTABLE POP)
    for d, v in (("ASSIGNIMMUTABLE", "ab12"), ("PUSHIMMUTABLE", "ab12"), ("PUSH [tag]", "7"), ("PUSH #[$]", "1"), ("PUSH [$]", "1"), ("PUSHLIB", "2"),
                 ("PUSH data", "A1B2"), ("tag", "3"), ("PUSH", "80")):
        try:
            it = make(-1, -1, -1, d, v)
            got = mi.call(icls.methods["to_plain"], it)
        except Raised as e:
            out.bad("item-rendering-raises", f"rendering the item {d} {v} raises {e.what}", where(icls.methods["to_plain"]))
            continue
        except Unsupported as e:
            raise AnalysisError(f"AsmBytecode.to_plain cannot be evaluated abstractly on {d} {v}: {e}")
        n += 1
        if isinstance(got, str) and got.split()[:len(d.split())] == d.split() and got.split()[-1] == v and len(got.split()) == len(d.split()) + 1:
            out.ok({"item": f"{d} {v}", "rendering": got})
        else:
            out.bad(f"item-rendering-drops-operand:{d.replace(' ', '')}", f"AsmBytecode.to_plain renders the item `{d} {v}` as `{got}`: the operand is not in the text, "
                    f"and the reader takes the next token for it", where(icls.methods["to_plain"]))
    if n < 14:
        raise AnalysisError(f"only {n} block / item renderings evaluated")


RULES = [
    ("C15.e", "plain-text constants keep their value in every spelling", 20, rule_e),
    ("C15.d", "per-section containers of the serialiser are fresh", 2, rule_d),
    ("C15.a", "key agreement between parser and serialiser at every level", 25, rule_a),
    ("C15.g", "the plain rendering of a block keeps every instruction but the tags; every item shows its operand", 14, rule_g),
    ("C15.f", "contract assembly round-trips whatever optional parts it has (by evaluation)", 32, rule_f),
    ("C15.b", "item name/value change only through the PUSH0 spelling", 5, rule_b),
    ("C15.c", "PUSHLIB renumbering round-trips through real_value", 3, rule_c),
]
