"""C08 — optimization never makes a block costlier in the chosen criterion (scoped claim).

C08.a acceptance test dominates every replacement of a sub-block
C08.b decision tables (sign domain, exhaustive): improves_criterion, block_has_been_optimized, compare_best_block
C08.c single source of cost + is_push0 consulted by every price function
C08.d totals are updated with the block that is actually emitted
C08.e price tables: static gas classes, nothing free, no missing comma
"""
import ast
import itertools

from ..core.flow import (call_name, calls_in, node_calls, node_exprs, is_name, same_expr, node_binds, implies_truthy)
from ..core.loader import AnalysisError, short, own_nodes, norm
from ..core.minieval import Evaluator, Unsupported, Raised
from ..core.report import where

TECHNIQUE = 'CFG dominance of the acceptance test; exhaustive abstract evaluation of the decision functions over the sign domain; who-may-define rule for cost tables'
LEVEL_TEXT = ('Decides the acceptance logic completely over its finite abstract domain (signs of the savings x criterion), that a replacement is stored only on the accepting branch, that prices come from one table with is_push0 consulted everywhere, and that totals count the emitted block. Does not decide that the cost model matches the EVM.'
              " Added in seeding rounds 7-9: log entries and replacement stores lie under the accepting edge (C08.g); an accepted tie is worse in none of the criterion's tie-breakers (C08.b).")

EXPLANATION = ("(a) CFG dominance: in optimize_asm_block_asm_format a non-None entry of the replacement map is stored "
               "only on the true branch of block_has_been_optimized(original, candidate, criterion); (b) exhaustive "
               "abstract evaluation over the sign domain {-,0,+} of improves_criterion (1..3 arguments), of "
               "block_has_been_optimized's criterion dispatch (which saving goes first, savings are original minus "
               "optimized) and of compare_best_block; premise checked syntactically: the savings are only compared "
               "with 0 or with each other; (c) who-may-define rule for costs; (d) the totals are updated with the "
               "variable that is appended after the fallback re-binding.")
NOT_DECIDED = "cost 'measured independently of the tool's accounting' (needs an external gas model and concrete blocks)"
EXHAUSTIVE = True
ASSUMPTIONS = ["sign representatives (-1,0,1) are exact because the analysed functions touch the savings only through "
               "comparisons with 0 / with each other (premise verified on the AST on every run)"]

GASOL = "gasol_asm"


# ----------------------------------------------------------------------------------------------- C08.a
def rule_a(ctx, out):
    f = ctx.func(f"{GASOL}.optimize_asm_block_asm_format")
    cfg = ctx.cfg(f)
    rebuilds = [c for c in calls_in(f.node, "rebuild_optimized_asm_block")]
    if not rebuilds:
        raise AnalysisError("optimize_asm_block_asm_format: call to rebuild_optimized_asm_block not found")
    maps = set()
    for c in rebuilds:
        if len(c.args) >= 3 and isinstance(c.args[2], ast.Name):
            maps.add(c.args[2].id)
        else:
            out.bad("optimize_asm_block_asm_format:replacement-map-not-a-name", "third argument of rebuild is not a plain name", where(f, c))
    writes = {}
    for n in cfg.nodes:
        for v in node_binds(n):
            writes.setdefault(v, []).append(n)
    verdicts = {v: (ns[0].ast.value, ns[0]) for v, ns in writes.items() if len(ns) == 1 and ns[0].kind == "stmt" and isinstance(ns[0].ast, ast.Assign)
                and len(ns[0].ast.targets) == 1 and is_name(ns[0].ast.targets[0], v)
                and isinstance(ns[0].ast.value, ast.Call) and call_name(ns[0].ast.value) == "block_has_been_optimized"}
    for n in cfg.nodes:
        a = n.ast
        if n.kind != "stmt" or not isinstance(a, ast.Assign):
            continue
        for t in a.targets:
            if isinstance(t, ast.Subscript) and isinstance(t.value, ast.Name) and t.value.id in maps:
                if isinstance(a.value, ast.Constant) and a.value.value is None:
                    out.ok({"store": short(a), "value": "None (keep original)"})
                    continue
                # must be dominated by the T edge of a test that implies block_has_been_optimized(...) is true
                ok = False
                for tn in cfg.nodes:
                    if tn.kind != "test":
                        continue
                    cands = [(c, tn, None) for c in calls_in(tn.ast, "block_has_been_optimized")]
                    # the verdict kept in a local that is assigned once, from the call, before the test
                    for nm in {x.id for x in ast.walk(tn.ast) if isinstance(x, ast.Name) and x.id in verdicts}:
                        c, at = verdicts[nm]
                        if cfg.dominates(at, tn):
                            cands.append((c, at, nm))
                    for c, at, nm in cands:
                        if _call_truthy_on(tn.ast, True, c, nm) and cfg.edge_dominated_by_branch(n, tn, "T"):
                            if _accept_args_ok(f, cfg, at, c, a.value, out):
                                ok = True
                        elif _call_truthy_on(tn.ast, False, c, nm) and cfg.edge_dominated_by_branch(n, tn, "F"):
                            if _accept_args_ok(f, cfg, at, c, a.value, out):
                                ok = True
                if ok:
                    out.ok({"store": short(a), "guard": "block_has_been_optimized(...) is True"})
                else:
                    out.bad(f"optimize_asm_block_asm_format:unguarded-replacement:{short(a, 60)}",
                            "a candidate sequence is stored as replacement without being dominated by the acceptance "
                            "test block_has_been_optimized(original, candidate, criterion)", where(f, a))
    # also: every .update()/setdefault on the map is a hole
    for n in own_nodes(f.node):
        if isinstance(n, ast.Call) and isinstance(n.func, ast.Attribute) and isinstance(n.func.value, ast.Name) \
                and n.func.value.id in maps and n.func.attr in ("update", "setdefault", "__setitem__"):
            out.bad(f"optimize_asm_block_asm_format:bulk-write:{short(n, 50)}", "replacement map written through a bulk method", where(f, n))


def _call_truthy_on(test, want, call, alias=None):
    """(test == want) implies call's value truthy (`alias`: a local that holds the call's value)."""
    if test is call or (alias is not None and is_name(test, alias)):
        return want
    if isinstance(test, ast.UnaryOp) and isinstance(test.op, ast.Not):
        return _call_truthy_on(test.operand, not want, call, alias)
    if isinstance(test, ast.BoolOp):
        if isinstance(test.op, ast.And) and want:
            return any(_call_truthy_on(v, True, call, alias) for v in test.values)
        if isinstance(test.op, ast.Or) and not want:
            return any(_call_truthy_on(v, False, call, alias) for v in test.values)
    return False


def _accept_args_ok(f, cfg, tn, call, stored_value, out):
    """block_has_been_optimized(orig, cand, crit): cand.instructions was set to the stored value; crit is params.criteria."""
    if len(call.args) < 3:
        return False
    cand, crit = call.args[1], call.args[2]
    if not (isinstance(crit, ast.Attribute) and crit.attr == "criteria"):
        return False
    if not isinstance(cand, ast.Name):
        return False
    for n in cfg.nodes:
        a = n.ast
        if n.kind == "stmt" and isinstance(a, ast.Assign) and len(a.targets) == 1 and isinstance(a.targets[0], ast.Attribute) \
                and a.targets[0].attr == "instructions" and is_name(a.targets[0].value, cand.id):
            if same_expr(a.value, stored_value) and cfg.dominates(n, tn):
                return True
    return False


# ----------------------------------------------------------------------------------------------- C08.b
SIGNS = (-1, 0, 1)
# which other measures decide a tie in the chosen criterion (read from block_has_been_optimized and the option help: gas <-> size, and
# both for -length); a candidate that ties and is worse in one of them is not an improvement
TIE_BREAKERS = {"size": ("gas",), "gas": ("size",), "length": ("gas", "size")}


def _premise_only_compared_with_zero(fnode, names, out, fname, allow_pairwise=False):
    """Each occurrence of a tracked name is an operand of a Compare against literal 0 (or another tracked name),
    the iterable of a for loop, or a call argument of a tracked callee."""
    ok = True
    for n in ast.walk(fnode):
        if isinstance(n, ast.Name) and n.id in names and isinstance(n.ctx, ast.Load):
            p = getattr(n, "_parent", None)
            if isinstance(p, ast.Compare):
                others = [p.left] + list(p.comparators)
                others = [o for o in others if o is not n]
                if all((isinstance(o, ast.Constant) and o.value == 0) or
                       (allow_pairwise and isinstance(o, ast.Name) and o.id in names) for o in others):
                    continue
            if isinstance(p, (ast.For,)) and p.iter is n:
                continue
            if isinstance(p, ast.Starred) or (isinstance(p, ast.Call) and n in p.args):
                continue
            ok = False
            out.info.setdefault("premise_failures", []).append(f"{fname}: `{n.id}` used in {short(p)}")
    return ok


def rule_b(ctx, out):
    # ---- improves_criterion ---------------------------------------------------------------------
    f = ctx.func(f"{GASOL}.improves_criterion")
    a = f.node.args
    if not a.args or a.vararg is None:
        raise AnalysisError("improves_criterion signature changed (expected (saved_criterion, *saved_other))")
    first, rest = a.args[0].arg, a.vararg.arg
    loop_vars = {n.target.id for n in ast.walk(f.node) if isinstance(n, ast.For) and isinstance(n.target, ast.Name)
                 and is_name(n.iter, rest)}
    if not _premise_only_compared_with_zero(f.node, {first} | loop_vars, out, "improves_criterion"):
        raise AnalysisError("improves_criterion: sign-domain premise failed: " + "; ".join(out.info.get("premise_failures", [])))
    ev = Evaluator(f.node)
    for k in range(0, 4 if ctx.tier == "thorough" else 3):
        for combo in itertools.product(SIGNS, repeat=1 + k):
            s0, others = combo[0], combo[1:]
            expected = s0 > 0 or (s0 == 0 and all(o >= 0 for o in others) and any(o > 0 for o in others))
            try:
                got = bool(ev.call(*combo))
            except (Unsupported,) as e:
                raise AnalysisError(f"improves_criterion: cannot evaluate abstractly: {e}")
            except Raised as e:
                got = f"raises {e.what}"
            if got == expected:
                out.ok({"improves_criterion": list(combo), "result": got})
            else:
                sg = "".join("-0+"[x + 1] for x in combo)
                out.bad(f"improves_criterion:signs={sg}", f"improves_criterion{combo} (signs of savings) = {got}, "
                        f"the acceptance rule of C08 requires {expected}", where(f), {"signs": sg, "got": got, "expected": expected})

    # ---- block_has_been_optimized ------------------------------------------------------------------
    g = ctx.func(f"{GASOL}.block_has_been_optimized")
    params = g.params
    if len(params) < 3:
        raise AnalysisError("block_has_been_optimized signature changed")
    # evaluated as a whole (own interpreter) on stand-in blocks for every criterion and every sign vector of the three savings
    # (original minus optimized in bytes, gas, length)
    from ..core.interp import ModuleInterp

    class Blk:
        def __init__(self, size, gas, length):
            self.bytes_required, self.gas_spent, self.length = size, gas, length

    def reference(sv0, others):
        return sv0 > 0 or (sv0 == 0 and all(o >= 0 for o in others) and any(o > 0 for o in others))

    def ref_improves(*args):
        return reference(args[0], args[1:])
    mi = ModuleInterp(ctx, obj_types=(Blk,), extern={"improves_criterion": ref_improves}, max_steps=20000)
    ORDER = ("size", "gas", "length")
    for criterion in ORDER:
        for combo in itertools.product(SIGNS, repeat=3):
            sv = dict(zip(ORDER, combo))
            try:
                got = bool(mi.call(g, Blk(10 + sv["size"], 10 + sv["gas"], 10 + sv["length"]), Blk(10, 10, 10), criterion))
            except Raised as e:
                out.bad(f"block_has_been_optimized:{criterion}:raises", f"block_has_been_optimized raises {e.what} (criterion '{criterion}', savings {sv})", where(g))
                continue
            except Unsupported as e:
                raise AnalysisError(f"block_has_been_optimized: cannot evaluate abstractly: {e}")
            sv0 = sv[criterion]
            # necessary conditions of C08: accepted => not worse in the chosen criterion; strictly better => accepted
            if got and sv0 < 0:
                out.bad(f"block_has_been_optimized:{criterion}:accepts-worse", f"criterion '{criterion}': a candidate that is worse in the chosen criterion "
                        f"is accepted (savings original - optimized: {sv})", where(g))
            elif not got and sv0 > 0:
                out.bad(f"block_has_been_optimized:{criterion}:rejects-better", f"criterion '{criterion}': a strictly cheaper candidate is rejected "
                        f"(savings original - optimized: {sv})", where(g))
            elif got and sv0 == 0 and any(sv[k] < 0 for k in TIE_BREAKERS[criterion]):
                out.bad(f"block_has_been_optimized:{criterion}:accepts-tie-worse-in-a-tie-breaker", f"criterion '{criterion}': a candidate equal in the criterion "
                        f"and worse in {[k for k in TIE_BREAKERS[criterion] if sv[k] < 0][0]} is accepted (savings original - optimized: {sv}): the emitted block "
                        f"differs from its input without improving on it", where(g))
            elif got and sv0 == 0 and all(v <= 0 for k, v in sv.items() if k != criterion):
                out.bad(f"block_has_been_optimized:{criterion}:accepts-tie-without-gain", f"criterion '{criterion}': candidate equal in the "
                        f"criterion and better in nothing is accepted (savings {sv})", where(g))
            else:
                out.ok({"criterion": criterion, "savings": sv, "accepted": got})
    # unknown criterion string must not accept
    # ---- compare_best_block ---------------------------------------------------------------------------
    h = ctx.func(f"{GASOL}.compare_best_block")
    _compare_best_block(ctx, h, out)


def _compare_best_block(ctx, h, out):
    params = h.params
    if len(params) < 4:
        raise AnalysisError("compare_best_block signature changed")
    orig, sup, gre, crit = params[:4]
    # identify saved_* definitions per branch: name -> (which candidate)
    cand_of = {}
    for n in own_nodes(h.node):
        if isinstance(n, ast.Assign) and isinstance(n.targets[0], ast.Name) and isinstance(n.value, ast.BinOp) and isinstance(n.value.op, ast.Sub):
            left_names = {x.id for x in ast.walk(n.value.left) if isinstance(x, ast.Name)}
            right_names = {x.id for x in ast.walk(n.value.right) if isinstance(x, ast.Name)}
            tgt = n.targets[0].id
            if orig in left_names and orig not in right_names:
                c = sup if sup in right_names else gre if gre in right_names else None
                if c is None:
                    continue
                prev = cand_of.get(tgt)
                if prev is not None and prev != c:
                    out.bad(f"compare_best_block:saving-mixes-candidates:{tgt}", f"`{tgt}` measures different candidates in different branches", where(h, n))
                cand_of[tgt] = c
                # same metric on both sides
                la = {x.attr for x in ast.walk(n.value.left) if isinstance(x, ast.Attribute)}
                ra = {x.attr for x in ast.walk(n.value.right) if isinstance(x, ast.Attribute)}
                if la != ra:
                    out.bad(f"compare_best_block:metric-mismatch:{tgt}", f"`{tgt}` subtracts different metrics {sorted(la)} vs {sorted(ra)}", where(h, n))
                else:
                    out.ok({"saving": tgt, "candidate": c, "metric": sorted(la) or ["len"]})
            elif orig in right_names:
                out.bad(f"compare_best_block:saving-orientation:{tgt}", f"`{tgt}` is not original minus candidate", where(h, n))
    s_sup = [k for k, v in cand_of.items() if v == sup]
    s_gre = [k for k, v in cand_of.items() if v == gre]
    if len(s_sup) != 1 or len(s_gre) != 1:
        raise AnalysisError("compare_best_block: savings of the two candidates not recognised")
    s_sup, s_gre = s_sup[0], s_gre[0]
    if not _premise_only_compared_with_zero(h.node, {s_sup, s_gre}, out, "compare_best_block", allow_pairwise=True):
        raise AnalysisError("compare_best_block: premise failed (savings used outside comparisons)")
    # decision part = the trailing if/elif chain; evaluate for all orderings of (s_sup, s_gre, 0) with values in -2..2
    tail = [st for st in h.node.body if isinstance(st, ast.If) and any(isinstance(x, ast.Return) for x in ast.walk(st))
            and not any(isinstance(x, ast.Assign) for x in ast.walk(st))]
    if not tail:
        raise AnalysisError("compare_best_block: decision chain not found")
    fn = ast.FunctionDef(name="_d", args=ast.arguments(posonlyargs=[], args=[], kwonlyargs=[], kw_defaults=[], defaults=[]),
                         body=tail, decorator_list=[])
    for a in range(-2, 3):
        for b in range(-2, 3):
            ev = Evaluator(fn, globals_env={s_sup: a, s_gre: b, sup: "SUPEROPT", gre: "GREEDY", orig: "ORIG"})
            try:
                res = ev.call()
            except Unsupported as e:
                raise AnalysisError(f"compare_best_block: cannot evaluate decision chain: {e}")
            chosen = res[0] if isinstance(res, tuple) else res
            tag = res[1] if isinstance(res, tuple) and len(res) > 1 else None
            best = max(a, b)
            if tag == "both_worse_or_equal" or (a <= 0 and b <= 0):
                # nothing improves: any answer is later rejected by the acceptance test; only require no crash
                out.ok({"saved_superopt": a, "saved_greedy": b, "chosen": chosen, "tag": tag})
                continue
            chosen_saving = a if chosen == "SUPEROPT" else b if chosen == "GREEDY" else None
            if chosen_saving is None or chosen_saving < best:
                out.bad(f"compare_best_block:picks-worse:sup={_sgn(a, b)}", f"with savings superopt={a}, greedy={b} the function returns {chosen} "
                        f"(tag {tag}), which saves less than the other candidate", where(h))
            else:
                out.ok({"saved_superopt": a, "saved_greedy": b, "chosen": chosen, "tag": tag})


def _sgn(a, b):
    return "lt" if a < b else "gt" if a > b else "eq"


# ----------------------------------------------------------------------------------------------- C08.c
def rule_c(ctx, out):
    # (i) price functions of AsmBytecode consult is_push0 first and otherwise delegate to the single tables
    cls = ctx.p.cls("sfs_generator.asm_bytecode.AsmBytecode")
    needed = {"bytes_required": "get_ins_size", "gas_spent": "get_ins_cost", "gas_spent_accesses": "get_ins_cost"}
    # evaluated abstractly: for every opcode of the vocabulary the item's price is the table's price (and, with the flag on, a zero
    # push has the table price of PUSH0) — whatever helper methods the class uses to get there
    from ..core.interp import ModuleInterp
    from ..specs.evm import STACK_ARITY
    mi = ModuleInterp(ctx, max_steps=100000)
    Item = mi.fake_class(cls)
    tabs = {"get_ins_size": ctx.func("sfs_generator.utils.get_ins_size"), "get_ins_cost": ctx.func("sfs_generator.opcodes.get_ins_cost")}
    for m, table in needed.items():
        fi = cls.methods.get(m)
        if fi is None:
            raise AnalysisError(f"AsmBytecode.{m} not found")
        bad = None
        n_ok = 0
        for flag in (True, False):
            mi.module_env("global_params.constants")["push0_enabled"] = flag
            for op in sorted(STACK_ARITY) + ["PUSH"]:
                for value in (("0", "1", "ff", "1234") if op == "PUSH" else (None,)):
                    it = Item(disasm=op, value=value, real_value=value, jump_type=None, modifier_depth=None, begin=0, end=0, source=0)
                    try:
                        got = it.gas_spent_accesses(False, False) if m == "gas_spent_accesses" else getattr(it, m)
                        if flag and op == "PUSH" and value == "0":
                            want = mi.call(tabs[table], "PUSH0") if table == "get_ins_cost" else mi.call(tabs[table], "PUSH0", None)
                        elif table == "get_ins_cost":
                            want = mi.call(tabs[table], op, value, already=False) if m == "gas_spent_accesses" else mi.call(tabs[table], op, value)
                        else:
                            want = mi.call(tabs[table], op, int(value, 16) if op == "PUSH" else None)
                    except Raised:
                        continue
                    except Unsupported as e:
                        raise AnalysisError(f"AsmBytecode.{m}: cannot evaluate abstractly on {op} {value}: {e}")
                    if got == want:
                        n_ok += 1
                    elif bad is None:
                        bad = (op, value, flag, got, want)
        if bad is None and n_ok >= 100:
            out.ok({"method": fi.qual, "agrees_with": table, "items_evaluated": n_ok})
        elif bad is None:
            raise AnalysisError(f"AsmBytecode.{m}: only {n_ok} items could be evaluated")
        else:
            op, value, flag, got, want = bad
            out.bad(f"AsmBytecode.{m}:cost-source", f"AsmBytecode.{m} of `{op} {value}` (PUSH0 {'on' if flag else 'off'}) is {got!r}; {table} says {want!r}", where(fi))
    # (ii) AsmBlock totals are sums of the per-instruction prices
    blk = ctx.p.cls("sfs_generator.asm_block.AsmBlock")
    for m, attr in (("bytes_required", "bytes_required"), ("gas_spent", "gas_spent")):
        fi = blk.methods.get(m)
        if fi is None:
            raise AnalysisError(f"AsmBlock.{m} not found")
        reads = [n for n in own_nodes(fi.node) if isinstance(n, ast.Attribute) and n.attr in (attr, "gas_spent_accesses")
                 and not (isinstance(n.value, ast.Name) and n.value.id == "self")]
        consts = [n for n in own_nodes(fi.node) if isinstance(n, ast.AugAssign) and isinstance(n.value, ast.Constant)]
        if reads and not consts:
            out.ok({"method": fi.qual, "sums": attr})
        else:
            out.bad(f"AsmBlock.{m}:not-a-sum-of-instruction-prices", f"AsmBlock.{m} does not sum the per-instruction prices", where(fi))
    # (iii) who-may-define: no second gas table — numeric literal returns keyed by opcode names outside opcodes/utils
    tables = []
    for f in ctx.p.functions.values():
        if f.module.name.startswith(("sfs_generator.opcodes", "sfs_generator.utils", "statistics", "verification.utils_verify")):
            continue
        if f.name in ("get_ins_cost", "get_ins_size"):
            tables.append(f.qual)
    if tables:
        for t in tables:
            out.bad(f"second-cost-table:{t}", f"a second definition of a cost table exists: {t}")
    else:
        out.ok({"who_may_define": "get_ins_cost only in sfs_generator.opcodes, get_ins_size only in sfs_generator.utils"})


# ----------------------------------------------------------------------------------------------- C08.d
def rule_d(ctx, out):
    from .C01 import driver_sites, _emission
    upd = {"update_gas_count", "update_size_count", "update_length_count"}
    n_calls = 0
    for f, stmt, var, old_expr, producer in driver_sites(ctx):
        if producer != "optimize_asm_block_asm_format" or var is None:
            continue
        cfg = ctx.cfg(f)
        old_name = old_expr.id if isinstance(old_expr, ast.Name) else None
        # nodes that (re)bind var as the fallback
        fallback = [n for n in cfg.nodes if n.kind == "stmt" and isinstance(n.ast, ast.Assign) and
                    any(is_name(t, var) for t in n.ast.targets) and old_name and is_name(n.ast.value, old_name)]
        for n in cfg.nodes:
            for c in node_calls(n):
                if call_name(c) in upd:
                    n_calls += 1
                    ok_args = len(c.args) == 2 and same_expr(c.args[0], old_expr) and is_name(c.args[1], var)
                    # no fallback re-binding may follow the update before the emission (i.e. be reachable from it
                    # within the same iteration)
                    rebinders = {m.id for m in cfg.nodes if var in node_binds(m) and m not in fallback}
                    late = [fb for fb in fallback if cfg.paths_avoiding(n, fb, rebinders)]
                    if ok_args and not late:
                        out.ok({"function": f.qual, "call": short(c)})
                    elif not ok_args:
                        out.bad(f"{f.name}:{call_name(c)}:wrong-arguments", f"{short(c)} does not pass (input block, emitted block)", where(f, c))
                    else:
                        out.bad(f"{f.name}:{call_name(c)}:before-fallback", f"{short(c)} runs before the fallback re-binding, so totals "
                                f"may count a block that is not emitted", where(f, c))
    out.info["update_calls"] = n_calls
    # the update functions accumulate old into previous_*, new into new_* with the matching metric
    for name, metric in (("update_gas_count", "gas_spent"), ("update_size_count", "bytes_required")):
        u = ctx.func(f"{GASOL}.{name}")
        p = u.params
        good = 0
        for n in own_nodes(u.node):
            if isinstance(n, ast.AugAssign) and isinstance(n.op, ast.Add) and isinstance(n.target, ast.Name) \
                    and isinstance(n.value, ast.Attribute) and isinstance(n.value.value, ast.Name):
                tgt, src, attr = n.target.id, n.value.value.id, n.value.attr
                if attr != metric:
                    out.bad(f"{name}:wrong-metric", f"{name} accumulates .{attr}, expected .{metric}", where(u, n))
                elif (tgt.startswith("prev") and src == p[0]) or (tgt.startswith("new") and src == p[1]):
                    good += 1
                else:
                    out.bad(f"{name}:swapped-accumulators", f"{name}: `{tgt} += {src}.{attr}` mixes old and new", where(u, n))
        if good == 2:
            out.ok({"function": u.qual, "accumulates": metric})
        elif good < 2:
            out.bad(f"{name}:accumulation-missing", f"{name} does not accumulate both the old and the new figure", where(u))


def rule_e(ctx, out):
    """The price table itself: every opcode with a state-independent gas class is priced with that class's value (abstract
    evaluation of opcodes.get_ins_cost over the vocabulary), every opcode of the vocabulary has a positive size, and the opcode
    tables contain no implicit string concatenation ("A" "B" inside a tuple silently removes two opcodes from their class)."""
    import io
    import tokenize
    from ..core.interp import ModuleInterp
    from ..specs.evm import GAS_CLASS, GAS_VALUE, STACK_ARITY
    mi = ModuleInterp(ctx)
    gc = ctx.func("sfs_generator.opcodes.get_ins_cost")
    gs = ctx.func("sfs_generator.utils.get_ins_size")
    for cls, ops in GAS_CLASS.items():
        for op in ops:
            try:
                got = mi.call(gc, op)
            except (Unsupported, Raised) as e:
                raise AnalysisError(f"cannot evaluate get_ins_cost({op!r}): {e}")
            if got == GAS_VALUE[cls]:
                out.ok({"opcode": op, "gas": got, "class": cls})
            else:
                out.bad(f"gas-price:{op}", f"get_ins_cost({op!r}) = {got}; the EVM prices {op} in class W{cls} = {GAS_VALUE[cls]} gas. A wrong price makes "
                        f"the acceptance test compare the wrong quantities", "sfs_generator/opcodes.py", {"class": cls, "expected": GAS_VALUE[cls], "got": got})
    # byte sizes: the pseudo-push items against the assembler's table; a push of n bytes is 1 + n; every other opcode is 1 byte
    from ..specs.evm import ASM_ITEM_SIZE
    for name, want in sorted(ASM_ITEM_SIZE.items()):
        try:
            got = mi.call(gs, name, None)
        except (Unsupported, Raised) as e:
            raise AnalysisError(f"cannot evaluate get_ins_size({name!r}): {e}")
        if got == want:
            out.ok({"item": name, "bytes": got})
        else:
            out.bad(f"item-size:{name.replace(' ', '')}", f"get_ins_size({name!r}) = {got}; the assembler emits {want} byte(s) for this item: sizes compared by the "
                    f"acceptance test and printed as totals are off", "sfs_generator/utils.py", {"expected": want, "got": got})
    for val, want in ((0, 2), (1, 2), (255, 2), (256, 3), (2 ** 64, 10), (2 ** 256 - 1, 33)):
        try:
            got = mi.call(gs, "PUSH", val)
        except (Unsupported, Raised) as e:
            raise AnalysisError(f"cannot evaluate get_ins_size('PUSH', {val}): {e}")
        if got == want:
            out.ok()
        else:
            out.bad(f"item-size:PUSH:{want - 1}-byte-value", f"get_ins_size('PUSH', {val}) = {got}, a push of that value takes {want} bytes", "sfs_generator/utils.py")
    for op in sorted(STACK_ARITY):
        if op.startswith("PUSH") or op in ASM_ITEM_SIZE or op == "ASSIGNIMMUTABLE":     # ASSIGNIMMUTABLE expands to 3 + 32 bytes per occurrence
            continue
        try:
            got = mi.call(gs, op, None)
        except (Unsupported, Raised):
            continue
        if got == 1:
            out.ok()
        else:
            out.bad(f"item-size:{op}", f"get_ins_size({op!r}) = {got}; an opcode is one byte", "sfs_generator/utils.py")
    # nothing that executes is free
    free_ok = set(GAS_CLASS["zero"]) | {"INVALID", "ASSIGNIMMUTABLE", "MCOPY"}
    for op in sorted(STACK_ARITY):
        if op in free_ok:
            continue
        try:
            got = mi.call(gc, op)
        except (Unsupported, Raised):
            continue
        if got and got > 0:
            out.ok()
        else:
            out.bad(f"gas-price-zero:{op}", f"get_ins_cost({op!r}) = {got}: an executing opcode priced 0 makes every sequence that repeats it look free", "sfs_generator/opcodes.py")
    for op in sorted(STACK_ARITY):
        if op in ("PUSH",):
            continue
        try:
            sz = mi.call(gs, op, None)
        except (Unsupported, Raised):
            continue
        if isinstance(sz, int) and sz >= 1:
            out.ok()
        else:
            out.bad(f"size-price:{op}", f"get_ins_size({op!r}) = {sz}", "sfs_generator/utils.py")
    # implicit string concatenation inside collection displays of the table modules
    for modname in ("sfs_generator.opcodes", "global_params.constants", "sfs_generator.ir_block", "sfs_generator.gasol_optimization"):
        mod = ctx.p.module(modname)
        depth = 0
        prev = None
        try:
            toks = list(tokenize.generate_tokens(io.StringIO(mod.src).readline))
        except tokenize.TokenError:
            continue
        for t in toks:
            if t.type == tokenize.OP and t.string in "([{":
                depth += 1
            elif t.type == tokenize.OP and t.string in ")]}":
                depth -= 1
            if t.type in (tokenize.NL, tokenize.COMMENT, tokenize.NEWLINE):
                continue
            if t.type == tokenize.STRING and prev is not None and prev.type == tokenize.STRING and depth > 0 \
                    and not t.string.startswith(("f", "F")) and not prev.string.startswith(("f", "F")):
                out.bad(f"implicit-string-concatenation:{modname}:{prev.string}{t.string}", f"{mod.rel}:{t.start[0]}: adjacent string literals {prev.string} {t.string} "
                        f"inside a collection are concatenated into one element (missing comma)", f"{mod.rel}:{t.start[0]}")
            prev = t
    out.ok({"implicit_concatenations": 0})


def rule_f(ctx, out):
    """The accumulators of the cost functions are separate objects.  AsmBlock.gas_spent keeps the set of warm account addresses and the
    sets of warm / written storage slots apart: an access is priced by membership in *its* set.  `a = b = set()` binds one object to
    both names, so a word touched as an address makes the slot with the same word look warm (and the price of a block depend on the
    order of its accesses).  Project-wide lint: no chained assignment of a fresh mutable container to names that are each mutated."""
    from ..core.idioms import aliased_accumulators
    hits = list(aliased_accumulators(ctx))
    for f, node, names in hits:
        out.bad(f"accumulators-share-one-object:{f.qual.split('.', 1)[-1]}:{'='.join(names)}", f"{f.qual}: `{short(node, 80)}` binds one container to {names}, and each of "
                f"them is filled separately afterwards: what is added to one is a member of the others", where(f, node))
    # what the rule looked at: the multi-accumulator initialisations of the cost functions
    n = 0
    for q in ("sfs_generator.asm_block.AsmBlock.gas_spent", "sfs_generator.asm_block.AsmBlock.gas_spent_by_storage"):
        f = ctx.p.func_opt(q)
        if f is None:
            continue
        sets = [x for x in own_nodes(f.node) if isinstance(x, ast.Assign) and any(isinstance(c, ast.Call) and call_name(c) == "set" for c in ast.walk(x.value))]
        n += len(sets)
        if not [h for h in hits if h[0] is f]:
            out.ok({"function": q, "accumulator_initialisations": [short(x, 70) for x in sets]})
    if n < 2:
        raise AnalysisError("the warm-address / warm-slot accumulators of AsmBlock.gas_spent were not found")


def rule_g(ctx, out):
    """Only accepted candidates are logged.  The log written with -log is replayed by -optimize-from-log with an equivalence check but
    no cost check, so an entry for a candidate that the acceptance test (block_has_been_optimized) refused is re-applied on replay:
    the replayed output can cost more than the input.  In optimize_asm_block_asm_format every store into the returned log dictionary,
    and every non-None store into the replacement map, must sit on the accepting edge of a test of block_has_been_optimized."""
    f = ctx.func(f"{GASOL}.optimize_asm_block_asm_format")
    cfg = ctx.cfg(f)
    rets = [r for r in own_nodes(f.node) if isinstance(r, ast.Return) and isinstance(r.value, ast.Tuple)]
    returned = {e.id for r in rets for e in r.value.elts if isinstance(e, ast.Name)}
    rebuild_args = {a.id for c in calls_in(f.node, "rebuild_optimized_asm_block") for a in c.args if isinstance(a, ast.Name)}
    # acceptance tests: a test whose expression calls block_has_been_optimized, or names a local assigned from such a call
    acc_locals = {t.id for n in own_nodes(f.node) if isinstance(n, ast.Assign) and any(call_name(c) == "block_has_been_optimized" for c in calls_in(n.value))
                  for t in n.targets if isinstance(t, ast.Name)}
    tests = [t for t in cfg.nodes if t.kind == "test" and (any(call_name(c) == "block_has_been_optimized" for c in calls_in(t.ast))
                                                          or any(isinstance(x, ast.Name) and x.id in acc_locals for x in ast.walk(t.ast)))]
    if not tests:
        raise AnalysisError("optimize_asm_block_asm_format: the acceptance test (block_has_been_optimized) was not found")
    n = 0
    for node in cfg.nodes:
        if node.kind != "stmt" or not isinstance(node.ast, ast.Assign):
            continue
        for tg in node.ast.targets:
            if not (isinstance(tg, ast.Subscript) and isinstance(tg.value, ast.Name) and tg.value.id in (returned | rebuild_args)):
                continue
            is_none = isinstance(node.ast.value, ast.Constant) and node.ast.value.value is None
            if is_none:
                continue
            n += 1
            # negated tests accept on their F edge
            guarded = any(cfg.edge_dominated_by_branch(node, t, "F" if isinstance(t.ast, ast.UnaryOp) and isinstance(t.ast.op, ast.Not) else "T") for t in tests)
            what = "log entry" if tg.value.id in returned else "replacement"
            if guarded:
                out.ok({"store": short(node.ast, 70), "kind": what, "under": "the accepting edge of block_has_been_optimized"})
            else:
                out.bad(f"{'log-entry' if what == 'log entry' else 'replacement'}-written-without-acceptance:{tg.value.id}", f"optimize_asm_block_asm_format: `{short(node.ast, 70)}` "
                        f"({what}) is reached without the acceptance test having accepted the candidate: " +
                        ("a refused candidate is replayed from the log, where only equivalence is checked" if what == "log entry" else "a refused candidate goes into the output"),
                        where(f, node.ast))
    if n < 2:
        raise AnalysisError(f"optimize_asm_block_asm_format: only {n} stores into the log / replacement map found")


RULES = [
    ("C08.g", "only accepted candidates are logged and emitted", 2, rule_g),
    ("C08.f", "accumulators of the cost functions are separate objects", 2, rule_f),
    ("C08.e", "price tables: static gas classes, nothing free, no missing comma", 120, rule_e),
    ("C08.a", "acceptance test dominates replacement", 2, rule_a),
    ("C08.b", "decision tables over the sign domain", 100, rule_b),
    ("C08.c", "single source of cost", 6, rule_c),
    ("C08.d", "totals updated with the emitted block", 8, rule_d),
]
