"""C05 — the built-in equivalence checkers never accept distinguishable blocks (scoped claim).

C05.a no conflation inherited from the shared front-end (injective opcode -> functor map)            [E1]
C05.b commutativity: flag derives from the EVM-commutative set; operand-swapped retry only under the flag
C05.c the comparison covers every component: are_equals / compare_variables evaluate all parts before accepting
C05.d totality: no raise / unguarded [0] on filter results in code reachable from verify_block_from_list_of_sfs
C05.e a (verdict, reason) pair is never used as a truth value
C05.f no name-equality shortcut around the structural comparison
C05.g an unmatched dependence is decided, never skipped
C05.h byte stores take part in the comparison
C05.i the comparison is sensitive to every component of a specification
"""
import ast

from ..core.flow import call_name, calls_in, is_name, propagate_unverified, node_calls
from ..core.loader import AnalysisError, short, own_nodes, norm, canon, function_locals
from ..core.minieval import Evaluator, Unsupported, Raised
from ..core.report import where
from ..specs.evm import COMMUTATIVE

TECHNIQUE = ("injectivity of the abstractly evaluated opcode->functor map; table comparison of the commutative set; "
             "CFG must-pass-through analysis of the accepting returns of the comparison functions; effect rule (no raise)")
LEVEL_TEXT = ('Decides necessary structural conditions of checker soundness: the front-end both blocks are re-specified '
              'with cannot map two opcodes to one operator; operands are compared in order unless the operation is in the '
              'EVM-commutative set; an accepting answer is reachable only after source stack, target stack, both dependence '
              'lists and the store/load records were compared; and the comparison cannot raise by itself. Bounded, by '
              'abstract evaluation: are_equals is sensitive to every component of small specifications (C05.i: 170+ single- '
              'component changes incl. reversed dependences among several same-opcode accesses), and the block comparison '
              'looks at every part of a block incl. the split instructions (C05.j). It does not decide that equal '
              'specifications imply indistinguishable blocks (that is C02/C03).'
              ' Added in seeding round 9: the adapter of the external checker refuses pairs that differ outside the segments it renders (C05.l, forves_format evaluated on parsed pairs).')
EXPLANATION = ("are_equals is analysed on its CFG: every return whose first component may be True must be dominated by "
               "the rejecting tests of all five component comparisons. compare_variables: disasm, value, then inputs; the "
               "swapped retry is control dependent on elem_origin['commutative'].")
NOT_DECIDED = ("reflexivity beyond totality; fidelity of the Forves text rendering (external checker binary absent; adapter only "
               "reached under -forves)")
ASSUMPTIONS = ["both specifications are produced by the same front-end with the same options (compare_asm_block_asm_format does so: C01.a)"]

V = "verification.sfs_verify"

# raise sites in the comparison without an exhibited failing input (block-level effect is contained since the F5 repair)
TRIAGED_UNPROVEN = {
    # keys are canonical in the function's local names (L1 = first local mentioned) and do not name the function: a raise that an
    # extract-helper refactoring moves into a helper is the same site
    "raise:len(L1) == 0": "no KECCAK dependence with the same second id in the optimized list; conservative reject",
}


def rule_a(ctx, out):
    from . import roundtrip as rt
    rows, info, own, _ = rt.table(ctx)
    voc = rt.vocabulary(ctx)
    by = {}
    for o in voc:
        row = rows[o]
        if o in rt.NO_FUNCTOR or not row.get("funct") or row.get("delta") is None:
            continue
        if not row.get("back"):
            continue
        by.setdefault(row["funct"], []).append(o)
    for sk, ops in sorted(by.items()):
        if len(ops) == 1:
            out.ok({"functor": sk, "opcode": ops[0]})
        else:
            out.bad(f"functor-conflation:{'|'.join(sorted(ops))}", f"opcodes {sorted(ops)} are both specified with functor {sk!r}: the comparison of two "
                    f"specifications cannot distinguish them, so swapping one for the other is accepted", rt.IR)
    # back-mapping injective as well: two functors must not map to the same opcode unless they are the same opcode
    if len(by) < 40:
        raise AnalysisError(f"only {len(by)} functors in the vocabulary")


def rule_b(ctx, out):
    mod = ctx.p.module("sfs_generator.gasol_optimization")
    cb = None
    for st in mod.tree.body:
        if isinstance(st, ast.Assign) and is_name(st.targets[0], "commutative_bytecodes"):
            cb = ast.literal_eval(st.value)
    if cb is None:
        raise AnalysisError("commutative_bytecodes not found")
    for o in sorted(cb):
        if o in COMMUTATIVE:
            out.ok({"commutative": o})
        else:
            out.bad(f"not-commutative:{o}", f"{o} is listed in commutative_bytecodes but EVM {o} depends on operand order: the checker accepts swapped operands", mod.rel)
    # every place a record's "commutative" field is produced
    n = 0
    for f in ctx.p.funcs_in(mod.name):
        for st in own_nodes(f.node):
            if isinstance(st, ast.Assign) and isinstance(st.targets[0], ast.Subscript) and isinstance(st.targets[0].slice, ast.Constant) \
                    and st.targets[0].slice.value == "commutative":
                n += 1
                v = st.value
                txt = norm(v)
                if "commutative_bytecodes" in txt:
                    out.ok({"function": f.name, "commutative": "derived from commutative_bytecodes"})
                elif isinstance(v, ast.Constant) and v.value is False:
                    out.ok()
                elif isinstance(v, ast.Constant) and v.value is True:
                    # literal True: the record must be relabelled to a commutative opcode in the same block
                    blk = getattr(st, "_parent", None)
                    recv = norm(st.targets[0].value)
                    ops = [s.value.value for s in getattr(blk, "body", []) if isinstance(s, ast.Assign) and isinstance(s.targets[0], ast.Subscript)
                           and isinstance(s.targets[0].slice, ast.Constant) and s.targets[0].slice.value == "disasm" and isinstance(s.value, ast.Constant)
                           and norm(s.targets[0].value) == recv]
                    if ops and all(o in COMMUTATIVE for o in ops):
                        out.ok({"function": f.name, "commutative": True, "disasm": ops})
                    else:
                        out.bad(f"commutative-literal-true:{f.name}:{'|'.join(ops) or '?'}", f"{f.name} sets commutative=True on a record whose opcode {ops} is not commutative", where(f, st))
                else:
                    out.bad(f"commutative-from-unknown:{f.name}", f"record field commutative is computed as `{txt}`", where(f, st))
    if n < 5:
        raise AnalysisError("fewer than 5 assignments of the record field commutative found")
    # (the operand-swapped retry of compare_variables is decided behaviourally by C05.i)


def _accepting_returns(cfg):
    res = []
    for n in cfg.nodes:
        a = n.ast
        if n.kind == "stmt" and isinstance(a, ast.Return) and a.value is not None:
            first = a.value.elts[0] if isinstance(a.value, ast.Tuple) and a.value.elts else a.value
            if not (isinstance(first, ast.Constant) and first.value is False):
                res.append(n)
    return res


def _params_of(expr, f):
    from ..core.flow import single_assignments
    names = {x.id for x in ast.walk(expr) if isinstance(x, ast.Name)}
    res = names & set(f.params)
    sa_ = single_assignments(f.node)
    for nm in names - set(f.params):
        for (_, v, _i) in sa_.get(nm, []):
            res |= {x.id for x in ast.walk(v) if isinstance(x, ast.Name)} & set(f.params)
    return res


def rule_c(ctx, out):
    f = ctx.func(f"{V}.are_equals")
    cfg = ctx.cfg(f)
    acc = _accepting_returns(cfg)
    if not acc:
        raise AnalysisError("are_equals has no accepting return")
    # component comparisons: name bound from a call / comparison, then `if not name: return False`
    comps = {}
    for n in cfg.nodes:
        a = n.ast
        if n.kind == "stmt" and isinstance(a, ast.Assign):
            tgt = a.targets[0]
            flag = tgt.id if isinstance(tgt, ast.Name) else tgt.elts[0].id if isinstance(tgt, ast.Tuple) and isinstance(tgt.elts[0], ast.Name) else None
            if flag is None:
                continue
            if isinstance(a.value, ast.Call) and call_name(a.value) in ("compare_target_stack", "compare_dependences", "compare_storage_userdef_ins"):
                key = call_name(a.value)
                if key == "compare_dependences":
                    key += ":" + (a.value.args[-1].value if isinstance(a.value.args[-1], ast.Constant) else "?")
                comps[key] = (n, flag)
            elif isinstance(a.value, ast.Compare) and len(a.value.ops) == 1 and isinstance(a.value.ops[0], ast.Eq) \
                    and {p_ for s_ in (a.value.left, a.value.comparators[0]) for p_ in _params_of(s_, f)} == set(f.params[:2]):
                comps["source_stack"] = (n, flag)     # a direct equality between something of the first and something of the second specification
    need = ["source_stack", "compare_target_stack", "compare_dependences:storage", "compare_dependences:memory", "compare_storage_userdef_ins"]
    for k in need:
        if k not in comps:
            # whether every component is *looked at* is decided behaviourally by C05.i; this rule adds the path argument
            # (no accepting return without the comparison) for the components it can recognise
            out.unproven.append({"site": f"are_equals:{k}", "reason": "comparison not in the recognised form `flag = compare(...)`; sensitivity is decided by C05.i"})
            continue
        node, flag = comps[k]
        hits = propagate_unverified(cfg, node, flag, lambda n: False, lambda n: n in acc)
        dominated = all(cfg.dominates(node, r) for r in acc)
        if hits or not dominated:
            out.bad(f"are_equals:component-ignored:{k}", f"an accepting return of are_equals is reachable although `{k}` compared unequal "
                    f"(or without comparing it)", where(f, node.ast))
        else:
            out.ok({"are_equals": k, "rejects_on_mismatch": True})
    # compare_dependences call arguments: the dependence lists of the matching location
    for k in ("compare_dependences:storage", "compare_dependences:memory"):
        if k in comps:
            call = comps[k][0].ast.value
            loc = k.split(":")[1]
            defs = {}
            for n in cfg.nodes:
                if n.kind == "stmt" and isinstance(n.ast, ast.Assign) and isinstance(n.ast.targets[0], ast.Name) and isinstance(n.ast.value, ast.Subscript) \
                        and isinstance(n.ast.value.slice, ast.Constant) and cfg.dominates(n, comps[k][0]):
                    defs.setdefault(n.ast.targets[0].id, []).append((n, n.ast.value.slice.value))
            ok = True
            for a in call.args[:2]:
                if isinstance(a, ast.Name) and a.id in defs:
                    last = max(defs[a.id], key=lambda x: x[0].ast.lineno)
                    if last[1] != f"{loc}_dependences":
                        ok = False
                else:
                    ok = False
            if ok:
                out.ok({"are_equals": k, "lists": f"{loc}_dependences of both specifications"})
            else:
                out.bad(f"are_equals:wrong-dependence-list:{loc}", f"the {loc} comparison is not given the {loc}_dependences lists", where(f, call))


def rule_d(ctx, out):
    roots = [ctx.callee_in(ctx.func("gasol_asm.compare_asm_block_asm_format"), V)]
    reach = ctx.r.reachable(roots, by_name=False)
    out.info["functions_reachable_from_the_comparison"] = sorted(reach)
    n = 0
    for q, f in sorted(reach.items()):
        for st in own_nodes(f.node):
            if isinstance(st, ast.Raise):
                n += 1
                p = getattr(st, "_parent", None)
                cond = norm(p.test) if isinstance(p, ast.If) else "?"
                key = f"raise:{canon(cond, function_locals(f.node))}"
                if key in TRIAGED_UNPROVEN:
                    if key not in [u["site"] for u in out.unproven]:
                        out.unproven.append({"site": key, "reason": TRIAGED_UNPROVEN[key]})
                    out.ok()
                else:
                    out.bad(f"comparison-raises:{key}", f"{f.name} raises under `{cond}`: the comparison is not total", where(f, st))
            # [0] on a filter/list-comprehension result without a length guard
            if isinstance(st, ast.Subscript) and isinstance(st.slice, ast.Constant) and st.slice.value == 0 and isinstance(st.value, ast.Call) \
                    and call_name(st.value) == "list" and st.value.args and isinstance(st.value.args[0], ast.Call) and call_name(st.value.args[0]) == "filter":
                out.info.setdefault("unguarded_first_of_filter", []).append(f"{f.name}: {short(st, 70)}")
        out.ok({"function": q})
    if len(reach) < 8:
        raise AnalysisError("fewer than 8 functions reachable from verify_block_from_list_of_sfs")


def tuple_returning(ctx, modules):
    res = {}
    for f in ctx.p.functions.values():
        if f.module.name not in modules:
            continue
        rets = [r for r in own_nodes(f.node) if isinstance(r, ast.Return) and r.value is not None]
        if rets and all(isinstance(r.value, ast.Tuple) and len(r.value.elts) >= 2 for r in rets):
            res[f.qual] = f
    return res


def _truth_context(n):
    """Is expression node n evaluated for its truth value?"""
    p = getattr(n, "_parent", None)
    if isinstance(p, (ast.If, ast.While, ast.IfExp, ast.Assert)) and p.test is n:
        return "condition"
    if isinstance(p, ast.BoolOp):
        return "and/or operand"
    if isinstance(p, ast.UnaryOp) and isinstance(p.op, ast.Not):
        return "not operand"
    if isinstance(p, (ast.GeneratorExp, ast.ListComp)) and p.elt is n:
        pp = getattr(p, "_parent", None)
        if isinstance(pp, ast.Call) and call_name(pp) in ("all", "any"):
            return f"{call_name(pp)}() element"
    if isinstance(p, ast.comprehension) and n in p.ifs:
        return "comprehension filter"
    return None


def rule_e(ctx, out):
    """A (verdict, reason) pair is always truthy: using the pair itself as a condition accepts everything."""
    mods = {V, "gasol_asm"}
    T = tuple_returning(ctx, mods)
    if len(T) < 6:
        raise AnalysisError(f"only {len(T)} pair-returning functions found in the comparison modules")
    n = 0
    for f in ctx.p.functions.values():
        if f.module.name not in mods:
            continue
        pair_names = set()
        for node in own_nodes(f.node):
            if isinstance(node, ast.Call):
                tg = ctx.r.resolve_call(f, node)
                if len(tg) == 1 and tg[0].qual in T:
                    n += 1
                    c = _truth_context(node)
                    if c:
                        out.bad(f"pair-used-as-truth-value:{f.name}:{tg[0].name}", f"{f.name} uses the (verdict, reason) pair returned by {tg[0].name} as {c}: "
                                f"a non-empty tuple is always true, so the comparison accepts everything", where(f, node))
                    else:
                        out.ok()
                    p = getattr(node, "_parent", None)
                    if isinstance(p, ast.Assign) and len(p.targets) == 1 and isinstance(p.targets[0], ast.Name):
                        pair_names.add(p.targets[0].id)
        for node in own_nodes(f.node):
            if isinstance(node, ast.Name) and node.id in pair_names and isinstance(node.ctx, ast.Load) and _truth_context(node):
                out.bad(f"pair-used-as-truth-value:{f.name}:{node.id}", f"{f.name} tests `{node.id}`, which holds a (verdict, reason) pair", where(f, node))
    out.samples.append({"calls_of_pair_returning_functions": n, "pair_returning_functions": sorted(x.split('.')[-1] for x in T)})


STRUCTURAL = {"compare_variables", "search_val_in_userdef", "search_all_vals_in_userdef"}


def _side(name):
    n = name.lower()
    if "orig" in n:
        return "orig"
    if "opt" in n:
        return "opt"
    return None


def _name_level_compare(test):
    """A Compare between two whole values of the two specifications (records, record lists, dependence pairs) by ==, !=, in, not in."""
    if isinstance(test, ast.Compare) and len(test.ops) == 1 and isinstance(test.ops[0], (ast.Eq, ast.NotEq, ast.In, ast.NotIn)):
        l, r = test.left, test.comparators[0]
        if isinstance(l, ast.Name) and isinstance(r, ast.Name):
            sl, sr = _side(l.id), _side(r.id)
            if {sl, sr} == {"orig", "opt"} or (sr == "opt" and isinstance(test.ops[0], (ast.In, ast.NotIn))):
                return True
    return False


def rule_f(ctx, out):
    """Stack variable names and instruction ids are local to each specification.  Equality (or membership) of whole records /
    dependence pairs of the two sides is therefore no evidence that they denote the same thing, and must not be what decides
    whether the structural comparison is carried out."""
    n = 0
    for f in ctx.p.funcs_in(V):
        for c in calls_in(f.node):
            if call_name(c) not in STRUCTURAL:
                continue
            cur = c
            while cur is not None and cur is not f.node:
                p = getattr(cur, "_parent", None)
                if isinstance(p, ast.If) and (cur in p.body or any(cur is x for b in p.body for x in ast.walk(b))):
                    t = p.test
                    n += 1
                    if _name_level_compare(t):
                        out.bad(f"name-equality-shortcut:{f.name}:{canon(norm(t), function_locals(f.node))}", f"in {f.name} the structural comparison `{short(c, 50)}` is only carried out when "
                                f"`{norm(t)}`: two values with the same local names are taken to be the same without looking at what they denote",
                                where(f, p))
                    elif isinstance(t, ast.BoolOp) and isinstance(t.op, ast.Or) and any(_name_level_compare(v) for v in t.values):
                        # skipped only when every disjunct is false: sound if the others say "no operands" and "no value"
                        txt = norm(t)
                        if "inpt_sk" in txt and "value" in txt:
                            out.ok({"function": f.name, "shortcut": txt, "restricted_to": "records without operands and value"})
                        else:
                            out.bad(f"name-equality-shortcut:{f.name}:{canon(norm(t), function_locals(f.node))}", f"in {f.name} `{norm(t)}` lets records with operands or a value be matched by name",
                                    where(f, p))
                    else:
                        out.ok()
                cur = p
    out.samples.append({"guards_of_structural_comparisons_examined": n})
    if n < 8:
        raise AnalysisError(f"only {n} guards around structural comparisons found")


def rule_g(ctx, out):
    """A dependence of the original block that is not a dependence of the optimized one must be decided.  In compare_dependences
    the branch `if all(first_opt_id != d[0] or second_opt_id != d[1] for d in dep_opt)` is that situation; every path through it
    must assign `verified` (from a comparison, or False) or raise.  A path that leaves it untouched (`continue`, `pass`) keeps
    verified == True from the initialisation: the missing dependence is accepted."""
    from ..core.flow import node_binds
    f = ctx.func(f"{V}.compare_dependences")
    cfg = ctx.cfg(f)
    n = 0
    # the flag: the local that is initialised to True at the top of the function and is what every `return <name>` returns
    rets = [r for r in own_nodes(f.node) if isinstance(r, ast.Return) and isinstance(r.value, ast.Name)]
    inits = [a for a in f.node.body if isinstance(a, ast.Assign) and isinstance(a.targets[0], ast.Name) and isinstance(a.value, ast.Constant) and a.value.value is True]
    flags = {r.value.id for r in rets} & {a.targets[0].id for a in inits}
    if len(flags) != 1:
        raise AnalysisError("compare_dependences: verified flag idiom (initialised to True at the top, returned) not found")
    FLAG = next(iter(flags))
    # the optimized block's dependences: the parameter-derived collection the `all(...)` of the unmatched test ranges over
    for st in own_nodes(f.node):
        if not (isinstance(st, ast.If) and any(call_name(c) == "all" and c.args and isinstance(c.args[0], ast.GeneratorExp) for c in calls_in(st.test))):
            continue
        loop = getattr(st, "_parent", None)
        while loop is not None and not isinstance(loop, (ast.For, ast.While)):
            loop = getattr(loop, "_parent", None)
        if not isinstance(loop, ast.For):
            continue
        t = next((x for x in cfg.nodes if x.kind == "test" and x.owner is st), None) or cfg.stmt_node(st)
        head = next((x for x in cfg.nodes if x.kind == 'iter' and x.owner is loop), None)
        if t is None or head is None:
            raise AnalysisError("compare_dependences: CFG nodes of the unmatched-dependence branch not found")
        n += 1
        binders = {x.id for x in cfg.nodes if FLAG in node_binds(x)}
        if not binders:
            raise AnalysisError(f"compare_dependences: no assignment to `{FLAG}` found")
        if cfg.paths_avoiding(t, head, binders, src_labels={"T"}, skip_exc=True):
            # name the statement that escapes
            esc = [x for b in st.body for x in ast.walk(b) if isinstance(x, (ast.Continue, ast.Pass, ast.Break))]
            what = f"`{type(esc[0]).__name__.lower()}` at line {esc[0].lineno}" if esc else "a branch without else"
            out.bad(f"unmatched-dependence-not-decided:compare_dependences:{type(esc[0]).__name__.lower() if esc else 'fallthrough'}",
                    f"compare_dependences: when a dependence of the original has no counterpart in the optimized block, {what} reaches the next "
                    f"candidate without assigning `verified` or raising: the flag keeps its initial True", where(f, esc[0] if esc else st))
        else:
            out.ok({"function": "compare_dependences", "branch": short(st.test, 70), "every_path": "assigns verified or raises"})
    if n < 1:
        raise AnalysisError("compare_dependences: unmatched-dependence branch not found")
    out.ok({"flag": FLAG, "initial": "True", "returned": True})


def is_name_(e, n):
    return isinstance(e, ast.Name) and e.id == n


def rule_h(ctx, out):
    """The comparison looks at byte stores too.  MSTORE8 has no output variable, so its operands are compared nowhere but in the
    store/load record comparison: every predicate of the verification module that selects MSTORE records must select MSTORE8
    records as well (the existing code does, through substring tests)."""
    from ..core.idioms import store_predicates
    n = 0
    for f, expr, acc in store_predicates(ctx, {V}):
        if "MSTORE" not in acc and "MSTORE8" not in acc:
            continue
        n += 1
        if "MSTORE" in acc and "MSTORE8" not in acc:
            out.bad(f"store-predicate-misses-MSTORE8:{f.name}:{norm(expr)[:50]}", f"in {f.name} the predicate `{short(expr, 70)}` selects MSTORE records but not "
                    f"MSTORE8 records: byte stores are left out of the comparison", where(f, expr), {"accepts": sorted(acc)})
        elif acc & {"SSTORE", "SLOAD"}:
            # the comparison works per location: the records of the memory dependences are looked up among the memory accesses (and
            # the hashes), those of the storage dependences among the storage accesses.  A filter that takes both finds, for a
            # dependence that mentions an access of the other location, a record where the comparison used to stop
            out.bad(f"location-filter-mixes-memory-and-storage:{f.name}", f"in {f.name} the predicate `{short(expr, 70)}` selects memory and storage accesses "
                    f"alike ({sorted(acc)}): the per-location comparison of dependences pairs accesses of different locations", where(f, expr), {"accepts": sorted(acc)})
        else:
            out.ok({"function": f.name, "predicate": short(expr, 60), "accepts": sorted(acc)})
    if n < 4:
        raise AnalysisError(f"only {n} memory-store predicates found in the verification module")


def _spec(term_list, stores=(), mem_deps=(), sto_deps=()):
    """A small specification: the target stack holds the given terms; stores = [(opcode, address term, value term)]."""
    from ..core import ctxrules as cr
    recs, memo, counter, idc, tgt = [], {}, [3], {}, []

    def go(t):
        if isinstance(t, int):
            return t
        if isinstance(t, str):
            return cr.VARNAME[t]
        if t in memo:
            return memo[t]
        ins = [go(c) for c in t[1:]]
        v = f"s({counter[0]})"
        counter[0] += 1
        k = idc.get(t[0], 0)
        idc[t[0]] = k + 1
        recs.append({"id": f"{t[0]}_{k}", "opcode": "00", "disasm": t[0], "inpt_sk": ins, "outpt_sk": [v], "push": False, "gas": 3,
                     "commutative": t[0] in cr.COMM, "storage": False, "size": 1})
        memo[t] = v
        return v
    for t in term_list:
        tgt.append(go(t))
    for op, a, v in stores:
        k = idc.get(op, 0)
        idc[op] = k + 1
        recs.append({"id": f"{op}_{k}", "opcode": "00", "disasm": op, "inpt_sk": [go(a), go(v)], "outpt_sk": [], "push": False, "gas": 3, "commutative": False,
                     "storage": True, "size": 1})
    return {"src_ws": ["s(0)", "s(1)", "s(2)"], "tgt_ws": tgt, "user_instrs": recs, "storage_dependences": [list(d) for d in sto_deps],
            "memory_dependences": [list(d) for d in mem_deps]}


def _renamed(spec):
    """The same specification with other names for the computed variables and the records listed in reverse order."""
    import copy
    import re

    def ren(v):
        m = re.fullmatch(r"s\((\d+)\)", v) if isinstance(v, str) else None
        return f"s({int(m.group(1)) + 20})" if m and int(m.group(1)) >= 3 else v
    out = copy.deepcopy(spec)
    out["tgt_ws"] = [ren(v) for v in out["tgt_ws"]]
    for r in out["user_instrs"]:
        r["inpt_sk"] = [ren(v) for v in r["inpt_sk"]]
        r["outpt_sk"] = [ren(v) for v in r["outpt_sk"]]
    out["user_instrs"].reverse()
    return out


def _mutations(spec):
    """(label, mutated copy) — each changes what the block computes in exactly one component."""
    import copy
    for i, v in enumerate(spec["tgt_ws"]):
        m = copy.deepcopy(spec)
        m["tgt_ws"][i] = "s(1)" if v != "s(1)" else "s(0)"
        yield f"target-element", m
    if len(spec["tgt_ws"]) >= 2 and spec["tgt_ws"][0] != spec["tgt_ws"][1]:
        m = copy.deepcopy(spec)
        m["tgt_ws"][0], m["tgt_ws"][1] = m["tgt_ws"][1], m["tgt_ws"][0]
        yield "target-order", m
    m = copy.deepcopy(spec)
    m["tgt_ws"] = m["tgt_ws"] + ["s(0)"]
    yield "target-length", m
    m = copy.deepcopy(spec)
    m["src_ws"] = m["src_ws"][:-1]
    yield "source-stack", m
    SIB = {"ADD": "SUB", "SUB": "ADD", "MUL": "DIV", "DIV": "MUL", "AND": "OR", "OR": "AND", "LT": "GT", "GT": "LT", "MLOAD": "SLOAD", "SLOAD": "MLOAD",
           "ISZERO": "NOT", "NOT": "ISZERO", "MSTORE": "MSTORE8", "MSTORE8": "MSTORE", "SSTORE": "MSTORE", "KECCAK256": "SUB", "EQ": "LT"}
    for k, r in enumerate(spec["user_instrs"]):
        if r["disasm"] in SIB:
            m = copy.deepcopy(spec)
            m["user_instrs"][k]["disasm"] = SIB[r["disasm"]]
            m["user_instrs"][k]["commutative"] = SIB[r["disasm"]] in ("ADD", "MUL", "AND", "OR", "EQ", "XOR")
            yield ("store-opcode" if r["storage"] else "opcode"), m
        if len(r["inpt_sk"]) == 2 and not r["commutative"] and r["inpt_sk"][0] != r["inpt_sk"][1]:
            m = copy.deepcopy(spec)
            m["user_instrs"][k]["inpt_sk"].reverse()
            yield ("store-operands-swapped" if r["storage"] else "non-commutative-operands-swapped"), m
        for j, x in enumerate(r["inpt_sk"]):
            m = copy.deepcopy(spec)
            m["user_instrs"][k]["inpt_sk"][j] = (x + 1) if isinstance(x, int) else ("s(2)" if x != "s(2)" else "s(1)")
            yield ("store-operand" if r["storage"] else "constant-operand" if isinstance(x, int) else "operand"), m
        if r["storage"]:
            m = copy.deepcopy(spec)
            del m["user_instrs"][k]
            yield "store-missing", m
            m = copy.deepcopy(spec)
            m["user_instrs"].append(copy.deepcopy(r))
            m["user_instrs"][-1]["id"] = r["disasm"] + "_9"
            yield "store-duplicated", m
    for key in ("memory_dependences", "storage_dependences"):
        if spec[key]:
            m = copy.deepcopy(spec)
            m[key] = m[key][1:]
            yield "dependence-missing", m
        # one access moved across the access it conflicts with: that dependence has the other direction
        for k in range(len(spec[key])):
            m = copy.deepcopy(spec)
            m[key][k] = list(reversed(m[key][k]))
            yield f"dependence-reversed:{k}", m


CHECKER_TRIAGED = {}


def rule_i(ctx, out):
    """The comparison is sensitive to every component.  are_equals is interpreted (own interpreter over its AST) on pairs of small
    specifications: a specification and a consistently re-named copy must be equal; the copy with one component changed (a target
    element, an opcode, swapped operands of a non-commutative operation, an operand, a store's operands, a missing store or
    dependence, the source stack ...) must not be.  Replaces text matching on the comparison functions: any re-formulation that keeps
    the verdicts is accepted."""
    from ..core.interp import ModuleInterp
    f = ctx.func(f"{V}.are_equals")
    mi = ModuleInterp(ctx, max_steps=600000)
    bases = {
        "arith": _spec([("ADD", ("SUB", "X", "Y"), ("MUL", "X", 5)), ("ISZERO", ("LT", "Y", "Z"))]),
        "shared": _spec([("ADD", ("MUL", "X", "Y"), ("MUL", "X", "Y")), "X"]),
        "memory": _spec([("MLOAD", "X")], stores=[("MSTORE", "X", ("ADD", "Y", 1)), ("MSTORE", ("ADD", "X", 32), "Z")], mem_deps=[("MLOAD_0", "MSTORE_0")]),
        "byte-store": _spec([("SUB", "Y", "X")], stores=[("MSTORE8", "X", "Y")]),
        "storage": _spec([("SLOAD", "X")], stores=[("SSTORE", "X", ("AND", "Y", 255)), ("SSTORE", "Z", 7)], sto_deps=[("SLOAD_0", "SSTORE_0"), ("SSTORE_0", "SSTORE_1")]),
        "hash": _spec([("KECCAK256", "X", 64)], stores=[("MSTORE", "X", "Y")], mem_deps=[("MSTORE_0", "KECCAK256_0")]),
        # the same value several times in the final stack (a memo over values must not skip positions)
        "repeated-target": _spec([("ADD", "X", "Y"), "Z", ("ADD", "X", "Y"), "X", "X", ("SUB", "Y", "X")]),
        # several accesses with the same opcode: the search for "the same access in the other block" has more than one candidate
        "two-loads": _spec([("SLOAD", "X"), ("SLOAD", "Y")], stores=[("SSTORE", "Z", 7)], sto_deps=[("SLOAD_0", "SSTORE_0"), ("SLOAD_1", "SSTORE_0")]),
        "three-mloads": _spec([("MLOAD", "X"), ("MLOAD", "Y"), ("MLOAD", ("ADD", "X", 64))], stores=[("MSTORE", "Z", "X")],
                              mem_deps=[("MLOAD_0", "MSTORE_0"), ("MLOAD_1", "MSTORE_0"), ("MLOAD_2", "MSTORE_0")]),
    }

    def verdict(a, b):
        try:
            r = mi.call(f, a, b)
        except Raised:
            return False          # contained by the caller since the comparison runs under try: counts as "not equal"
        except Unsupported as e:
            raise AnalysisError(f"are_equals: cannot evaluate abstractly: {e}")
        return bool(r[0]) if isinstance(r, tuple) else bool(r)
    n = 0
    import copy
    for name, a in bases.items():
        swapped = _renamed(a)
        for r_ in swapped["user_instrs"]:
            if r_["commutative"] and len(r_["inpt_sk"]) == 2:
                r_["inpt_sk"].reverse()
        for label, b in (("identical", copy.deepcopy(a)), ("renamed", _renamed(a)), ("renamed, operands of the commutative operations swapped", swapped)):
            n += 1
            if verdict(copy.deepcopy(a), b):
                out.ok({"base": name, "pair": label, "verdict": "equal"})
            else:
                out.bad(f"checker-rejects-equal:{name}:{label}", f"are_equals answers 'different' for the specification `{name}` and its {label} copy: every "
                        f"optimized block would be thrown away", where(f))
        for label, b in _mutations(_renamed(a)):
            n += 1
            key = f"checker-accepts:{name}:{label}"
            if not verdict(copy.deepcopy(a), b):
                out.ok()
            elif key in CHECKER_TRIAGED:
                out.unproven.append({"site": key, "reason": CHECKER_TRIAGED[key]})
                out.ok()
            else:
                out.bad(key, f"are_equals answers 'equal' for the specification `{name}` and a copy whose {label} was changed", where(f),
                        {"changed": label, "optimized_side": {k: b[k] for k in ("tgt_ws", "storage_dependences", "memory_dependences")},
                         "records": [f"{r['id']}: {r['outpt_sk']} = {r['disasm']}{r['inpt_sk']}" for r in b["user_instrs"]]})
    out.samples.append({"pairs_compared": n})
    if n < 100:
        raise AnalysisError(f"only {n} specification pairs compared")


def rule_j(ctx, out):
    """The block comparison looks at every part of a block.  compare_asm_block_asm_format is interpreted (own interpreter) with the
    specification generator and the specification comparison replaced by models driven by stand-in blocks — a block is (leading items,
    sub-block specifications, the sub-block list with the shared split instructions, closing items).  Identical blocks must be
    answered equal; a block that differs in exactly one part (one sub-block specification, a leading item, a closing item, a split
    instruction — which belongs to no sub-block specification —, the number of sub-blocks) must not."""
    import copy
    from ..core.interp import ModuleInterp
    f = ctx.func("gasol_asm.compare_asm_block_asm_format")
    verifier = ctx.callee_in(f, V)

    class Blk:
        def __init__(self, init, specs, subs, final, name="block7"):
            self.init, self.specs, self.subs, self.final, self.name = init, specs, subs, final, name

        def get_block_name(self):
            return self.name

        def set_block_name(self, n):
            self.name = n

        def instructions_initial_bytecode(self):
            return list(self.init)

        def instructions_final_bytecode(self):
            return list(self.final)

    def sfs_model(block, params=None, *a, **k):
        return {"syrup_contract": {f"{block.name}_{i}": sp for i, sp in enumerate(block.specs)}}, [list(x) for x in block.subs]

    def verify_model(old, new, *a, **k):
        same = [old[k_] for k_ in sorted(old)] == [new[k_] for k_ in sorted(new)]
        return same, ("" if same else "specifications differ")
    mi = ModuleInterp(ctx, obj_types=(Blk,), max_steps=50000,
                      extern={"compute_original_sfs_with_simplifications": sfs_model, verifier.name: verify_model})
    base = Blk(["tag 1", "JUMPDEST"], ["spec-a", "spec-b", "spec-c"],
               [["PUSH 1", "PUSH 2", "LOG0"], ["LOG0", "PUSH 3", "DUP1", "SSTORE"], ["SSTORE", "ADD"]], ["JUMP"])

    def variant(**kw):
        b = copy.deepcopy(base)
        for k_, v in kw.items():
            setattr(b, k_, v)
        return b
    cases = [("identical", variant(), True),
             ("sub-block-specification", variant(specs=["spec-a", "spec-x", "spec-c"]), False),
             ("leading-item", variant(init=["tag 2", "JUMPDEST"]), False),
             ("closing-item", variant(final=["JUMPI"]), False),
             ("closing-item-missing", variant(final=[]), False),
             ("split-instruction", variant(subs=[["PUSH 1", "PUSH 2", "GAS"], ["GAS", "PUSH 3", "DUP1", "SSTORE"], ["SSTORE", "ADD"]]), False),
             ("last-split-instruction", variant(subs=[["PUSH 1", "PUSH 2", "LOG0"], ["LOG0", "PUSH 3", "DUP1", "MSTORE"], ["MSTORE", "ADD"]]), False),
             ("trailing-split-instruction", variant(subs=base.subs + [["CALLDATACOPY"]]), False),
             ("number-of-sub-blocks", variant(specs=["spec-a", "spec-b"], subs=base.subs[:2]), False)]
    for label, other, want in cases:
        for old, new, direction in ((copy.deepcopy(base), other, "as the new block"), (other, copy.deepcopy(base), "as the old block")):
            try:
                r = mi.call(f, old, new, None)
            except Raised as e:
                out.bad(f"block-comparison-raises:{label}", f"compare_asm_block_asm_format raises {e.what} on stand-in blocks ({label})", where(f))
                continue
            except Unsupported as e:
                raise AnalysisError(f"compare_asm_block_asm_format: cannot evaluate abstractly: {e}")
            got = bool(r[0]) if isinstance(r, tuple) else bool(r)
            if got == want:
                out.ok({"variant": label, "given": direction, "verdict": "equal" if got else "different"})
            elif want:
                out.bad("block-comparison-rejects-identical", "compare_asm_block_asm_format answers 'different' for a block and its copy", where(f))
            else:
                out.bad(f"block-comparison-ignores:{label}", f"compare_asm_block_asm_format answers 'equal' for two blocks that differ in one {label.replace('-', ' ')} "
                        f"(the changed block given {direction}): that part of a block is compared nowhere", where(f))
            if new.name != "block7" or old.name != "block7":
                out.bad("block-comparison-renames-block", "the comparison leaves a block under another name", where(f))


def rule_k(ctx, out):
    """The adapter of the external checker answers "true" only for a pair it has rendered and the checker has seen.  forves_format
    gives the rendering, '' when there is nothing to compare, and None when the pair cannot be rendered (its own handler swallows the
    error).  In compare_forves every `return "true"` is either reached after the checker was run, or guarded by a test on the
    rendering that holds for '' only — evaluated for the three kinds of value; a truthiness test also holds for None."""
    f = ctx.func("verification.forves_verification.compare_forves")
    cfg = ctx.cfg(f)
    runs = [n for n in cfg.nodes if n.kind == "stmt" and any(call_name(c) in ("run_command", "run", "check_output", "Popen") for c in node_calls(n))]
    rendered = {t.id for n in own_nodes(f.node) if isinstance(n, ast.Assign) and isinstance(n.value, ast.Call) and call_name(n.value) == "forves_format"
                for t in n.targets if isinstance(t, ast.Name)}
    if not runs or not rendered:
        raise AnalysisError("compare_forves: the call of the external checker or the rendering of the pair was not found")
    n = 0
    for r in [x for x in cfg.nodes if x.kind == "stmt" and isinstance(x.ast, ast.Return) and isinstance(x.ast.value, ast.Constant) and x.ast.value.value == "true"]:
        n += 1
        if any(cfg.dominates(c, r) for c in runs):
            out.ok({"return_true": f"line {r.ast.lineno}", "after": "the external checker ran"})
            continue
        guard = getattr(r.ast, "_parent", None)
        if not (isinstance(guard, ast.If) and r.ast in guard.body and {x.id for x in ast.walk(guard.test) if isinstance(x, ast.Name)} <= rendered):
            out.bad("forves-true-without-checker", f"compare_forves returns \"true\" at line {r.ast.lineno} without the external checker having run and not under a test "
                    f"on the rendering alone", where(f, r.ast))
            continue
        var = sorted(rendered)[0]
        fn = ast.FunctionDef(name="_g", args=ast.arguments(posonlyargs=[], args=[ast.arg(arg=v) for v in sorted(rendered)], kwonlyargs=[], kw_defaults=[], defaults=[]),
                             body=[ast.Return(value=guard.test)], decorator_list=[])
        verdicts = {}
        for label, val in (("not renderable (None)", None), ("nothing to compare ('')", ""), ("a rendering", "PUSH1 0x1\nPUSH1 0x1")):
            try:
                verdicts[label] = bool(Evaluator(fn).call(*[val for _ in sorted(rendered)]))
            except (Unsupported, Raised) as e:
                raise AnalysisError(f"compare_forves: guard `{short(guard.test)}` cannot be evaluated: {e}")
        if verdicts == {"not renderable (None)": False, "nothing to compare ('')": True, "a rendering": False}:
            out.ok({"return_true": f"line {r.ast.lineno}", "guard": short(guard.test), "holds_for": "'' only"})
        else:
            also = [k_ for k_, v_ in verdicts.items() if v_ and "''" not in k_]
            out.bad("forves-true-for-unrendered-pair", f"compare_forves answers \"true\" under `{short(guard.test)}`, which also holds for {also}: a pair that could not be "
                    f"rendered, and that the external checker never saw, is reported as verified", where(f, guard))
    # (the answers after the checker ran may come from a table; the early answer for "nothing to compare" is the one that matters)
    if n < 1:
        raise AnalysisError("compare_forves: no `return \"true\"` found")


def rule_l(ctx, out):
    """The adapter shows the external checker only the optimizable segments; the instructions between them (terminators, JUMPDEST, the
    split instructions LOG / CALL / COPY / CREATE ...) are compared by the adapter itself, and a pair that differs there must not be
    rendered at all (forves_format answers None, compare_forves then cannot say "true").  forves_format is interpreted on parsed pairs that
    differ in one isolated instruction, that have an isolated instruction on one side only, or that are identical."""
    from ..core.interp import ModuleInterp
    from ..core.minieval import Unsupported, Raised
    f = ctx.func("verification.forves_verification.forves_format")
    mi = ModuleInterp(ctx, max_steps=50000, extern={"str_to_list": lambda x: x})
    seg, seg2 = ["PUSH1", "0x01", "ADD"], ["PUSH1", "0x02", "MUL"]
    cases = [("identical", [seg, "RETURN"], [seg, "RETURN"], True), ("identical-no-isolated", [seg], [seg], True),
             ("terminator-differs", [seg, "RETURN"], [seg, "REVERT"], False), ("split-instruction-differs", [seg, "CALL", seg2], [seg, "CALLCODE", seg2], False),
             ("copy-differs", ["CALLDATACOPY", seg], ["CODECOPY", seg], False), ("isolated-on-one-side", [seg, "STOP"], [seg, seg2], False),
             ("isolated-on-the-other-side", [seg, seg2], [seg, "STOP"], False), ("two-isolated-second-differs", ["JUMPDEST", seg, "STOP"], ["JUMPDEST", seg, "INVALID"], False)]
    for name, a, b, renderable in cases:
        try:
            got = mi.call(f, a, b)
        except Raised as e:
            got = None
        except Unsupported as e:
            raise AnalysisError(f"forves_format cannot be evaluated abstractly ({name}): {e}")
        if renderable and isinstance(got, str):
            out.ok({"pair": name, "rendered": True})
        elif not renderable and got is None:
            out.ok({"pair": name, "rendered": False})
        elif renderable:
            out.bad(f"forves-pair-not-rendered:{name}", f"forves_format does not render the pair ({a} / {b}): every comparison through the adapter fails", where(f))
        else:
            shown = str(got)[:60].replace(chr(10), ' | ')
            out.bad(f"forves-renders-a-pair-that-differs-outside-the-segments:{name}", f"forves_format renders the pair {a} / {b} as if the two blocks differed only "
                    f"inside the segments it shows (`{shown}`): the external checker never sees the instruction that differs, and compare_forves "
                    f"answers \"true\" for distinguishable blocks", where(f))


RULES = [
    ("C05.l", "the external-checker adapter refuses pairs that differ outside the rendered segments", 8, rule_l),
    ("C05.k", "the external-checker adapter says true only for rendered pairs", 1, rule_k),
    ("C05.j", "the block comparison looks at every part of a block (split instructions included)", 18, rule_j),
    ("C05.i", "the comparison is sensitive to every component of a specification", 100, rule_i),
    ("C05.h", "byte stores take part in the comparison", 4, rule_h),
    ("C05.g", "an unmatched dependence is decided, never skipped", 2, rule_g),
    ("C05.f", "no name-equality shortcut around the structural comparison", 8, rule_f),
    ("C05.e", "a (verdict, reason) pair is never used as a truth value", 15, rule_e),
    ("C05.a", "no opcode conflation inherited from the front-end", 40, rule_a),
    ("C05.b", "commutativity only where the EVM operation is commutative", 12, rule_b),
    ("C05.c", "an accepting answer needs every component compared", 7, rule_c),
    ("C05.d", "the comparison is total (no raise)", 8, rule_d),
]
