"""C06 — Max-SMT encoding: well-formedness sentence only (scoped claim).

C06.a every symbol is declared: who may construct symbols; every term-creator used by a constraint generator is also
      pre-created in FullEncoding.functions_declared, under a condition on the same option
C06.b handler exhaustiveness and signature agreement of the per-instruction stack constraints
C06.c the model reader reads t_j for exactly the positions restrict_t_domain constrains
C06.d happens-before map under-approximates the dependency graph
C06.e position families cover every admissible position
C06.f integer codes of stack terms are dense; `empty` gets a fresh code
C06.g order and multiplicity constraints mean what they are documented to mean
C06.h stack constraints = transition relation of the stack machine (small instance)
"""
import ast

from ..core.flow import call_name, calls_in, is_name
from ..core.loader import AnalysisError, short, own_nodes, norm, canon, function_locals
from ..core.report import where

TECHNIQUE = ("who-may-construct rule for SMT symbols; creator-use vs declaration agreement over the encoding modules; "
             "exhaustiveness of the instruction-class dispatch; keyword/signature agreement of registered encoders")
LEVEL_TEXT = ('Decides the second sentence of C06 structurally: symbols can only come from the term factory, every kind of '
              'term a constraint generator asks for is pre-created (hence declared) under the same option, every '
              'instruction class the factory can produce has an encoder registered with exactly the keyword arguments that '
              'encoder (and its `empty` twin) declares, and the model reader and the domain constraint range over the same '
              'positions. Of the first sentence it decides three necessary structural conditions: the happens-before map '
              'used to leave order tuples out of the dependency graph under-approximates reachability (inductive invariant '
              'per update site); every position family of the hard constraints reaches the inclusive upper bound; '
              "existential order constraints start at the later instruction's lower bound and exclude the position when no "
              'earlier position exists. Bounded, exhaustive on small instances: each order / multiplicity constraint '
              'generator means what it is documented to mean on a three-position instance (C06.g), and each per-instruction '
              "stack constraint is the stack machine's transition relation on 3-4 slots in both representations of an "
              'unused slot (C06.h); the mandatory hard-constraint families are generated under every setting of the flags '
              'the encoding reads (C06.i). Soundness of the whole constraint system over all models and all sizes is not '
              'decided.'
              ' Added in seeding rounds 8-9: registries read by the constraint generators are filled somewhere (C06.j), and the distinctness of the stack terms is generated wherever they are represented by uninterpreted symbols (C06.i, sibling agreement).')
EXPLANATION = ("Declarations are a snapshot taken by BlockOptimizer before the lazy constraint generators run, so a creator "
               "that is used but not pre-created in functions_declared yields an undeclared symbol in the SMT-LIB text.")
NOT_DECIDED = ("that every model decodes to a realizing sequence for instances larger than those of C06.g/h, and the interplay of all "
               "constraint families (initial / final stack, bounds from dependencies, soft constraints)")
ASSUMPTIONS = ["initial_idx = 0 (the only value the tool passes)"]

ENC_PKG = "smt_encoding.complete_encoding"
SF = f"{ENC_PKG}.synthesis_functions.SynthesisFunctions"
FE = f"{ENC_PKG}.synthesis_full_encoding.FullEncoding"
GUARDED = {"a": "push_basic", "l": "memory_encoding", "empty": "empty"}


def _creators(ctx):
    cls = ctx.p.cls(SF)
    pub = {n for n in cls.methods if not n.startswith("_") and not n.startswith("created_")}
    return cls, pub


def rule_a(ctx, out):
    cls, creators = _creators(ctx)
    if not {"u", "x", "t", "a", "l", "theta_value", "stack_var"} <= creators:
        raise AnalysisError(f"SynthesisFunctions creators changed: {sorted(creators)}")
    # who may construct symbols
    allowed = {SF, f"{ENC_PKG}.synthesis_opcode_term_creation.UninterpretedOpcodeTermCreation"}
    n_ctor = 0
    for f in ctx.p.functions.values():
        if not (f.module.name.startswith(ENC_PKG) or f.module.name == "smt_encoding.block_optimizer"):
            continue
        for c in calls_in(f.node):
            if call_name(c) in ("Function", "Const", "ExpressionReference") and isinstance(c.func, ast.Name):
                n_ctor += 1
                owner = f.cls.qual if f.cls is not None else None
                if owner in allowed:
                    out.ok({"constructs_symbol": f.qual})
                else:
                    out.bad(f"symbol-constructed-outside-factory:{f.qual.split('.', 2)[-1]}", f"{short(c)} creates an SMT symbol outside the term "
                            f"factory: it is never declared", where(f, c))
    if n_ctor < 3:
        raise AnalysisError("fewer than 3 symbol constructions found in the encoding package")
    # creators used by constraint generators
    used = {}
    for f in ctx.p.functions.values():
        if not f.module.name.startswith(ENC_PKG) or (f.cls is not None and f.cls.qual == SF):
            continue
        if f.qual == f"{FE}.functions_declared":
            continue
        for c in calls_in(f.node):
            if isinstance(c.func, ast.Attribute) and c.func.attr in creators:
                recv = norm(c.func.value)
                if recv in ("sf", "self._term_factory", "term_factory"):
                    used.setdefault(c.func.attr, []).append((f, c))
    fd = ctx.func(f"{FE}.functions_declared")
    declared = {}
    for c in calls_in(fd.node):
        if isinstance(c.func, ast.Attribute) and c.func.attr in creators:
            # condition: innermost enclosing if
            cur, cond = c, None
            while cur is not None and cur is not fd.node:
                p = getattr(cur, "_parent", None)
                if isinstance(p, ast.If) and cur in p.body:
                    cond = p.test
                    break
                cur = p
            declared[c.func.attr] = cond
    for m in sorted(used):
        if m == "stack_var":
            continue   # looks up pre-built formulas; creates nothing
        if m not in declared:
            f, c = used[m][0]
            out.bad(f"creator-used-but-not-declared:{m}", f"constraint generators call sf.{m}(...) (e.g. {f.name}) but functions_declared never "
                    f"pre-creates such terms: the symbol is used without a declare-fun", where(f, c))
            continue
        cond = declared[m]
        if m in GUARDED:
            flag = GUARDED[m]
            if cond is None or flag in norm(cond):
                out.ok({"creator": m, "declared_under": norm(cond) if cond is not None else "always", "uses": len(used[m])})
            else:
                out.bad(f"creator-declared-under-other-option:{m}", f"sf.{m} is declared under `{norm(cond)}`, expected a test of flags.{flag}", where(fd))
        else:
            if cond is None:
                out.ok({"creator": m, "declared_under": "always", "uses": len(used[m])})
            else:
                out.bad(f"creator-declared-conditionally:{m}", f"sf.{m} is used unconditionally but declared only under `{norm(cond)}`", where(fd))
    # guarded creators: their users are only referenced from FullEncoding under the same option
    fe_cls = ctx.p.cls(FE)
    for m, flag in GUARDED.items():
        users = {f.name for f, _ in used.get(m, [])}
        # transitive: generators that call the users inside the package
        for _ in range(3):
            for f in ctx.p.functions.values():
                if f.module.name.startswith(ENC_PKG) and f.cls is None and any(call_name(c) in users for c in calls_in(f.node)):
                    users.add(f.name)
        for meth in fe_cls.methods.values():
            for n in own_nodes(meth.node):
                if isinstance(n, ast.Name) and n.id in users and isinstance(n.ctx, ast.Load):
                    cur, ok = n, False
                    while cur is not None and cur is not meth.node:
                        p = getattr(cur, "_parent", None)
                        if isinstance(p, ast.If) and flag in norm(p.test):
                            ok = True
                        if isinstance(p, ast.IfExp) and flag in norm(p.test):
                            ok = True
                        cur = p
                    if m == "empty":
                        ok = ok or n.id.endswith("_empty")
                        if n.id.endswith("_empty"):
                            # the *_empty encoders are selected by `... if self._flags.empty else ...`
                            pp = getattr(n, "_parent", None)
                            ok = isinstance(pp, ast.IfExp) and "empty" in norm(pp.test) and pp.body is n
                    if ok:
                        out.ok()
                    else:
                        out.bad(f"guarded-creator-user-unguarded:{m}:{n.id}", f"{n.id} (which creates sf.{m} terms) is referenced in "
                                f"FullEncoding.{meth.name} without a test of flags.{flag}", where(meth, n))
    # declare_function keys by name; Function.__call__ checks arity and sort
    df = ctx.func("smt_encoding.solver.solver_from_executable.SolverFromExecutable.declare_function")
    if any(isinstance(n, ast.Assign) and isinstance(n.targets[0], ast.Subscript) and norm(n.targets[0].slice).endswith(".name") for n in own_nodes(df.node)):
        out.ok({"declare_function": "keyed by name (declared once)"})
    else:
        out.bad("declare_function:not-keyed-by-name", "declarations are not de-duplicated by symbol name", where(df))
    fc = ctx.func("smt_encoding.constraints.function.Function.__call__")
    raises = [n for n in own_nodes(fc.node) if isinstance(n, ast.Raise)]
    if len(raises) >= 4:
        out.ok({"Function.__call__": f"{len(raises)} arity/sort checks"})
    else:
        out.bad("Function.__call__:checks-removed", "arity/sort checks at term construction were removed", where(fc))
    # declarations are taken after both generators were created but from the eager pre-creation, in _initialize_solver
    bo = ctx.func("smt_encoding.block_optimizer.BlockOptimizer._initialize_solver")
    calls = [call_name(c) for c in calls_in(bo.node)]
    if "functions_declared" in calls and "declare_function" in calls:
        out.ok({"BlockOptimizer": "declares the pre-created functions"})
    else:
        out.bad("BlockOptimizer:declarations-not-registered", "functions_declared() is not passed to solver.declare_function", where(bo))


def rule_b(ctx, out):
    # instruction classes the factory can produce -> subset
    fac = ctx.func("smt_encoding.instructions.instruction_factory.InstructionFactory.create_instruction_json_format")
    produced = set()
    for c in calls_in(fac.node):
        cn = call_name(c)
        for ci in ctx.p.classes.values():
            if ci.name == cn and "instruction_subset" in ci.methods:
                rets = [r for r in own_nodes(ci.methods["instruction_subset"].node) if isinstance(r, ast.Return)]
                for r in rets:
                    if isinstance(r.value, ast.Attribute):
                        produced.add(r.value.attr)
    if len(produced) < 4:
        raise AnalysisError(f"instruction subsets produced by the factory not recognised: {sorted(produced)}")
    enc = ctx.func(f"{FE}._encoding_for_uninterpreted")
    handled = set()
    for n in own_nodes(enc.node):
        if isinstance(n, ast.Compare) and isinstance(n.comparators[0], ast.Attribute) and norm(n.left).endswith("instruction_subset"):
            handled.add(n.comparators[0].attr)
    for s in sorted(produced):
        if s in handled:
            out.ok({"subset": s, "encoder_branch": True})
        else:
            out.bad(f"no-encoder-for-subset:{s}", f"the factory can produce a `{s}` instruction but _encoding_for_uninterpreted has no branch "
                    f"for it (ValueError for every block containing one)", where(enc))
    # registrations: keyword names == parameters of the encoder after (j, theta, sf, bs), for both alternatives
    mod = ctx.p.module(f"{ENC_PKG}.synthesis_stack_constraints")
    sigs = {f.name: f.params for f in ctx.p.funcs_in(mod.name) if f.cls is None}
    n_reg = 0
    for meth in ctx.p.cls(FE).methods.values():
        assigns = {}
        for n in own_nodes(meth.node):
            if isinstance(n, ast.Assign) and isinstance(n.targets[0], ast.Name):
                assigns.setdefault(n.targets[0].id, []).append(n)
        for c in calls_in(meth.node, "register_function_for_encoding"):
            n_reg += 1
            if len(c.args) < 2:
                continue
            fn = c.args[1]
            cands = []
            if isinstance(fn, ast.Name):
                # nearest preceding assignment to that name
                prev = [a for a in assigns.get(fn.id, []) if a.lineno <= c.lineno]
                val = prev[-1].value if prev else None
                if isinstance(val, ast.IfExp):
                    cands = [val.body, val.orelse]
                elif val is not None:
                    cands = [val]
            kws = {k.arg for k in c.keywords}
            for cand in cands:
                if not isinstance(cand, ast.Name) or cand.id not in sigs:
                    out.bad(f"encoder-unknown:{norm(cand)}", f"{norm(cand)} is registered as encoder but is not a stack-constraint function", where(meth, c))
                    continue
                extra = set(sigs[cand.id][4:])
                if extra == kws and len(c.args) == 2:
                    out.ok({"register": cand.id, "kwargs": sorted(kws)})
                else:
                    out.bad(f"encoder-signature:{cand.id}", f"{cand.id} takes {sorted(extra)} after (j, theta, sf, bs) but is registered with "
                            f"{sorted(kws)} (TypeError when the constraint is generated)", where(meth, c))
    if n_reg < 8:
        raise AnalysisError("fewer than 8 encoder registrations found")
    # every encoder has an _empty twin with the same signature
    for name, params in sorted(sigs.items()):
        if name.endswith("_empty") or not name.endswith("_encoding"):
            continue
        twin = sigs.get(name + "_empty")
        if twin is None:
            out.bad(f"encoder-without-empty-twin:{name}", f"{name} has no {name}_empty counterpart", where(mod))
        elif [p for p in twin] != [p for p in params]:
            out.bad(f"encoder-twin-signature:{name}", f"{name}{tuple(params)} and its _empty twin {tuple(twin)} differ", where(mod))
        else:
            out.ok({"encoder": name, "twin": True})


def rule_c(ctx, out):
    rb = ctx.func("smt_encoding.block_optimizer.BlockOptimizer._rebuild_block_from_solver")
    comps = [n for n in own_nodes(rb.node) if isinstance(n, ast.ListComp)]
    ok = False
    for cpr in comps:
        g = cpr.generators[0]
        if isinstance(g.iter, ast.Call) and call_name(g.iter) == "range" and len(g.iter.args) == 2:
            lo, hi = norm(g.iter.args[0]), norm(g.iter.args[1])
            if lo.endswith("first_position_sequence") and hi.endswith("last_position_sequence + 1") and "t_" in norm(cpr.elt):
                ok = True
    if ok:
        out.ok({"model_reader": "t_j for j in first_position_sequence..last_position_sequence"})
    else:
        out.bad("model-reader-range", "the model reader does not read t_j for exactly first_position_sequence..last_position_sequence", where(rb))
    rt = ctx.func(f"{ENC_PKG}.synthesis_initialize_variables.restrict_t_domain")
    txt = norm(rt.node)
    if "first_position_sequence" in txt and "last_position_sequence" in txt and "sf.t(" in txt:
        out.ok({"restrict_t_domain": "constrains t over first..last position"})
    else:
        out.bad("restrict_t_domain:range", "restrict_t_domain does not range over first_position_sequence..last_position_sequence", where(rt))
    # both bound classes define the two properties consistently with b0/initial_idx
    for q in ("smt_encoding.instructions.instruction_bounds_with_dependencies.InstructionBoundsWithDependencies",
              "smt_encoding.instructions.instruction_bounds_simple.DumbInstructionBounds"):
        ci = ctx.p.cls(q)
        if "first_position_sequence" in ci.methods and "last_position_sequence" in ci.methods:
            out.ok({"bounds_class": ci.name, "defines": "first/last_position_sequence"})
        else:
            out.bad(f"bounds-class-incomplete:{ci.name}", "bounds class lacks first/last_position_sequence", where(ci.module))
    # decoded theta -> instruction id uses the factory's own theta table
    if any("theta_to_instr" in norm(h.node) for h in ctx.with_helpers(rb)):
        out.ok({"decode": "theta value -> instruction through the factory's table"})
    else:
        out.bad("model-reader-decode", "decoding does not use the instruction factory's theta table", where(rb))


DEPS = "smt_encoding.instructions.instruction_dependencies"


def _sub2(e):
    """(container name, index text) of  <name>[<index>]"""
    if isinstance(e, ast.Subscript) and isinstance(e.value, ast.Name):
        return e.value.id, norm(e.slice)
    return None


def rule_d(ctx, out):
    """The order constraints l_a < l_b and the position bounds are built from the dependency graph; an order tuple is left out of the
    graph only when the happens-before map already contains it.  Inductive invariant (checked per update site):
        H[x] is a subset of the instructions reachable from x in the graph (plus x).
    It is preserved by `H[a].update(H[b])` / `H[a].add(b)` only where a -> b is an edge: b iterates over G[a], or `G[a].append(b)` stands
    in the same block.  An update in the other direction over-approximates H, order tuples are then wrongly judged redundant and the
    hard constraints lose an ordering.  Also: all graph builders insert an order tuple (first, second) as the edge second -> first,
    and the redundancy test asks about exactly the edge it guards."""
    fs = ctx.p.funcs_in(DEPS)
    n_upd = 0
    for f in fs:
        sites = []
        for c in calls_in(f.node):
            if not (isinstance(c.func, ast.Attribute) and c.func.attr in ("update", "add") and _sub2(c.func.value) and len(c.args) == 1):
                continue
            H, a = _sub2(c.func.value)
            if c.func.attr == "update":
                src = _sub2(c.args[0])
                if not src or src[0] != H:
                    continue
                b = src[1]
            else:
                b = norm(c.args[0])
            sites.append((c, H, a, b))
        for st in own_nodes(f.node):
            # H[a] |= H[b]   /   H[a] = H[a] | H[b]   /   H[a] = H[a].union(H[b])
            if isinstance(st, ast.AugAssign) and isinstance(st.op, ast.BitOr) and _sub2(st.target) and _sub2(st.value) and _sub2(st.target)[0] == _sub2(st.value)[0]:
                sites.append((st, _sub2(st.target)[0], _sub2(st.target)[1], _sub2(st.value)[1]))
            elif isinstance(st, ast.Assign) and len(st.targets) == 1 and _sub2(st.targets[0]):
                H, a = _sub2(st.targets[0])
                v = st.value
                parts = []
                if isinstance(v, ast.BinOp) and isinstance(v.op, ast.BitOr):
                    parts = [v.left, v.right]
                elif isinstance(v, ast.Call) and isinstance(v.func, ast.Attribute) and v.func.attr == "union" and len(v.args) == 1:
                    parts = [v.func.value, v.args[0]]
                subs = [_sub2(x) for x in parts]
                if len(subs) == 2 and all(subs) and all(x[0] == H for x in subs):
                    for x in subs:
                        if x[1] != a:
                            sites.append((st, H, a, x[1]))
        for c, H, a, b in sites:
            n_upd += 1
            if a == b:
                out.ok({"function": f.name, "update": short(c, 60), "justified": "reflexive"})
                continue
            just = None
            cur = c
            while cur is not None and cur is not f.node and just is None:
                par = getattr(cur, "_parent", None)
                if isinstance(par, ast.For) and norm(par.target) == b and _sub2(par.iter) and _sub2(par.iter)[1] == a:
                    just = f"{b} iterates over {norm(par.iter)}"
                for fld in ("body", "orelse"):
                    seq = getattr(par, fld, None)
                    if isinstance(seq, list) and cur in seq:
                        for s2 in seq:
                            if isinstance(s2, ast.Expr) and isinstance(s2.value, ast.Call) and isinstance(s2.value.func, ast.Attribute) and s2.value.func.attr == "append" \
                                    and _sub2(s2.value.func.value) and _sub2(s2.value.func.value)[1] == a and len(s2.value.args) == 1 and norm(s2.value.args[0]) == b:
                                just = f"edge added by {short(s2, 50)}"
                cur = par
            if just:
                out.ok({"function": f.name, "update": short(c, 60), "justified": just})
            else:
                out.bad(f"closure-update-without-edge:{f.name}:{H}[{a}]<-{b}", f"{f.name}: `{short(c, 70)}` adds the predecessors of {b} to those of {a}, but no edge "
                        f"{a} -> {b} is in the graph at that point: the happens-before map over-approximates reachability", where(f, c))
    if n_upd < 3:
        raise AnalysisError(f"only {n_upd} happens-before updates found")
    # direction of order tuples and the redundancy test
    n_dir = 0
    for f in fs:
        for loop in own_nodes(f.node):
            if not (isinstance(loop, ast.For) and isinstance(loop.target, ast.Tuple) and len(loop.target.elts) == 2 and "order_tuples" in norm(loop.iter)):
                continue
            first, second = (norm(e) for e in loop.target.elts)
            apps = [c for c in calls_in(ast.Module(body=loop.body, type_ignores=[])) if isinstance(c.func, ast.Attribute) and c.func.attr == "append" and _sub2(c.func.value)]
            for c in apps:
                n_dir += 1
                a, b = _sub2(c.func.value)[1], norm(c.args[0])
                if (a, b) == (second, first):
                    out.ok({"function": f.name, "order_tuple": f"({first}, {second})", "edge": f"{second} -> {first}"})
                else:
                    out.bad(f"order-tuple-direction:{f.name}", f"{f.name}: the order tuple ({first}, {second}) = '{first} before {second}' is inserted as edge {a} -> {b}; "
                            f"the other builders and the readers of the graph use {second} -> {first}", where(f, c))
                # guard
                par = getattr(getattr(c, "_parent", None), "_parent", None)
                if isinstance(par, ast.If):
                    hb = calls_in(par.test, "happens_before")
                    if hb:
                        n_dir += 1
                        neg = isinstance(par.test, ast.UnaryOp) and isinstance(par.test.op, ast.Not)
                        if neg and len(hb[0].args) >= 2 and (norm(hb[0].args[0]), norm(hb[0].args[1])) == (a, b):
                            out.ok({"function": f.name, "redundancy_test": short(par.test, 70), "asks_about": f"{a} -> {b}"})
                        else:
                            out.bad(f"redundancy-test-mismatch:{f.name}", f"{f.name}: the edge {a} -> {b} is left out under `{short(par.test, 70)}`, which does not ask whether "
                                    f"{b} already happens before {a}", where(f, par))
    hb = ctx.func(f"{DEPS}.happens_before")
    rets = [r for r in own_nodes(hb.node) if isinstance(r, ast.Return)]
    if len(rets) == 1 and len(hb.params) >= 4 and norm(rets[0].value).replace(" ", "") == f"{hb.params[1]}in{hb.params[3]}[{hb.params[0]}]":
        out.ok({"happens_before": norm(rets[0].value)})
    else:
        out.bad("happens_before:definition", f"happens_before no longer answers `{hb.params[1]} in H[{hb.params[0]}]`", where(hb))
    if n_dir < 3:
        raise AnalysisError(f"only {n_dir} order-tuple insertions/guards found")


ENC_PKG = "smt_encoding.complete_encoding"
# range(...) stops that combine several bounds; each read in the source
RANGE_TRIAGED = {
    "dependent_pre_order:min(b0-1,bounds.upper_bound_theta_value(L1),bounds.upper_bound_theta_value(L2)+1)":
        "load-before-store family: positions j >= ub(load) have no later load position, the conjunction is empty (true), nothing to emit; "
        "the store's own term is ub(store)+1",
}


def _ub_term(e):
    """(theta text, k) if e is  X.upper_bound_theta_value(theta) [+ k | k +]   else None"""
    k = 0
    if isinstance(e, ast.BinOp) and isinstance(e.op, (ast.Add, ast.Sub)):
        a, b = e.left, e.right
        if isinstance(b, ast.Constant) and isinstance(b.value, int):
            k = b.value if isinstance(e.op, ast.Add) else -b.value
            e = a
        elif isinstance(a, ast.Constant) and isinstance(a.value, int) and isinstance(e.op, ast.Add):
            k = a.value
            e = b
    if isinstance(e, ast.Call) and isinstance(e.func, ast.Attribute) and e.func.attr == "upper_bound_theta_value" and len(e.args) == 1:
        return norm(e.args[0]), k
    return None


def _lb_theta(e):
    if isinstance(e, ast.Call) and isinstance(e.func, ast.Attribute) and e.func.attr == "lower_bound_theta_value" and len(e.args) == 1:
        return norm(e.args[0])
    return None


def _max_offset(body_nodes, var):
    """largest constant c with which `var + c` occurs in the given nodes (0 if var occurs bare), None if var does not occur"""
    best = None
    for b in body_nodes:
        for n in ast.walk(b):
            if isinstance(n, ast.Name) and n.id == var and isinstance(n.ctx, ast.Load):
                c = 0
                p = getattr(n, "_parent", None)
                if isinstance(p, ast.BinOp) and isinstance(p.op, (ast.Add, ast.Sub)):
                    other = p.right if p.left is n else p.left
                    if isinstance(other, ast.Constant) and isinstance(other.value, int):
                        c = other.value if isinstance(p.op, ast.Add) else (-other.value if p.left is n else 0)
                best = c if best is None else max(best, c)
    return best


_CTX = None


def _range_loops(f):
    """(loop variable, range call, body nodes) for `for v in range(..)` statements and comprehension generators of f"""
    # a local that only ever holds range(..) objects stands for each of them:  positions = range(..) ... for j in positions
    # and a function chosen next to the range (same statement list:  constraint = sto_ld_dependency) is read as that function in the body
    held = {}
    for n in own_nodes(f.node):
        if isinstance(n, ast.Assign) and len(n.targets) == 1 and isinstance(n.targets[0], ast.Name):
            is_rng = isinstance(n.value, ast.Call) and call_name(n.value) == "range"
            held.setdefault(n.targets[0].id, []).append(n if is_rng else None)

    def specialised(body, assign):
        par = getattr(assign, "_parent", None)
        sibs = next((v for _, v in ast.iter_fields(par) if isinstance(v, list) and assign in v), []) if par is not None else []
        alias = {x.targets[0].id: x.value.id for x in sibs if isinstance(x, ast.Assign) and len(x.targets) == 1 and isinstance(x.targets[0], ast.Name)
                 and isinstance(x.value, ast.Name)}
        if not alias:
            return body
        out = []
        for st in body:
            cp = ast.parse(ast.unparse(st)).body[0]
            for x in ast.walk(cp):
                if isinstance(x, ast.Name) and isinstance(x.ctx, ast.Load) and x.id in alias:
                    x.id = alias[x.id]
                for ch in ast.iter_child_nodes(x):
                    ch._parent = x
            ast.copy_location(cp, st)
            for x in ast.walk(cp):
                if not hasattr(x, "lineno"):
                    continue
                x.lineno = x.lineno + st.lineno - 1
            out.append(cp)
        return out
    def as_range(it):
        """the range(..) an iterable expression stands for: a range call, or a call of a same-module helper whose body is `return range(..)`
        (parameters replaced by the arguments)"""
        if isinstance(it, ast.Call) and call_name(it) == "range":
            return it
        if isinstance(it, ast.Call) and isinstance(it.func, ast.Name) and _CTX is not None:
            h = _CTX.p.functions.get(f"{f.module.name}.{it.func.id}")
            if h is not None and not it.keywords:
                body = [b for b in h.node.body if not (isinstance(b, ast.Expr) and isinstance(b.value, ast.Constant))]
                if len(body) == 1 and isinstance(body[0], ast.Return) and isinstance(body[0].value, ast.Call) and call_name(body[0].value) == "range" \
                        and len(it.args) == len(h.params):
                    sub = {p_: ast.unparse(a_) for p_, a_ in zip(h.params, it.args)}
                    cp = ast.parse(ast.unparse(body[0].value), mode="eval").body

                    class R(ast.NodeTransformer):
                        def visit_Name(self, node):
                            return ast.parse(sub[node.id], mode="eval").body if node.id in sub else node
                    cp = ast.fix_missing_locations(R().visit(cp))
                    cp = ast.parse(ast.unparse(cp), mode="eval").body
                    for x in ast.walk(cp):
                        for ch in ast.iter_child_nodes(x):
                            ch._parent = x
                        if hasattr(x, "lineno"):
                            x.lineno = getattr(it, "lineno", 1)
                    return cp
        return None
    for n in own_nodes(f.node):
        if isinstance(n, ast.For) and isinstance(n.target, ast.Name) and as_range(n.iter) is not None:
            yield n.target.id, as_range(n.iter), n.body
        elif isinstance(n, ast.For) and isinstance(n.target, ast.Name) and isinstance(n.iter, ast.Name) and held.get(n.iter.id) and all(held[n.iter.id]):
            for a in held[n.iter.id]:
                yield n.target.id, a.value, specialised(n.body, a)
        elif isinstance(n, (ast.ListComp, ast.GeneratorExp, ast.SetComp)):
            for gi, g in enumerate(n.generators):
                if isinstance(g.target, ast.Name) and as_range(g.iter) is not None:
                    yield g.target.id, as_range(g.iter), [n.elt] + [x for h in n.generators[gi + 1:] for x in [h.iter] + h.ifs] + g.ifs


def rule_e(ctx, out):
    """Position families of the hard constraints cover every position the instruction may take.
    (U) bounds are inclusive: a family `for j in range(lo, ub(theta) + k)` whose body mentions position j + c must reach ub(theta):
        k + c = 1.  A family that stops one short emits no constraint for the last position, and the solver is free there.
    (L) an existential order constraint  t_j = theta2 -> OR_{i<j} t_i = theta1  is needed at *every* position theta2 may take: the
        family starts at lb(theta2);
    (E) and where the disjunction is empty the constraint is "t_j != theta2", not "no constraint" (an empty OR is false)."""
    global _CTX
    _CTX = ctx
    roots = [f for f in ctx.p.functions.values() if f.module.name == f"{ENC_PKG}.synthesis_full_encoding" and f.cls is not None]
    if not roots:
        raise AnalysisError("FullEncoding methods not found")
    reach = ctx.r.reachable(roots, by_name=True)
    fs = [f for q, f in sorted(reach.items()) if f.module.name.startswith(ENC_PKG)]
    n_u = 0
    for f in fs:
        for var, rng, body in _range_loops(f):
            if not rng.args:
                continue
            stop = rng.args[1] if len(rng.args) >= 2 else rng.args[0]
            t = _ub_term(stop)
            if t is None:
                if any(_ub_term(x) for x in ast.walk(stop)):
                    key = f"{f.name}:{canon(norm(stop), function_locals(f.node)).replace(' ', '')}"
                    n_u += 1
                    if key in RANGE_TRIAGED:
                        out.unproven.append({"site": key, "reason": RANGE_TRIAGED[key]})
                        out.ok()
                    else:
                        out.bad(f"position-family-stop-not-recognised:{key}", f"{f.name}: the family `{short(rng, 90)}` combines upper bounds in a way that "
                                f"is not in the triaged list; read it and record why it reaches the last position", where(f, rng))
                continue
            theta, k = t
            c = _max_offset(body, var)
            if c is None:
                continue
            n_u += 1
            if k + c == 1:
                out.ok({"function": f.name, "family": short(rng, 80), "last_position_mentioned": f"ub({theta})"})
            else:
                out.bad(f"position-family-misses-upper-bound:{f.name}:{theta}:{k + c - 1:+d}", f"{f.name}: the family `for {var} in {short(rng, 90)}` mentions "
                        f"positions up to ub({theta}){k + c - 1:+d}; bounds are inclusive, so position ub({theta}) gets no constraint", where(f, rng))
    if n_u < 12:
        raise AnalysisError(f"only {n_u} position families over upper bounds found")
    # existential families
    n_e = 0
    for f in fs:
        imps = [c for c in calls_in(f.node, "add_implies") if len(c.args) == 2]
        for imp in imps:
            cons = imp.args[1]
            lists = single_assignments_of(f, cons)
            ors = [c for e in [cons] + lists for c in ([e] if isinstance(e, ast.Call) else []) if call_name(c) == "add_or" and c.args and isinstance(c.args[0], ast.Starred)]
            if not ors:
                continue
            lst = ors[0].args[0].value
            if not isinstance(lst, ast.Name):
                continue
            # (E)
            guards = [n for n in own_nodes(f.node) if isinstance(n, ast.If) and lst.id in norm(n.test) and ("==[]" in norm(n.test).replace(" ", "") or norm(n.test).replace(" ", "") in (f"not{lst.id}", f"len({lst.id})==0"))]
            if not guards:
                continue
            n_e += 1
            g = guards[0]
            ret = [x for x in g.body if isinstance(x, ast.Return)]
            drops = bool(ret) and (ret[0].value is None or (isinstance(ret[0].value, ast.Constant) and ret[0].value.value is None))
            if drops:
                out.bad(f"empty-disjunction-dropped:{f.name}", f"{f.name}: when `{lst.id}` is empty the function returns no constraint; the implication it stands "
                        f"for has an empty (false) disjunction as consequent, i.e. the antecedent must be excluded", where(f, g))
            else:
                out.ok({"function": f.name, "empty_disjunction": short(ret[0].value, 70) if ret else "handled"})
            # (L) call sites
            ant = imp.args[0]
            ant_src = single_assignments_of(f, ant)
            theta2 = None
            for e in [ant] + ant_src:
                for c in ast.walk(e):
                    if isinstance(c, ast.Call) and isinstance(c.func, ast.Attribute) and c.func.attr == "theta_value" and c.args and isinstance(c.args[0], ast.Name) \
                            and c.args[0].id in f.params:
                        theta2 = c.args[0].id
            if theta2 is None:
                raise AnalysisError(f"{f.name}: subject of the antecedent not recognised")
            pos_t2, pos_j = f.params.index(theta2), 0
            for g2 in fs:
                for var, rng, body in _range_loops(g2):
                    for b in body:
                        for c in calls_in(b, f.name):
                            if len(c.args) <= pos_t2 or not is_name(c.args[pos_j], var):
                                continue
                            n_e += 1
                            th = norm(c.args[pos_t2])
                            # a family generated per stack operand only repeats what the stack encoding enforces: the consumer needs the
                            # producer's output term on the stack, which is not there before the producer ran
                            anc, via_stack = getattr(c, "_parent", None), False
                            while anc is not None and anc is not g2.node:
                                if isinstance(anc, ast.For) and isinstance(anc.iter, ast.Attribute) and anc.iter.attr == "input_stack":
                                    via_stack = True
                                anc = getattr(anc, "_parent", None)
                            if via_stack:
                                out.ok({"function": g2.name, "family": short(rng, 70), "note": "producer/consumer order, also enforced by the stack encoding"})
                                continue
                            start = rng.args[0] if len(rng.args) >= 2 else None
                            ok = start is not None and (_lb_theta(start) == th or (isinstance(start, ast.Call) and call_name(start) == "min" and any(_lb_theta(a) == th for a in start.args)))
                            if ok:
                                out.ok({"function": g2.name, "family": short(rng, 70), "starts_at": f"lb({th})"})
                            else:
                                out.bad(f"existential-family-skips-low-positions:{g2.name}:{th}", f"{g2.name}: `{short(c, 60)}` is generated for positions from "
                                        f"`{short(start, 70) if start is not None else 0}`, not from lb({th}): at a lower position {th} may be placed with no constraint "
                                        f"requiring its predecessor", where(g2, rng))
    if n_e < 3:
        raise AnalysisError(f"only {n_e} existential-family instances found")


def single_assignments_of(f, e):
    from ..core.flow import single_assignments
    if isinstance(e, ast.Name):
        return [v for (_, v, idx) in single_assignments(f.node).get(e.id, []) if idx is None]
    return []


def rule_i(ctx, out):
    """Which hard-constraint families are generated does not depend on optional flags where soundness needs them.
    FullEncoding.generate_hard_constraints (with _select_additional_constraints_from_flags) is interpreted on a stand-in encoding
    object, every constraint family replaced by a model that only records that it was asked for and with which subject, under every
    combination of the flags the two methods read.  Required under every combination: the domain of t, the stack encoding of every
    instruction, one of the two memory-order encodings (the one the flag names), initial and final stack, from-nop, each
    uninterpreted instruction at least once, no output before pop; and with the direct memory encoding — which does not limit how
    often a store occurs — `at most once` for every store."""
    import itertools
    from ..core.interp import ModuleInterp
    from ..core.minieval import Unsupported, Raised
    cls = ctx.p.cls(f"{ENC_PKG}.synthesis_full_encoding.FullEncoding")
    gen = cls.methods.get("generate_hard_constraints")
    if gen is None:
        raise AnalysisError("FullEncoding.generate_hard_constraints not found")
    # flags read by the two methods and the values they are compared with
    domains = {}
    for m in ctx.with_helpers(gen):
        for n in own_nodes(m.node):
            if isinstance(n, ast.Attribute) and isinstance(n.value, ast.Attribute) and n.value.attr == "_flags" and is_name(n.value.value, "self"):
                dom = domains.setdefault(n.attr, set())
                p_ = getattr(n, "_parent", None)
                if isinstance(p_, ast.Compare) and p_.left is n:
                    dom |= {c.value for c in p_.comparators if isinstance(c, ast.Constant) and isinstance(c.value, str)}
                elif isinstance(p_, ast.Attribute) and p_.attr == "startswith":
                    call = getattr(p_, "_parent", None)
                    if isinstance(call, ast.Call) and call.args and isinstance(call.args[0], ast.Constant):
                        dom |= {call.args[0].value + "_uf", call.args[0].value + "_int"}
    if "memory_encoding" not in domains:
        raise AnalysisError("generate_hard_constraints no longer reads the memory_encoding flag")
    # a string flag ranges over the choices the command line declares for it (dest=<flag>, choices=[...])
    declared = {}
    for m_ in ctx.p.modules.values():
        for c in ast.walk(m_.tree):
            if isinstance(c, ast.Call) and isinstance(c.func, ast.Attribute) and c.func.attr == "add_argument":
                kw = {k.arg: k.value for k in c.keywords}
                if isinstance(kw.get("dest"), ast.Constant) and isinstance(kw.get("choices"), (ast.List, ast.Tuple)):
                    declared[kw["dest"].value] = {e.value for e in kw["choices"].elts if isinstance(e, ast.Constant)}
    for k, d in domains.items():
        if d:
            if k in declared:
                domains[k] = set(declared[k])
            else:
                d.add("<another value>")
    names = sorted(domains)
    values = [sorted(domains[k]) if domains[k] else [False, True] for k in names]

    class Obj:
        def __init__(self, **kw):
            self.__dict__.update(kw)

    class Enc(Obj):
        def encode_instruction(self, instr, *a, **k):
            return [("stack-encoding", instr.theta_value)]

    class TF(Obj):
        def created_theta_values(self):
            return [1, 2]

        def created_stack_vars(self):
            return ["a", "b"]
    subset = Obj(basic="basic", store="store", comm="comm", non_comm="non_comm", pop="pop")

    def ins(theta, name, sub, unique=True):
        return Obj(theta_value=theta, opcode_name=name, instruction_subset=sub, unique_ui=unique, id=f"{name}_{theta}")
    basic = [ins(0, "PUSH", "basic"), ins(1, "POP", "pop"), ins(2, "NOP", "basic"), ins(3, "SWAP1", "basic"), ins(4, "DUP1", "basic")]
    unint = [ins(5, "MSTORE", "store"), ins(6, "SSTORE", "store"), ins(7, "ADD", "comm"), ins(8, "MLOAD", "non_comm")]

    def family(name, subject=None, fname=None):
        """a model of one constraint family: records that it was asked for; `subject` = index of the parameter (of the real function's
        signature, so positional and keyword calls are the same) whose value identifies what the family is about"""
        real = [f_ for f_ in ctx.p.functions.values() if f_.name == (fname or name) and f_.module.name.startswith(ENC_PKG) and f_.cls is None]
        params = real[0].params if real else []

        def model(*a, **k):
            vals = list(a) + [None] * max(0, len(params) - len(a))
            for kk, vv in k.items():
                if kk in params:
                    vals[params.index(kk)] = vv
            return [(name, vals[subject] if subject is not None and subject < len(vals) else None)]
        return model
    extern = {n_: family(n_) for n_ in ("restrict_t_domain", "l_conflicting_constraints", "direct_conflict_constraints", "stack_encoding_for_terminal",
                                        "expressions_are_distinct", "initialize_stack_variables", "fromnop_encoding", "each_instruction_is_used_at_least_once",
                                        "no_output_before_pop")}
    extern["stack_encoding_for_position"] = family("stack-at-position", 0, "stack_encoding_for_position")
    extern["stack_encoding_for_position_empty"] = family("stack-at-position", 0, "stack_encoding_for_position_empty")
    extern["each_function_is_used_at_most_once"] = family("at-most-once", 2, "each_function_is_used_at_most_once")
    class UOC(Obj):
        """stand-in for UninterpretedOpcodeTermCreation: answers which representation of the stack terms was asked for"""
        def __init__(self, *a, **k):
            pass

        def opcode_rep_with_uf(self, *a):
            return ["uninterpreted symbols"]

        def opcode_rep_with_stack_vars(self, *a):
            return ["stack variables"]

        def opcode_rep_with_int(self, *a):
            return ["integer codes"]
    conv = cls.methods.get("_initialize_term_to_variable_conversion")
    mi = ModuleInterp(ctx, max_steps=200000, extern=extern, obj_types=(Obj,),
                      inject={"InstructionSubset": subset, "UninterpretedOpcodeTermCreation": UOC, "Sort": Obj(uninterpreted="U", integer="I", uninterpreted_theta="T")})
    Full = mi.fake_class(cls)
    n = 0
    for combo in itertools.product(*values):
        flags = Obj(**dict(zip(names, combo)))
        for terminal in (False, True):
            me = Full(_flags=flags, _term_factory=TF(), _bounds="B", _instructions=basic + unint, _basic_instructions=basic, _uninterpreted_instructions=unint,
                      _encoding_stack=Enc(), _dependency_graph={}, mem_order=[], b0=7, bs=3, initial_stack=["x"], final_stack=["y"], _initial_idx=0, _terminal=terminal)
            try:
                got = me.generate_hard_constraints()
            except Raised as e:
                got = [("raises", e.what)]
            except Unsupported as e:
                raise AnalysisError(f"generate_hard_constraints cannot be evaluated abstractly under {dict(zip(names, combo))}: {e}")
            n += 1
            fams = [g for g in got if isinstance(g, tuple)]
            have = lambda nm, subj=None: any(f[0] == nm and (subj is None or f[1] == subj) for f in fams)
            direct = flags.memory_encoding == "direct"
            missing = []
            if fams and fams[0][0] == "raises":
                missing.append(f"raises {fams[0][1]}")
            for nm in ("restrict_t_domain", "fromnop_encoding", "each_instruction_is_used_at_least_once", "no_output_before_pop"):
                if not have(nm):
                    missing.append(nm)
            for i_ in basic + unint:
                if not have("stack-encoding", i_.theta_value):
                    missing.append(f"stack encoding of {i_.opcode_name}")
                    break
            if not have("stack-at-position", 0):
                missing.append("initial stack")
            if not (have("stack-at-position", 7) or have("stack_encoding_for_terminal")):
                missing.append("final stack")
            if flags.memory_encoding == "l_vars" and not have("l_conflicting_constraints"):
                missing.append("l_conflicting_constraints")
            if flags.memory_encoding != "l_vars" and not have("direct_conflict_constraints"):
                missing.append("direct_conflict_constraints")
            if flags.memory_encoding != "l_vars":
                for st in (5, 6):
                    if not have("at-most-once", st):
                        missing.append("at most once for a store")
                        break
            # sibling agreement: where the stack terms are represented by uninterpreted symbols (whatever sort they get), nothing but an
            # explicit constraint keeps two different terms apart
            if conv is not None:
                if not hasattr(flags, "empty"):
                    flags.empty = False
                try:
                    rep = mi.call(conv, me)
                except (Raised, Unsupported) as e:
                    raise AnalysisError(f"_initialize_term_to_variable_conversion cannot be evaluated under {dict(zip(names, combo))}: {e}")
                if rep == "uninterpreted symbols" and not have("expressions_are_distinct"):
                    missing.append("distinctness of the stack terms (they are uninterpreted symbols under this setting)")
            if not missing:
                out.ok()
            else:
                setting = ", ".join(f"{k}={v!r}" for k, v in zip(names, combo))
                out.bad(f"hard-constraint-family-missing:{missing[0].replace(' ', '-')}", f"with the flags ({setting}{', terminal block' if terminal else ''}) the hard constraints "
                        f"lack: {', '.join(missing)} — a model of the remaining constraints need not decode to a realizing sequence", where(gen),
                        {"flags": setting, "generated": sorted({f[0] for f in fams})})
    out.samples.append({"flag_settings_evaluated": n, "flags": {k: sorted(map(str, v)) for k, v in zip(names, values)}})
    if n < 16:
        raise AnalysisError(f"only {n} flag settings evaluated")


TERMS = "smt_encoding.complete_encoding.synthesis_opcode_term_creation"


def rule_f(ctx, out):
    """Integer codes of stack terms are pairwise different, and the code of `empty` is none of them.  opcode_rep_with_int numbers a
    collection with enumerate and takes `base + len(table)` as the next free code; that is a fresh code only if the numbering is
    dense, i.e. the enumerate index counts exactly the elements that are kept (no filter between enumerate and the table)."""
    f = ctx.func(f"{TERMS}.UninterpretedOpcodeTermCreation.opcode_rep_with_int")
    n = 0
    tables = {}
    for st in f.node.body:
        if isinstance(st, ast.Assign) and len(st.targets) == 1 and isinstance(st.targets[0], ast.Name) and isinstance(st.value, ast.DictComp):
            dc = st.value
            g = dc.generators[0]
            if not (isinstance(g.iter, ast.Call) and call_name(g.iter) == "enumerate" and isinstance(g.target, ast.Tuple) and len(dc.generators) == 1):
                continue
            n += 1
            idx = g.target.elts[0].id
            val = dc.value
            base = None
            if isinstance(val, ast.BinOp) and isinstance(val.op, ast.Add):
                names = [x for x in (val.left, val.right) if not is_name(x, idx)]
                if len(names) == 1 and any(is_name(x, idx) for x in (val.left, val.right)):
                    base = norm(names[0])
            if base is None:
                out.bad(f"term-codes:{st.targets[0].id}:value-shape", f"`{short(val, 40)}` is not <index> + <base>", where(f, st))
                continue
            if g.ifs:
                out.bad(f"term-codes:{st.targets[0].id}:filtered-after-enumerate", f"opcode_rep_with_int: `{short(dc, 90)}` filters the elements after they were "
                        f"numbered: the codes have gaps, and `{base} + len({st.targets[0].id})` is then one of them (the code of `empty` or of the next table)", where(f, st))
                continue
            tables[st.targets[0].id] = base
            out.ok({"table": st.targets[0].id, "codes": f"{base} + 0 .. {base} + len-1 (dense)"})
    if n < 2:
        raise AnalysisError(f"opcode_rep_with_int: only {n} enumerate-numbered tables found")
    # every "next free code" is base + len(table) of a dense table with that base
    for node in own_nodes(f.node):
        if isinstance(node, ast.Assign) and isinstance(node.value, ast.BinOp) and isinstance(node.value.op, ast.Add):
            lens = [c for c in (node.value.left, node.value.right) if isinstance(c, ast.Call) and call_name(c) == "len" and c.args and isinstance(c.args[0], ast.Name)]
            if not lens:
                continue
            n += 1
            tab = lens[0].args[0].id
            other = norm([c for c in (node.value.left, node.value.right) if c is not lens[0]][0])
            if tab in tables and tables[tab] == other:
                out.ok({"next_free_code": short(node, 70)})
            else:
                out.bad(f"term-codes:next-free-code:{norm(node.targets[0])}", f"`{short(node, 80)}` is not <base of {tab}> + len({tab}) of a densely numbered table", where(f, node))
    if n < 4:
        raise AnalysisError(f"opcode_rep_with_int: only {n} numbering facts found")


PO = "smt_encoding.complete_encoding.synthesis_pre_order"
AC = "smt_encoding.complete_encoding.synthesis_additional_constraints"
IV = "smt_encoding.complete_encoding.synthesis_initialize_variables"


def rule_g(ctx, out):
    """What each order / multiplicity constraint generator emits means what it is documented to mean.  The generators are
    interpreted on a three-position instance with instruction codes a, b, n under two bound configurations; the conjunction of
    the emitted formulas is compared with the intended meaning under every assignment of codes to positions (and of positions to
    the l-variables).  Exhaustive on the instance, bounded in size (sa/core/encrules.py)."""
    import itertools
    from ..core import encrules as er
    from ..core.minieval import Unsupported, Raised
    mi = er.make_interp(ctx)
    sf = er.SF()
    POS = [0, 1, 2]
    CODES = ["a", "b", "n"]
    configs = {"equal bounds": er.Bounds({c: 0 for c in CODES}, {c: 2 for c in CODES}, 0, 2),
               "staggered bounds": er.Bounds({"a": 0, "b": 1, "n": 0}, {"a": 1, "b": 2, "n": 2}, 0, 2)}

    def run(qual, *args):
        try:
            r = mi.call(ctx.func(qual), *args)
        except (Unsupported,) as e:
            raise AnalysisError(f"{qual}: cannot evaluate abstractly: {e}")
        return [r] if isinstance(r, er.Hard) or r is None else list(r)

    def compare(name, cfgname, formulas, meaning, with_l=False):
        n = 0
        for tasg in er.t_assignments(POS, CODES):
            lasgs = [dict(zip(("l_a", "l_b"), v)) for v in itertools.product(POS, repeat=2)] if with_l else [{}]
            for lasg in lasgs:
                asg = dict(tasg, **lasg)
                n += 1
                try:
                    got = er.conj(formulas, asg)
                except KeyError as ke:
                    out.bad(f"constraint-meaning:{name}:mentions-position-outside-the-sequence", f"{name} ({cfgname}): an emitted constraint mentions {ke.args[0]}, "
                            f"which is not a position / variable of the instance (positions {POS})", where(ctx.func(name_qual[name])))
                    return n
                want = meaning(asg)
                if got != want:
                    out.bad(f"constraint-meaning:{name}:{'admits-more' if got else 'excludes-more'}",
                            f"{name} ({cfgname}): the emitted constraints are {got} and their meaning is {want} for the sequence "
                            f"{[asg[f't_{j}'] for j in POS]}" + (f" with l = {lasg}" if lasg else ""), where(ctx.func(name_qual[name])),
                            {"formulas": [repr(getattr(f_, 'formula', f_)) for f_ in formulas][:8]})
                    return n
        out.ok({"generator": name, "bounds": cfgname, "assignments_compared": n})
        return n

    name_qual = {"l-variable link and order": f"{PO}.l_conflicting_constraints_from_theta_values", "happens_before_direct": f"{PO}.happens_before_direct",
                 "sto_ld_dependency": f"{PO}.sto_ld_dependency", "ld_sto_dependency": f"{PO}.ld_sto_dependency", "fromnop_encoding": f"{AC}.fromnop_encoding",
                 "each_instruction_is_used_at_least_once": f"{AC}.each_instruction_is_used_at_least_once",
                 "each_function_is_used_at_most_once": f"{AC}.each_function_is_used_at_most_once", "restrict_t_domain": f"{IV}.restrict_t_domain"}
    total = 0
    for cfgname, b in configs.items():
        lb, ub = b.lb, b.ub
        t = lambda asg, j: asg[f"t_{j}"]
        # l-variables: domain, link with t (both directions), order a before b
        fs = run(name_qual["l-variable link and order"], ["a", "b"], b, {"b": {"a"}, "a": set()}, sf)
        total += compare("l-variable link and order", cfgname, fs, lambda asg: all(
            lb[c] <= asg[f"l_{c}"] <= ub[c] and all((t(asg, j) == c) == (asg[f"l_{c}"] == j) for j in range(lb[c], ub[c] + 1)) for c in ("a", "b"))
            and asg["l_a"] < asg["l_b"], with_l=True)
        fs = [f_ for j in POS for f_ in run(name_qual["happens_before_direct"], j, sf, b, "a", "b")]
        total += compare("happens_before_direct", cfgname, fs, lambda asg: all(t(asg, j) != "b" or any(t(asg, i) == "a" for i in range(lb["a"], j)) for j in POS))
        fs = [f_ for j in POS for f_ in run(name_qual["sto_ld_dependency"], j, sf, b, "a", "b")]
        total += compare("sto_ld_dependency", cfgname, fs, lambda asg: all(t(asg, j) != "a" or all(t(asg, i) != "b" for i in range(lb["b"], j)) for j in POS))
        fs = [f_ for j in POS for f_ in run(name_qual["ld_sto_dependency"], j, sf, b, "a", "b")]
        total += compare("ld_sto_dependency", cfgname, fs, lambda asg: all(t(asg, j) != "b" or all(t(asg, i) != "a" for i in range(j + 1, ub["a"] + 1)) for j in POS))
        fs = run(name_qual["fromnop_encoding"], sf, b, "n")
        total += compare("fromnop_encoding", cfgname, fs, lambda asg: all(t(asg, j) != "n" or t(asg, j + 1) == "n" for j in range(lb["n"], ub["n"])))
        fs = run(name_qual["each_instruction_is_used_at_least_once"], sf, b, ["a", "b"])
        total += compare("each_instruction_is_used_at_least_once", cfgname, fs, lambda asg: all(any(t(asg, j) == c for j in range(lb[c], ub[c] + 1)) for c in ("a", "b")))
        fs = run(name_qual["each_function_is_used_at_most_once"], sf, b, "a")
        total += compare("each_function_is_used_at_most_once", cfgname, fs, lambda asg: sum(1 for j in range(lb["a"], ub["a"] + 1) if t(asg, j) == "a") <= 1)
        fs = run(name_qual["restrict_t_domain"], sf, b, CODES)
        total += compare("restrict_t_domain", cfgname, fs, lambda asg: all(lb[t(asg, j)] <= j <= ub[t(asg, j)] for j in POS))
    out.samples.append({"assignments_compared": total})
    if total < 800:
        raise AnalysisError(f"only {total} assignments compared")


SC = "smt_encoding.complete_encoding.synthesis_stack_constraints"


def rule_h(ctx, out):
    """The per-instruction stack constraints are the stack machine's transition relation.  Every encoder of
    synthesis_stack_constraints (both representations of "slot unused": the u flags and the `empty` term) is interpreted for one
    position on a small stack; for *every* well-formed state before and *every* state after, the constraint (with t_j = the
    instruction) holds exactly when the instruction is applicable and the state after is the machine's successor.  Exhaustive on the
    instance (bs slots, a few values), bounded in size."""
    from ..core import encrules as er
    from ..core.minieval import Unsupported, Raised
    mi = er.make_interp(ctx)
    mi.obj_types = mi.obj_types + (er.SFStack,)
    sf = er.SFStack()
    thorough = ctx.tier == "thorough"
    configs = [(3, ["A", "B"])] + ([(4, ["A", "B"]), (3, ["A", "B", "C"])] if thorough else [])
    cases = [("dupk_encoding", (1,), "dup", {"k": 1}), ("dupk_encoding", (2,), "dup", {"k": 2}), ("swapk_encoding", (1,), "swap", {"k": 1}),
             ("swapk_encoding", (2,), "swap", {"k": 2}), ("pop_encoding", (), "pop", {}), ("nop_encoding", (), "nop", {}),
             ("non_comm_function_encoding", (["A", "B"], "B"), "fn", {"o": ["A", "B"], "r": "B"}), ("non_comm_function_encoding", (["A"], "B"), "fn", {"o": ["A"], "r": "B"}),
             ("non_comm_function_encoding", ([], "B"), "fn", {"o": [], "r": "B"}), ("non_comm_function_encoding", (["B", "A", "A"], "A"), "fn", {"o": ["B", "A", "A"], "r": "A"}),
             ("comm_function_encoding", ("A", "B", "A"), "comm", {"o0": "A", "o1": "B", "r": "A"}), ("comm_function_encoding", ("A", "A", "B"), "comm", {"o0": "A", "o1": "A", "r": "B"}),
             ("store_stack_function_encoding", ("A", "B"), "store", {"o0": "A", "o1": "B"}), ("pop_uninterpreted_encoding", ("A",), "popu", {"o0": "A"})]
    total = 0
    for bs, dom in configs:
        extra = [("dupk_encoding", (3,), "dup", {"k": 3}), ("swapk_encoding", (3,), "swap", {"k": 3})] if bs >= 4 else []
        for name, args, kind, params in cases + extra:
            for ev in (False, True):
                fname = name + ("_empty" if ev else "")
                f = ctx.p.functions.get(f"{SC}.{fname}")
                if f is None:
                    raise AnalysisError(f"{SC}.{fname} not found")
                try:
                    h = mi.call(f, 0, "theta", sf, bs, *args)
                except Raised as e:
                    out.bad(f"stack-constraint:{fname}:raises", f"{fname} raises {e.what} for bs={bs}, arguments {args}", where(f))
                    continue
                except Unsupported as e:
                    raise AnalysisError(f"{fname}: cannot evaluate abstractly: {e}")
                prob, text, n = er.check_transition(h, kind, params, bs, dom, ev)
                total += n
                if prob is None:
                    out.ok({"encoder": fname, "arguments": repr(args), "slots": bs, "state_pairs": n})
                else:
                    out.bad(f"stack-constraint:{fname}:{prob}", f"{fname}{args} on {bs} slots: {text}", where(f))
        # basic push: the pushed value a_j is any word
        for ev in (False, True):
            fname = "push_basic_encoding" + ("_empty" if ev else "")
            f = ctx.p.functions.get(f"{SC}.{fname}")
            if f is None:
                raise AnalysisError(f"{SC}.{fname} not found")
            idom = [1, 2]
            h = mi.call(f, 0, "theta", sf, bs)
            for a_val, ok_val in ((1, True), (2, True), (0, True), (2 ** 256 - 1, True), (-1, False), (2 ** 256, False)):
                prob, text, n = er.check_transition(h, "push" if ok_val else "never", {"v": a_val}, bs, idom + ([a_val] if a_val not in idom and ok_val else []), ev, {"a_0": a_val}) \
                    if ok_val else _never(er, h, bs, idom, ev, a_val)
                total += n
                if prob is None:
                    out.ok({"encoder": fname, "pushed": a_val if abs(a_val) < 10 else hex(a_val), "slots": bs})
                else:
                    out.bad(f"stack-constraint:{fname}:{prob}", f"{fname} on {bs} slots with a_j = {a_val}: {text}", where(f))
    out.samples.append({"state_pairs_compared": total})
    if total < 30000:
        raise AnalysisError(f"only {total} state pairs compared")


def _never(er, h, bs, dom, ev, a_val):
    """a pushed value outside [0, 2^256) must admit no successor at all"""
    n = 0
    posts = list(er.states(bs, dom, ev))
    for pre, wf, stack in er.states(bs, dom, ev):
        if not wf:
            continue
        base = dict(er.as_assignment(pre, 0, bs), t_0="theta", a_0=a_val)
        for post, pwf, pstack in posts:
            n += 1
            if er.value(h, dict(base, **er.as_assignment(post, 1, bs))):
                return "admits-value-outside-the-word-range", f"a pushed value of {a_val} is admitted", n
    return None, None, n


def rule_j(ctx, out):
    """The encoder's registries are filled by somebody.  The hard constraints that range over 'everything created so far' (distinctness of
    the theta values, the declarations) read instance registries of the term factories: an attribute that is initialised empty, read as a
    collection, and that no statement can ever fill (no store, no mutating call, no alias handed out) makes its reader vacuous — the
    constraint family derived from it silently disappears while every emitted formula stays well formed."""
    from ..core.idioms import never_filled_registries
    n = 0
    for c, attr, reader, node in never_filled_registries(ctx, ("smt_encoding.",)):
        n += 1
        if reader is None:
            out.ok({"class": c.qual, "registry": attr})
        else:
            out.bad(f"registry-read-but-never-filled:{c.name}.{attr}", f"{c.qual}: `self.{attr}` is initialised empty and read by {reader.name} "
                    f"(`{short(getattr(node, '_parent', node), 60)}`), but no statement of the class stores into it, calls a mutating method on it or hands "
                    f"it out: the reader always sees an empty collection, and what is derived from it (a constraint over every registered term) "
                    f"is never generated", where(reader, node))
    if n < 8:
        raise AnalysisError(f"only {n} instance registries found in the encoder classes")


RULES = [
    ("C06.j", "registries the constraint generators read are filled somewhere", 8, rule_j),
    ("C06.i", "mandatory hard-constraint families are generated under every flag setting", 16, rule_i),
    ("C06.h", "stack constraints = transition relation of the stack machine (small instance)", 30, rule_h),
    ("C06.g", "order and multiplicity constraints mean what they are documented to mean", 14, rule_g),
    ("C06.f", "integer codes of stack terms are dense; `empty` gets a fresh code", 4, rule_f),
    ("C06.e", "position families cover every admissible position", 15, rule_e),
    ("C06.d", "happens-before map under-approximates the dependency graph", 7, rule_d),
    ("C06.a", "every SMT symbol is declared", 10, rule_a),
    ("C06.b", "encoder dispatch exhaustive; registered keywords match signatures", 20, rule_b),
    ("C06.c", "model reader and domain constraint range over the same positions", 5, rule_c),
]
