"""C03 — simplification rules and constant folding are identities on 256-bit words (scoped claim).

C03.a rule table of apply_transform: every (opcode, operand pattern) -> result row is a valid EVM identity; totality
C03.b constant folders stay in the word domain: result interval, no floats, no zero divisor, bounded powers; every
      folded operator has a branch; no two operators share one folding expression
C03.c translation round trip (a rule or fold applied to the wrong operator is not an identity)      [shared, E1]
C03.d size gating: in size mode a fold is applied only under the byte-size comparison
C03.e record consistency where a rewriting rule re-labels an instruction record
C03.f context rules are identities on the pattern family
C03.g type-1 rule application preserves the denotation
"""
import ast
import itertools
import re

from ..core.flow import call_name, calls_in, is_name
from ..core.interp import ModuleInterp
from ..core.loader import AnalysisError, short, own_nodes, norm
from ..core.minieval import Unsupported, Raised
from ..core.report import where
from ..core import wordint
from ..specs import evm

TECHNIQUE = ("abstract evaluation of the rule function over the finite operand-pattern domain, compared with a complete "
             "table of valid EVM identities; interval analysis of the constant folders over the word domain; "
             "sibling-field agreement on re-labelled records")
LEVEL_TEXT = ("Decides, for the type-1 rules (apply_transform), validity of every rule row over all 256-bit values by "
              "comparison with the complete identity table of the rule pattern language (each invalid row also carries a "
              "concrete counterexample); for the constant folders, that results stay in [0,2^256), use exact integer "
              "arithmetic, cannot divide by zero and cannot build unbounded powers; that size mode gates folding by the "
              "byte comparison; and that re-labelled records keep id/opcode/commutative consistent. The ~35 context "
              "rules of apply_cond_transformation (graph rewrites with use-count side conditions) are examined by bounded "
              "refutation: the function is interpreted on a finite family of term patterns in type-1 normal form and the words "
              "denoted before/after are compared over a grid of edge-case words; a rule that is wrong only outside that family "
              "or grid is not found."
              ' Added in seeding rounds 7-8: the unary folds on str and int constants (C03.i) and a lint that the tables the rules consult are containers, not one-shot iterators (C03.j).')
EXPLANATION = ("Pattern domain: operands in {0, 1, 2^256-1, X, Y} (X, Y universally quantified words, X=X allowed); the rule "
               "function is interpreted on each pattern for each dispatched opcode. Premise (checked): apply_transform "
               "touches operands only through ==, `in` and all_integers.")
NOT_DECIDED = ("validity of the context rules of apply_cond_transformation beyond the pattern family and word grid of C03.f; value-exactness of folders beyond domain/definedness "
               "(e.g. that sar computes an arithmetic shift) except where two operators share one expression")
EXHAUSTIVE = True
ASSUMPTIONS = ["inpt_sk[0] is the top-of-stack operand (established by C01.b operand order)",
               "the identity table in sa/specs/evm.py is complete for the pattern language (cross-checked against 18x18 witness values on every run)"]

GO = "sfs_generator.gasol_optimization"
PAT = [0, 1, "M", "X", "Y"]


def _interp(ctx):
    mi = ModuleInterp(ctx)
    env = mi.module_env(GO)
    env.setdefault("int_not0", [evm.M])
    env["int_not0"] = [evm.M]
    for k in ("saved_push", "gas_saved_op", "discount_op"):
        env[k] = 0
    env["rule"] = ""
    env["size_flag"] = False
    env["debug"] = False
    return mi, env


def _enc(t):
    return {"M": evm.M, "X": "s(1)", "Y": "s(2)"}.get(t, t)


def _dec(v, a, b):
    if v == evm.M:
        return "M"
    if v == "s(1)":
        return "X"
    if v == "s(2)":
        return "Y"
    return v


def rule_a(ctx, out):
    f = ctx.func(f"{GO}.apply_transform")
    disp = ctx.func(f"{GO}.apply_transform_rules")
    lists = [n for n in own_nodes(disp.node) if isinstance(n, ast.Compare) and isinstance(n.ops[0], ast.In) and isinstance(n.comparators[0], ast.List)
             and "disasm" in norm(n.left)]
    if not lists:
        raise AnalysisError("apply_transform_rules: dispatch list not found")
    dispatched = [e.value for e in lists[0].comparators[0].elts if isinstance(e, ast.Constant)]
    out.info["dispatched_opcodes"] = dispatched
    # branches present in apply_transform
    handled = set()
    # the selector: the local that holds <record>["disasm"]
    selectors = {t.id for n in own_nodes(f.node) if isinstance(n, ast.Assign) and isinstance(n.value, ast.Subscript) and isinstance(n.value.slice, ast.Constant)
                 and n.value.slice.value == "disasm" for t in n.targets if isinstance(t, ast.Name)}
    if not selectors:
        raise AnalysisError("apply_transform: the local holding the record's opcode (instr['disasm']) was not found")
    for n in own_nodes(f.node):
        if isinstance(n, ast.Compare) and isinstance(n.left, ast.Name) and n.left.id in selectors and isinstance(n.ops[0], ast.Eq) and isinstance(n.comparators[0], ast.Constant):
            handled.add(n.comparators[0].value)
    out.info["branches_not_dispatched"] = sorted(handled - set(dispatched))
    # premise: operands only compared
    operand_lists = {t.id for n in own_nodes(f.node) if isinstance(n, ast.Assign) and isinstance(n.value, ast.Subscript) and isinstance(n.value.slice, ast.Constant)
                     and n.value.slice.value == "inpt_sk" for t in n.targets if isinstance(t, ast.Name)}
    for n in own_nodes(f.node):
        if isinstance(n, ast.Subscript) and isinstance(n.value, ast.Name) and n.value.id in operand_lists:
            p = getattr(n, "_parent", None)
            if isinstance(p, (ast.Compare, ast.Return, ast.IfExp)) or (isinstance(p, ast.Call) and call_name(p) in ("int", "all_integers")):
                continue
            raise AnalysisError(f"apply_transform uses an operand outside comparisons/returns: {short(p)} — pattern premise fails")
    mi, env = _interp(ctx)
    unary = {"NOT", "ISZERO"}
    n_rows = 0
    for op in dispatched:
        if op not in handled:
            out.bad(f"rule-dispatch-without-branch:{op}", f"{op} is dispatched to apply_transform but has no branch there: the implicit None is "
                    f"substituted for a stack variable", where(f))
            continue
        pats = [(a,) for a in (0, 1, "M", 5, "X")] if op in unary else \
            [(a, b) for a in PAT for b in PAT if not (a == "Y") and not (b == "Y" and a != "X")]
        for pat in pats:
            instr = {"disasm": op, "inpt_sk": [_enc(t) for t in pat]}
            try:
                res = mi.call(f, instr)
            except Raised as e:
                out.bad(f"rule-raises:{op}:{pat}", f"apply_transform raises {e.what} on {op}{pat}", where(f))
                continue
            except Unsupported as e:
                raise AnalysisError(f"cannot evaluate apply_transform on {op}{pat}: {e}")
            if res == -1:
                out.ok()
                continue
            if res is None:
                out.bad(f"rule-implicit-none:{op}:{','.join(map(str, pat))}", f"apply_transform falls off the end for {op}{pat}: None is treated as a fired rule",
                        where(f))
                continue
            n_rows += 1
            r = _dec(res, *pat) if len(pat) == 2 else _dec(res, pat[0], None)
            a = pat[0]
            b = pat[1] if len(pat) == 2 else None
            if op in unary:
                if a == "X":
                    out.bad(f"rule-row:{op}:X->{r}", f"{op}(X) is rewritten to {r} for every X", where(f))
                    continue
                want = evm.evm_op(op, evm.operand_value(a, 0, 0))
                if res == want:
                    out.ok({"rule": f"{op}({a})", "result": str(r)})
                else:
                    out.bad(f"rule-row:{op}:{a}->{r}", f"{op}({a}) is folded to {res}, EVM gives {want}", where(f))
                continue
            if r not in (0, 1, "M", "X", "Y"):
                out.bad(f"rule-row:{op}:{a},{b}->{r}", f"rule result {res!r} is outside the pattern language", where(f))
                continue
            valid, cex = evm.identity_valid(op, a, b, r)
            row = f"{op}({a},{b}) -> {r}"
            if not valid and cex is None and not any(t in ("X", "Y") for t in (a, b)):
                va, vb = evm.operand_value(a, 0, 0), evm.operand_value(b, 0, 0)
                out.bad(f"rule-row:{op}:{a},{b}->{r}", f"rule {row} is wrong on these constants: {op}({va:#x}, {vb:#x}) = {evm.evm_op(op, va, vb):#x}", where(f))
                continue
            if valid:
                out.ok({"rule": row})
            elif cex is not None:
                x, y = cex
                va, vb = evm.operand_value(a, x, y), evm.operand_value(b, x, y)
                out.bad(f"rule-row:{op}:{a},{b}->{r}", f"rule {row} is not an identity: {op}({va:#x}, {vb:#x}) = "
                        f"{evm.evm_op(op, va, vb):#x}, the rule gives {evm.operand_value(r, x, y):#x}", where(f),
                        {"counterexample": {"X": hex(x), "Y": hex(y)}, "env_rule_name": mi.module_env(GO).get("rule")})
            else:
                out.bad(f"rule-row-unproven:{op}:{a},{b}->{r}", f"rule {row} is not in the reference identity table (no counterexample among witnesses)", where(f))
    out.info["rule_rows_fired"] = n_rows
    if n_rows < 30:
        raise AnalysisError(f"only {n_rows} rule rows extracted from apply_transform (floor 30)")


def rule_b(ctx, out):
    consts = {"constants.int_limit": 2 ** 256, "int_limit": 2 ** 256}
    wordint.FUNCS.clear()
    for fi in ctx.p.funcs_in(GO):
        if fi.cls is None and fi.parent is None:
            wordint.FUNCS[fi.name] = fi.node
    f = ctx.func(f"{GO}.evaluate_expression")
    res = wordint.analyse_returns(f.node, f.params[1:], consts, selector=f.params[0])
    branches = {}
    for sel, st, env, iv, issues, kind in res:
        if sel is None:
            continue
        branches.setdefault(sel, []).append((st, iv, issues, kind))
    for sel in sorted(branches):
        for st, iv, issues, kind in branches[sel]:
            issues = [i for i in issues if i.kind != "wrap"]      # a binary word operation wraps by definition
            for i in issues:
                out.bad(f"fold:{sel}:{i.kind}", f"constant folding of `{sel}`: {i.text}  [{short(st, 60)}]", where(f, st))
            if kind == "return":
                if iv[0] >= 0 and iv[1] <= wordint.WMAX:
                    if not issues:
                        out.ok({"fold": sel, "expr": short(st.value, 60), "interval": ["0" if iv[0] == 0 else str(iv[0]), "<= 2^256-1"]})
                elif not any(i.kind in ("float",) for i in issues):
                    lo = "-inf" if iv[0] == -wordint.INF else str(iv[0]) if abs(iv[0]) < 10 else ("-" if iv[0] < 0 else "") + "2^" + str(int(abs(iv[0])).bit_length())
                    hi = "inf" if iv[1] == wordint.INF else "2^" + str(int(iv[1]).bit_length())
                    out.bad(f"fold:{sel}:out-of-domain", f"constant folding of `{sel}` can produce a value outside [0, 2^256): interval [{lo}, {hi}] "
                            f"for `{short(st.value, 50)}` (not reduced modulo 2^256)", where(f, st))
    # shift folds: the guard / clamp must let every shift amount 0..255 through (a smaller threshold folds a valid shift to 0 / to the
    # wrong fill); amounts >= 256 are what the else-value stands for
    def shift_amounts(e, env):
        if isinstance(e, ast.IfExp):
            yield from shift_amounts(e.body, wordint.refine(env, e.test, True, consts))
            yield from shift_amounts(e.orelse, wordint.refine(env, e.test, False, consts))
            return
        if isinstance(e, ast.BinOp) and isinstance(e.op, (ast.LShift, ast.RShift)):
            yield e, wordint.interval(e.right, env, consts, [])
        for c in ast.iter_child_nodes(e):
            if isinstance(c, ast.expr):
                yield from shift_amounts(c, env)
    n_shift = 0
    for sel, st, env, iv, issues, kind in res:
        if kind != "return" or sel not in ("shl", "shr", "sar"):
            continue
        for node, amt in shift_amounts(st.value, env):
            n_shift += 1
            if amt[0] <= 0 and amt[1] >= 255:
                out.ok({"fold": sel, "shift": short(node, 50), "amounts_folded_by_shifting": [amt[0], amt[1] if amt[1] != wordint.INF else "inf"]})
            else:
                out.bad(f"fold:{sel}:shift-amount-range", f"constant folding of `{sel}`: `{short(node, 50)}` is only reached for shift amounts in [{amt[0]}, {amt[1]}]; "
                        f"every amount in 0..255 is a genuine shift", where(f, st))
    if n_shift < 3:
        raise AnalysisError(f"only {n_shift} shift folds found in evaluate_expression")
    # two's-complement reinterpretation idiom  `x - 2^256 if <test> else x`: its range must be exactly int256
    n_sign = 0
    for g in ctx.p.funcs_in(GO):
        for e in own_nodes(g.node):
            if isinstance(e, ast.IfExp) and isinstance(e.body, ast.BinOp) and isinstance(e.body.op, ast.Sub) and isinstance(e.body.left, ast.Name) \
                    and isinstance(e.orelse, ast.Name) and e.orelse.id == e.body.left.id and wordint._const(e.body.right, consts) == 2 ** 256:
                n_sign += 1
                iv = wordint.interval(e, {e.orelse.id: (0, wordint.WMAX)}, consts, [])
                if iv == (-2 ** 255, 2 ** 255 - 1):
                    out.ok({"function": g.name, "signed_reinterpretation": short(e, 70), "range": "[-2^255, 2^255-1]"})
                else:
                    which = "2^255 (the most negative int256) is read as positive" if iv[1] >= 2 ** 255 else "a non-negative int256 is read as negative" if iv[0] < -2 ** 255 \
                        else "the range is not the whole of int256"
                    out.bad(f"signed-reinterpretation-range:{g.name}:{norm(e.test)}", f"{g.name}: `{short(e, 80)}` has the range [{iv[0]}, {iv[1]}], not "
                            f"[-2^255, 2^255-1]: {which}", where(g, e))
    if n_sign < 1:
        if "sar" in branches:
            out.bad("fold:sar:no-signed-reinterpretation", "evaluate_expression folds `sar` without reading the shifted word as a two's-complement number "
                    "(no `x - 2^256 if x >= 2^255 else x`): the fold is a logical shift", where(f))
        else:
            raise AnalysisError("no two's-complement reinterpretation found in the folders (sar)")
    # (v) every operator dispatched by compute_binary has a branch
    cb = ctx.func(f"{GO}.compute_binary")
    lists = [n for n in own_nodes(cb.node) if isinstance(n, ast.Compare) and isinstance(n.left, ast.Name) and isinstance(n.ops[0], ast.In)
             and isinstance(n.comparators[0], ast.List) and len(n.comparators[0].elts) >= 8 and all(isinstance(e, ast.Constant) and isinstance(e.value, str) for e in n.comparators[0].elts)]
    if not lists:
        raise AnalysisError("compute_binary: operator dispatch list not found")
    ops = max(([e.value for e in l.comparators[0].elts if isinstance(e, ast.Constant)] for l in lists), key=len)
    for o in ops:
        if o in branches:
            out.ok({"folded_operator": o, "branch": True})
        else:
            out.bad(f"fold:{o}:no-branch", f"compute_binary folds `{o}` but evaluate_expression has no branch for it: the result None becomes the string 'None'", where(f))
    # sibling rule: two different operators must not share one folding expression
    exprs = {}
    for sel in branches:
        rets = [norm(st.value) for st, _, _, kind in branches[sel] if kind == "return"]
        exprs.setdefault(tuple(rets), []).append(sel)
    for ex, sels in exprs.items():
        if len(sels) > 1 and {evm.FOLD_OPERATOR.get(s) for s in sels} != {None}:
            out.bad(f"fold:{'|'.join(sorted(sels))}:same-expression", f"operators {sorted(sels)} are folded with the same expression `{ex[0] if ex else ''}`; "
                    f"they are different EVM operations, so at least one is wrong", where(f))
    # ternary folder
    g = ctx.func(f"{GO}.evaluate_expression_ter")
    for sel, st, env, iv, issues, kind in wordint.analyse_returns(g.node, g.params[1:], consts, selector=g.params[0]):
        for i in issues:
            if i.kind == "wrap":
                out.bad(f"fold3:{sel}:intermediate-wrapped", f"ternary folding of `{sel}`: {i.text}; the intermediate result of ADDMOD/MULMOD is not "
                        f"subject to the 2^256 modulo (Yellow Paper)", where(g, st))
            else:
                out.bad(f"fold3:{sel}:{i.kind}", f"ternary folding of `{sel}`: {i.text}", where(g, st))
        if kind == "return" and not issues and iv[0] >= 0 and iv[1] <= wordint.WMAX:
            out.ok({"fold3": sel, "expr": short(st.value, 60)})
        elif kind == "return" and not [i for i in issues if i.kind != "wrap"] and not (iv[0] >= 0 and iv[1] <= wordint.WMAX):
            out.bad(f"fold3:{sel}:out-of-domain", f"ternary folding of `{sel}` can leave the word domain", where(g, st))
    ct = ctx.func(f"{GO}.compute_ternary")
    tl = [n for n in own_nodes(ct.node) if isinstance(n, ast.Compare) and isinstance(n.left, ast.Name) and isinstance(n.ops[0], ast.In)
          and isinstance(n.comparators[0], ast.List) and n.comparators[0].elts and all(isinstance(e, ast.Constant) and isinstance(e.value, str) for e in n.comparators[0].elts)]
    if not tl:
        raise AnalysisError("compute_ternary: operator dispatch list not found")
    tbranches = {sel for sel, st, env, iv, issues, kind in wordint.analyse_returns(g.node, g.params[1:], consts, selector=g.params[0]) if sel}
    for e in tl[0].comparators[0].elts:
        if isinstance(e, ast.Constant):
            if e.value in tbranches:
                out.ok({"folded_ternary_operator": e.value, "branch": True})
            else:
                out.bad(f"fold3:{e.value}:no-branch", f"compute_ternary folds `{e.value}` but evaluate_expression_ter has no branch for it "
                        f"(branches: {sorted(tbranches)}): the result None becomes the string 'None'", where(g))
    # NOT / ISZERO folds: ~x + 2**256 with x in the word domain
    for q in (f"{GO}.update_unary_func", f"{GO}.apply_transform"):
        h = ctx.func(q)
        for n in own_nodes(h.node):
            if isinstance(n, ast.Assign) and is_name(n.targets[0], "val_end") and isinstance(n.value, ast.BinOp):
                issues = []
                env = {}
                for x in ast.walk(n.value):
                    if isinstance(x, ast.Call) and call_name(x) == "int":
                        pass
                iv = wordint.interval(_subst_int_calls(n.value), {"__w__": (0, wordint.WMAX)}, consts, issues)
                if iv[0] >= 0 and iv[1] <= wordint.WMAX and not issues:
                    out.ok({"fold": "not", "function": h.name, "expr": short(n.value)})
                else:
                    out.bad(f"fold:not:{h.name}:out-of-domain", f"NOT fold `{short(n.value)}` can leave the word domain", where(h, n))


def _subst_int_calls(e):
    """int(<anything>) -> the word variable __w__ (operands of folds are parsed constants in the word domain)."""
    class T(ast.NodeTransformer):
        def visit_Call(self, node):
            if call_name(node) == "int":
                return ast.Name(id="__w__", ctx=ast.Load())
            return self.generic_visit(node)
    return T().visit(ast.parse(ast.unparse(e), mode="eval").body)


def rule_c(ctx, out):
    from . import roundtrip as rt
    rows, info, own, _ = rt.table(ctx)
    # every operator the folder / rule table knows must be produced by exactly the opcode it denotes
    by_funct = {}
    for o, row in rows.items():
        if row.get("funct") and row.get("back") and o not in rt.NO_FUNCTOR:
            by_funct.setdefault(row["funct"], set()).add(o)
    for ftxt, opc in sorted(evm.FOLD_OPERATOR.items()):
        got = by_funct.get(ftxt, set())
        if got == {opc}:
            out.ok({"operator": ftxt, "opcode": opc})
        elif not got:
            out.info.setdefault("fold_operators_never_produced", []).append(ftxt)
            out.ok()
        else:
            out.bad(f"fold-operator-conflation:{ftxt}:{'|'.join(sorted(got))}", f"the operator text {ftxt!r} that is folded/rewritten as {opc} is produced "
                    f"for opcodes {sorted(got)}: rules and folds of {opc} are applied to another operation", rt.IR)


def rule_d(ctx, out):
    # compute_binary: in size mode the folded value is returned only if check_size accepted it
    cb = ctx.func(f"{GO}.compute_binary")
    cfg = ctx.cfg(cb)
    folds = [n for n in cfg.nodes if n.kind == "stmt" and isinstance(n.ast, ast.Return) and isinstance(n.ast.value, ast.Tuple)
             and isinstance(n.ast.value.elts[0], ast.Constant) and n.ast.value.elts[0].value is True]
    gates = [n for n in cfg.nodes if n.kind == "test" and is_name(n.ast, "size_flag")]
    if not folds:
        raise AnalysisError("compute_binary: fold return not found")
    if not gates:
        out.bad("compute_binary:size-gate-bypassed", "compute_binary no longer tests size_flag: in size mode a fold is applied even when it enlarges the code", where(cb))
        return
    chk = [n for n in cfg.nodes if n.kind == "stmt" and isinstance(n.ast, ast.Assign) and isinstance(n.ast.value, ast.Call) and call_name(n.ast.value) == "check_size"]
    for r in folds:
        # every path through the size_flag T edge to the fold passes the check_size call and the rejecting test after it
        ok = False
        for g in gates:
            for c in chk:
                if cfg.edge_dominated_by_branch(c, g, "T"):
                    # the rejecting test: a test after the call that looks at one of the values the call returned
                    got = {x.id for tg in c.ast.targets for x in ast.walk(tg) if isinstance(x, ast.Name)}
                    rej = [t for t in cfg.nodes if t.kind == "test" and cfg.dominates(c, t) and got & {x.id for x in ast.walk(t.ast) if isinstance(x, ast.Name)}]
                    if rej and not cfg.paths_avoiding(c, r, {t.id for t in rej}):
                        ok = True
        if ok:
            out.ok({"compute_binary": "fold under size mode passes check_size"})
        else:
            out.bad("compute_binary:size-gate-bypassed", "in size mode a folded constant can be returned without passing check_size", where(cb, r.ast))
    # check_size by evaluation: on a grid of operand/result values, it accepts exactly when the folded constant needs no more bytes
    # than the two PUSHes and the operation it replaces (PUSH a, PUSH b, OP = bytes(a)+1 + bytes(b)+1 + 1; PUSH r = bytes(r)+1)
    cs = ctx.func(f"{GO}.check_size")
    mi = ModuleInterp(ctx, max_steps=50000)
    def nbytes(v):
        return max(1, (v.bit_length() + 7) // 8)
    grid = [0, 1, 255, 256, 65535, 65536, 2**32 - 1, 2**64, 2**128, 2**255, 2**256 - 1]
    n_inst, wrong = 0, []
    for a in grid[:7]:
        for b in grid[:7]:
            for r in grid:
                try:
                    got = mi.call(cs, (a, b), r)
                except (Raised, Unsupported) as e:
                    raise AnalysisError(f"check_size cannot be evaluated: {e}")
                n_inst += 1
                if not (isinstance(got, tuple) and len(got) == 2):
                    raise AnalysisError("check_size no longer returns a pair (accepted, expression)")
                accepted = got[1] == r and got[1] != (a, b)
                if accepted and nbytes(r) > nbytes(a) + nbytes(b) + 2:
                    wrong.append((a, b, r))
    if wrong:
        a, b, r = wrong[0]
        out.bad("check_size:accepts-larger-result", f"check_size accepts a folded constant that needs more bytes than the code it replaces, e.g. operands "
                f"{a:#x}, {b:#x} -> result {r:#x} ({nbytes(r)} bytes > {nbytes(a)}+{nbytes(b)}+2); {len(wrong)}/{n_inst} grid instances", where(cs))
    else:
        out.ok({"check_size": f"{n_inst} grid instances: a result is accepted only if bytes(result) <= bytes(a)+bytes(b)+2"})
    # NOT folds: in size mode the folded value is returned / used only along the accepting edge of the byte-size comparison
    #   <bytes of the folded constant>  <=  <bytes of the operand> + 1      (in whatever form: `<=` then-branch, `>` guard clause, ...)
    for q in (f"{GO}.update_unary_func", f"{GO}.apply_transform"):
        h = ctx.func(q)
        hcfg = ctx.cfg(h)
        byte_vars = {t.id for n in own_nodes(h.node) if isinstance(n, ast.Assign) and isinstance(n.value, ast.Call) and call_name(n.value) == "get_num_bytes_int"
                     for t in n.targets if isinstance(t, ast.Name)}
        gates_ = [n for n in hcfg.nodes if n.kind == "test" and is_name(n.ast, "size_flag")]
        if not gates_:
            continue
        # the folded value: the local computed with ~ ... + 2**256
        folded = {t.id for n in own_nodes(h.node) if isinstance(n, ast.Assign) and any(isinstance(x, ast.UnaryOp) and isinstance(x.op, ast.Invert) for x in ast.walk(n.value))
                  for t in n.targets if isinstance(t, ast.Name)}
        uses = [n for n in hcfg.nodes if n.kind == "stmt" and isinstance(n.ast, (ast.Return, ast.Assign)) and n.ast.value is not None
                and any(isinstance(x, ast.Name) and x.id in folded for x in ast.walk(n.ast.value))
                and not (isinstance(n.ast, ast.Assign) and (any(isinstance(t, ast.Name) and t.id in byte_vars | folded for t in n.ast.targets)))]
        btests = []
        for n in hcfg.nodes:
            if n.kind == "test" and isinstance(n.ast, ast.Compare) and len(n.ast.ops) == 1 and {x.id for x in ast.walk(n.ast) if isinstance(x, ast.Name)} & byte_vars:
                op = type(n.ast.ops[0])
                left_names = {x.id for x in ast.walk(n.ast.left) if isinstance(x, ast.Name)}
                # which side holds the size of the folded constant?  it is the byte variable computed from the folded value
                sol_vars = {t.id for a_ in own_nodes(h.node) if isinstance(a_, ast.Assign) and isinstance(a_.value, ast.Call) and call_name(a_.value) == "get_num_bytes_int"
                            and any(isinstance(x, ast.Name) and x.id in folded for x in ast.walk(a_.value)) for t in a_.targets if isinstance(t, ast.Name)}
                sol_left = bool(left_names & sol_vars)
                accept = {ast.LtE: "T", ast.Lt: "T", ast.Gt: "F", ast.GtE: "F"} if sol_left else {ast.GtE: "T", ast.Gt: "T", ast.Lt: "F", ast.LtE: "F"}
                if op in accept:
                    btests.append((n, accept[op]))
        for g_ in gates_:
            guarded_uses = [u for u in uses if hcfg.reaches(g_, u, src_labels={"T"})]
            if not guarded_uses:
                continue
            if not btests:
                out.bad(f"{h.name}:not-fold-size-gate", "in size mode the NOT fold is applied without the byte-size comparison", where(h, g_.ast))
                continue
            # cut the accepting edges: no use of the folded value may remain reachable from the size-mode branch
            leak = [u for u in guarded_uses if hcfg.reaches(g_, u, src_labels={"T"}, removed_edges=[(t, lab) for t, lab in btests])]
            if leak:
                out.bad(f"{h.name}:not-fold-size-gate", "in size mode the NOT fold can be used on a path that does not pass the accepting side of the byte-size "
                        "comparison", where(h, leak[0].ast))
            else:
                out.ok({"function": h.name, "NOT fold in size mode": [norm(t.ast) + " / " + lab for t, lab in btests]})


def rule_e(ctx, out):
    """Where a rule re-labels a record (x["disasm"] = "OP"): id prefix, opcode hex, commutative flag and counter agree."""
    mi = ModuleInterp(ctx)
    get_opcode = ctx.func("sfs_generator.opcodes.get_opcode")
    n = 0
    for f in ctx.p.funcs_in(GO):
        for blk in [b for b in ast.walk(f.node) if isinstance(b, (ast.If, ast.For, ast.While, ast.FunctionDef))]:
            for field in ("body", "orelse"):
                stmts = getattr(blk, field, [])
                recs = {}
                for st in stmts:
                    if isinstance(st, ast.Assign) and isinstance(st.targets[0], ast.Subscript) and isinstance(st.targets[0].slice, ast.Constant) \
                            and st.targets[0].slice.value in ("disasm", "id", "opcode", "commutative"):
                        recs.setdefault(norm(st.targets[0].value), {})[st.targets[0].slice.value] = st
                for recv, fields in recs.items():
                    d = fields.get("disasm")
                    if d is None or not isinstance(d.value, ast.Constant):
                        continue
                    op = d.value.value
                    n += 1
                    # a re-labelled record must get all four sibling fields in the same block (a flag left over from the old
                    # opcode is as wrong as a flag set to the wrong value)
                    if "id" in fields:
                        for need in ("opcode", "commutative"):
                            if need not in fields:
                                out.bad(f"relabel:{f.name}:{op}:{need}-not-updated", f"{f.name} re-labels `{recv}` to {op} (id, disasm) but does not assign "
                                        f"`{recv}[\"{need}\"]` in the same block: the record keeps the {need} of its previous opcode", where(f, d))
                    if "id" in fields:
                        idv = fields["id"].value
                        lits = [x.value for x in ast.walk(idv) if isinstance(x, ast.Constant) and isinstance(x.value, str)]
                        if lits and lits[0] == op + "_":
                            out.ok()
                        else:
                            out.bad(f"relabel:{f.name}:{op}:id-prefix", f"record re-labelled to {op} gets id `{short(idv)}`", where(f, fields["id"]))
                    if "opcode" in fields and isinstance(fields["opcode"].value, ast.Constant):
                        try:
                            code = mi.call(get_opcode, op)[0]
                            want = format(code, "x") if code >= 12 else "0" + format(code, "x")
                        except Exception:
                            want = None
                        if want is not None and str(fields["opcode"].value.value).lower() == want:
                            out.ok()
                        else:
                            out.bad(f"relabel:{f.name}:{op}:opcode-hex", f"record re-labelled to {op} gets opcode {fields['opcode'].value.value!r}, "
                                    f"the table says {want!r}", where(f, fields["opcode"]))
                    if "commutative" in fields and isinstance(fields["commutative"].value, ast.Constant):
                        want = op in evm.COMMUTATIVE
                        if fields["commutative"].value.value is want:
                            out.ok()
                        else:
                            out.bad(f"relabel:{f.name}:{op}:commutative", f"record re-labelled to {op} gets commutative={fields['commutative'].value.value}",
                                    where(f, fields["commutative"]))
                    # the counter incremented is the one of the new opcode
                    ctr = [st for st in stmts if isinstance(st, ast.Assign) and isinstance(st.targets[0], ast.Subscript)
                           and is_name(st.targets[0].value, "user_def_counter") and isinstance(st.targets[0].slice, ast.Constant)]
                    uses_counter = any(is_name(x, "user_def_counter") for st in stmts for x in ast.walk(st))
                    if "id" in fields and not uses_counter:
                        out.ok()    # a freshly built record numbered by its own counter (e.g. generate_pops)
                    elif "id" in fields and not any(c.targets[0].slice.value == op for c in ctr):
                        out.bad(f"relabel:{f.name}:{op}:counter", f"record re-labelled to {op} but user_def_counter[{op!r}] is not advanced: "
                                f"a later {op} gets the same id", where(f, d))
                    elif "id" in fields:
                        out.ok()
    out.info["relabel_sites"] = n
    if n < 5:
        raise AnalysisError(f"only {n} re-labelling sites found")


CTX_CFG = {"entry": f"{GO}.apply_all_comparison", "rules_fn": f"{GO}.apply_cond_transformation", "module": GO,
           "simple": f"{GO}.apply_transform", "dispatch": f"{GO}.apply_transform_rules"}

# context rules that no pattern of the family exercises, with the reason (read in the source)
CTX_NEVER_FIRED = {
    "OR(X,NOT(X))": "dead code: its selector `or_op` filters for NOT consumers (same as not_op), so the branch is shadowed by NOT(NOT(X)); a lost "
                    "simplification, not a wrong one",
}


def rule_f(ctx, out):
    """Context ("type 2") rules: apply_all_comparison is interpreted on every pattern of a finite family; where a rule fires, the
    words denoted by the target stack before and after are compared under the reference semantics over a grid of edge-case words."""
    from ..core import ctxrules as cr
    eng = cr.Engine(ctx, CTX_CFG["entry"], CTX_CFG["rules_fn"], CTX_CFG["module"])
    fam = cr.Family(ctx, eng, CTX_CFG["simple"], CTX_CFG["dispatch"])
    names = sorted(set(eng.rule_names()))
    if len(names) < 25:
        raise AnalysisError(f"apply_cond_transformation: only {len(names)} rule names found")
    stats, fails = cr.examine(eng, fam, fam.named(wrap_all=ctx.tier == "thorough"))
    scope = "named patterns and their one-step perturbations"
    if ctx.tier == "thorough":
        st2, f2 = cr.examine_generic_parallel(ctx, CTX_CFG)
        for k in ("patterns", "normal", "fired"):
            stats[k] += st2[k]
        for k, v in st2["by_rule"].items():
            stats["by_rule"][k] = stats["by_rule"].get(k, 0) + v
        fails += f2
        scope += " + all two-level terms over the function's vocabulary"
    out.info["context_rules"] = {"family": scope, "patterns": stats["patterns"], "in_type1_normal_form": stats["normal"], "evaluations_with_a_rule_fired": stats["fired"],
                                 "fired_per_rule": dict(sorted(stats["by_rule"].items())), "grid_words_per_variable": len(cr.GRID)}
    if stats["fired"] < 150:
        raise AnalysisError(f"context rules fired on only {stats['fired']} evaluations")
    fails.sort(key=lambda t: (t[0], t[1], len(t[2]), t[2]))
    for rule, kind, pat, variant, mm, fired in fails:
        what = {"value": f"denotes a different word after the rewrite (target {mm.get('target')}: {mm.get('before')} before, {mm.get('after')} after, at {mm.get('assignment')})",
                "ill-formed-result": f"leaves an ill-formed specification ({mm.get('what')})",
                "raises": f"raises {mm.get('what')}", "diverges": "does not reach a fixpoint",
                "target-stack-length": "changes the length of the target stack"}.get(kind, kind)
        out.bad(f"context-rule:{rule}:{kind}", f"rule {rule!r} fired on the pattern {pat} and {what}", where(eng.rules_fn),
                {"pattern": pat, "variant": variant, "rules_fired": fired, "mismatch": mm})
    bad_rules = {t[0] for t in fails}
    for n in names:
        k = stats["by_rule"].get(n, 0)
        if n in bad_rules:
            continue
        if k:
            out.ok({"rule": n, "evaluations": k, "verdict": "identity on every pattern and grid point examined"})
        elif n in CTX_NEVER_FIRED:
            out.unproven.append({"site": n, "reason": CTX_NEVER_FIRED[n]})
        else:
            out.bad(f"context-rule-not-exercised:{n}", f"no pattern of the family makes rule {n!r} fire: it is not examined", where(eng.rules_fn))


def rule_g(ctx, out):
    """Applying a type-1 rule (apply_all_simp_rules: substitute the rule's result for the instruction's output everywhere, delete the
    instruction, repeat to a fixpoint) preserves what the target stack denotes and leaves a well-formed specification: interpreted
    on reducible patterns — bare, used twice by one consumer, used by two consumers, nested — and compared as in C03.f."""
    from ..core import ctxrules as cr
    eng2 = cr.Engine(ctx, CTX_CFG["entry"], CTX_CFG["rules_fn"], CTX_CFG["module"])
    eng = cr.Engine(ctx, f"{GO}.apply_all_simp_rules", CTX_CFG["simple"], GO, style="returns")
    eng.defaults.update({"int_not0": [evm.M], "size_flag": False})
    fam = cr.Family(ctx, eng2, CTX_CFG["simple"], CTX_CFG["dispatch"])
    ops2 = ("ADD", "AND", "EQ", "LT") if ctx.tier == "thorough" else ("ADD",)
    variants = ((False, False), (True, False), (False, True)) if ctx.tier == "thorough" else ((False, False), (True, False))
    stats, fails = cr.examine(eng, fam, fam.reducible(ops2), variants=variants, only_normal=False)
    out.info["rule_application"] = {"patterns": stats["patterns"], "evaluations_with_a_rule_fired": stats["fired"], "rules_seen": len(stats["by_rule"])}
    if stats["fired"] < 500 or len(stats["by_rule"]) < 25:
        raise AnalysisError(f"type-1 rule application: only {stats['fired']} firing evaluations / {len(stats['by_rule'])} rules")
    fails.sort(key=lambda t: (t[1], len(t[2]), t[2]))
    shown = set()
    for rule, kind, pat, variant, mm, fired in fails:
        shape = re.sub(r"\b(?:[A-Z]+)\((?:[XYZ0-9]|,|2\^256-1)*\)", "r", pat)      # r = the reducible sub-term
        if (kind, shape) in shown:
            out.instances += 1
            continue
        shown.add((kind, shape))
        what = {"value": f"denotes a different word afterwards (target {mm.get('target')}: {mm.get('before')} before, {mm.get('after')} after, at {mm.get('assignment')})",
                "ill-formed-result": f"leaves an ill-formed specification ({mm.get('what')})", "raises": f"raises {mm.get('what')}",
                "diverges": "does not reach a fixpoint"}.get(kind, kind)
        out.bad(f"rule-application:{shape}:{kind}", f"applying type-1 rules to {pat} (rules {fired[:3]}) {what}", where(eng.entry),
                {"pattern": pat, "variant": variant, "rules_fired": fired, "mismatch": mm})
    bad = len(fails)
    out.instances += stats["fired"] - bad
    out.satisfied += stats["fired"] - bad
    out.samples.append({"shapes": "r, op(r, r), op(r, Z), op(Z, r), op(op(r, Z), r), ISZERO(r), NOT(r) for every reducible r = o(a, b)", "consumers": list(ops2)})


def rule_h(ctx, out):
    """Two occurrences of an operation are made one instruction of the specification only if they denote the same value.  check_inputs
    (the look-up generate_userdefname uses to find an existing instruction) is interpreted for every opcode of the term vocabulary
    with an existing instruction op(a, b, c..) and a candidate that is identical, differs in exactly one operand, or has its first two
    operands exchanged: a match is admissible only for the identical candidate and for the exchange under a commutative operation
    (ADDMOD / MULMOD commute in their first two operands)."""
    from ..core.interp import ModuleInterp
    f = ctx.func(f"{GO}.check_inputs")
    mi = ModuleInterp(ctx, max_steps=50000)
    env = mi.module_env(GO)
    n = 0
    ops = sorted(o for o, (ins, outs) in evm.STACK_ARITY.items() if 1 <= ins <= 3 and outs == 1 and o not in ("PUSH", "DUP", "SWAP"))
    for op in ops:
        k = evm.STACK_ARITY[op][0]
        base = ["s(1)", "s(2)", "s(3)"][:k]
        existing = {"id": f"{op}_0", "disasm": op, "inpt_sk": list(base), "outpt_sk": ["s(9)"], "commutative": op in evm.COMMUTATIVE}
        cands = [("identical", list(base), True)]
        for i in range(k):
            c = list(base)
            c[i] = "s(7)"
            cands.append((f"operand-{i + 1}-differs", c, False))
            c = list(base)
            c[i] = 5
            cands.append((f"operand-{i + 1}-constant", c, False))
        if k >= 2:
            sw = [base[1], base[0]] + base[2:]
            cands.append(("first-two-exchanged", sw, None if (op in evm.COMMUTATIVE or op in ("ADDMOD", "MULMOD")) else False))
            if k == 3:
                sw3 = [base[1], base[0], "s(7)"]
                cands.append(("first-two-exchanged-and-third-differs", sw3, False))
        for label, args, want in cands:
            env["user_defins"] = [dict(existing, inpt_sk=list(existing["inpt_sk"]))]
            try:
                got = mi.call(f, op, list(args))
            except Raised as e:
                got = ("raises", e.what)
            except Unsupported as e:
                raise AnalysisError(f"check_inputs cannot be evaluated abstractly on {op}{tuple(args)}: {e}")
            n += 1
            found = isinstance(got, dict)
            if want is None or found == want:
                out.ok()
            elif found:
                out.bad(f"subexpression-identified-with-different-term:{op}:{label}", f"check_inputs takes {op}{tuple(args)} for the existing instruction "
                        f"{op}{tuple(base)} ({label.replace('-', ' ')}): two different values become one instruction of the specification", where(f))
            elif isinstance(got, tuple):
                out.bad(f"subexpression-lookup-raises:{op}", f"check_inputs raises {got[1]} on {op}{tuple(args)}", where(f))
            else:
                out.bad(f"identical-subexpression-not-found:{op}", f"check_inputs does not find {op}{tuple(base)} among the existing instructions: every occurrence "
                        f"gets its own instruction", where(f))
    if n < 150:
        raise AnalysisError(f"only {n} look-ups evaluated")


def rule_i(ctx, out):
    """Compile-time evaluation of the unary operations is EVM arithmetic whatever Python type the constant arrives in.  Constants
    reach update_unary_func as decimal strings (from PUSH and from the binary folder) *and* as ints (the unary folder stores its own
    results as ints, so ISZERO(NOT(x)) and ISZERO(ISZERO(x)) fold an int).  update_unary_func is interpreted for NOT and ISZERO on
    0, 1, 2, 2^255, 2^256-1 given both ways; the value it records must be NOT / ISZERO of the word."""
    from ..core.interp import ModuleInterp
    f = ctx.func(f"{GO}.update_unary_func")
    mi = ModuleInterp(ctx, max_steps=50000)
    env = mi.module_env(GO)
    n = 0
    for fn_name, ref in (("not", lambda v: (~v) % 2 ** 256), ("iszero", lambda v: 1 if v == 0 else 0)):
        for v in (0, 1, 2, 2 ** 255, 2 ** 256 - 1):
            for as_type, given in (("decimal string", str(v)), ("int", v)):
                env.update(s_dict={}, u_dict={}, gas_saved_op=0, rule_applied=False, rule="", context_info={}, size_flag=False, debug=False, rules_applied=[])
                try:
                    mi.call(f, fn_name, "s(9)", given, True)
                except Raised as e:
                    # an int constant has no .find: the folder may legitimately only accept what is_integer accepts; a raise on an int is reported
                    out.bad(f"unary-fold:{fn_name}:raises:{as_type.replace(' ', '-')}", f"update_unary_func raises {e.what} folding {fn_name.upper()} of the constant {v} given as {as_type}", where(f))
                    n += 1
                    continue
                except Unsupported as e:
                    raise AnalysisError(f"update_unary_func cannot be evaluated abstractly: {e}")
                n += 1
                got = env["s_dict"].get("s(9)")
                folded = isinstance(got, (int, str)) and not isinstance(got, bool) and str(got).lstrip("-").isdigit()
                if not folded:
                    out.ok({"operation": fn_name, "constant": v, "given_as": as_type, "folded": False})
                elif int(got) == ref(v):
                    out.ok({"operation": fn_name, "constant": v, "given_as": as_type, "value": int(got)})
                else:
                    out.bad(f"unary-fold:{fn_name}:wrong-value:{as_type.replace(' ', '-')}", f"update_unary_func folds {fn_name.upper()}({v}), the constant given as {as_type}, to {got}; "
                            f"the EVM value is {ref(v)}", where(f), {"constant": v, "given_as": as_type, "folded_to": got})
    if n < 20:
        raise AnalysisError(f"only {n} unary folds evaluated")


def rule_j(ctx, out):
    """The tables the rules consult answer the same every time they are asked.  The side conditions of the type-1 rules are membership tests
    in tables (`inp_vars[0] in int_not0`), several per rule and per block; a table bound to a one-shot iterator (map / filter / zip / a
    generator expression) answers the first test and is empty afterwards, so the rule decides "is the all-ones mask" for one operand and
    "is not" for the same operand a line later, and returns the wrong operand.  (The abstract evaluation of C03.a models `map` as a list,
    like every evaluator of pure code would: laziness is decided here, on the bindings.)"""
    from ..core.idioms import one_shot_iterators_reused
    n = 0
    for f, name, bind, use in one_shot_iterators_reused(ctx, ("sfs_generator.",)):
        n += 1
        if bind is None:
            out.instances += 1
            out.satisfied += 1
            continue
        where_f = f if f is not None else ctx.p.module("sfs_generator.gasol_optimization")
        out.bad(f"one-shot-iterator-consulted-again:{name}", f"`{name}` is bound to a one-shot iterator (`{short(bind, 60)}`, line {bind.lineno}) and consulted "
                f"again (`{short(getattr(use, '_parent', use), 60)}` in {f.name if f else 'the module'}, line {use.lineno}): after the first membership test "
                f"or loop the iterator is exhausted and every later test answers as if the table were empty", where(where_f, use))
    if n < 1000:
        raise AnalysisError(f"only {n} bindings examined in sfs_generator")


RULES = [
    ("C03.j", "tables consulted by the rules are containers, not one-shot iterators", 1000, rule_j),
    ("C03.i", "unary folds are EVM arithmetic for string and int constants alike", 20, rule_i),
    ("C03.h", "sub-expressions are shared only when every operand agrees", 150, rule_h),
    ("C03.g", "type-1 rule application preserves the denotation", 500, rule_g),
    ("C03.f", "context rules are identities on the pattern family", 25, rule_f),
    ("C03.a", "type-1 rule table against the complete identity set", 200, rule_a),
    ("C03.b", "constant folders stay in the word domain", 15, rule_b),
    ("C03.c", "folded/rewritten operators denote exactly one opcode", 12, rule_c),
    ("C03.d", "size gating of folds", 3, rule_d),
    ("C03.e", "record consistency of re-labelling rules", 15, rule_e),
]
